#!/usr/bin/env python3
"""tools/reexport.py <Props/Cxx.v> <spec.json>: append `Theorem <new> : <statement of lemma>. Proof. exact <lemma>. Qed.`
blocks (+ Print Assumptions) to a Props file.  spec = {"imports": "From TP Require Import ...", "header": "(* comment *)",
"items": [["C17_src_convert", "src_convert", "comment"], ...]}.  The statement text is obtained from Coq itself (Check, in
the context of the Props file + the new imports), so it is exactly the lemma's statement."""
import json, os, re, subprocess, sys, tempfile
V = os.path.dirname(os.path.dirname(os.path.abspath(__file__)))
props, spec = sys.argv[1], json.load(open(sys.argv[2]))
src = open(props).read()
q = src + "\n" + spec["imports"] + "\nSet Printing Width 100.\nSet Printing Depth 1000.\n" + "".join(
    'Redirect "%s" Check %s.\n' % (os.path.join(V, ".work", "rx_" + new), lem) for new, lem, _ in spec["items"])
os.makedirs(os.path.join(V, ".work"), exist_ok=True)
tmp = os.path.join(V, ".work", "reexport_q.v")
open(tmp, "w").write(q)
p = subprocess.run(["coqc", "-Q", os.path.join(V, "coq", "theories"), "TP", "-w", "none", tmp], capture_output=True, text=True)
if p.returncode:
    print(p.stdout[-2000:], p.stderr[-3000:]); sys.exit(1)
out = "\n" + spec["header"] + "\n" + spec["imports"] + "\n"
for new, lem, com in spec["items"]:
    t = open(os.path.join(V, ".work", "rx_" + new + ".out")).read()
    m = re.match(r"\s*\S+\s*\n?\s*:\s*(.*)$", t, re.S)
    stmt = m.group(1).rstrip()
    if com:
        out += "\n(* %s *)" % com
    out += "\nTheorem %s :\n  %s.\nProof. exact %s. Qed.\n" % (new, stmt.replace("\n", "\n  "), lem)
out += "\n" + "".join("Print Assumptions %s.\n" % new for new, _, _ in spec["items"])
open(props, "a").write(out)
print("appended", len(spec["items"]), "theorems to", props)
