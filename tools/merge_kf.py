#!/usr/bin/env python3
"""tools/merge_kf.py: resolve a git merge conflict in known_findings.json by a three-way union on entry ids."""
import json, subprocess, sys
def show(stage):
    return json.loads(subprocess.run(["git", "show", ":%d:known_findings.json" % stage], capture_output=True, text=True, cwd="/verif").stdout)
base, ours, theirs = show(1), show(2), show(3)
bid = {k["id"]: k for k in base["findings"]}
out = []
tid = {k["id"]: k for k in theirs["findings"]}
seen = set()
for k in ours["findings"]:
    i = k["id"]; seen.add(i)
    if i in tid:
        t = tid[i]
        out.append(t if (i in bid and bid[i] == k and t != k) else k)     # only they changed it -> theirs
    elif i in bid:
        continue                                                          # they removed it
    else:
        out.append(k)
for k in theirs["findings"]:
    if k["id"] not in seen and k["id"] not in bid:
        out.append(k)
fixed = list(ours["fixed"]) + [f for f in theirs["fixed"] if f not in ours["fixed"]]
res = dict(ours, findings=out, fixed=fixed)
json.dump(res, open("/verif/known_findings.json", "w"), indent=1)
print("merged: %d findings (ours %d, theirs %d), %d fixed" % (len(out), len(ours["findings"]), len(theirs["findings"]), len(fixed)))
