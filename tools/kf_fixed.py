#!/usr/bin/env python3
"""tools/kf_fixed.py <finding id> <commit|'<commit>'> <what failed>: move an open finding of known_findings.json
to the 'fixed' list (`fixed: property=<id> <commit> <what failed>`).  Run from the verification tree."""
import json
import os
import sys

HERE = os.path.dirname(os.path.dirname(os.path.abspath(__file__)))


def main():
    fid, commit, what = sys.argv[1], sys.argv[2], sys.argv[3]
    path = os.path.join(HERE, "known_findings.json")
    d = json.load(open(path))
    hit = [k for k in d["findings"] if k["id"] == fid]
    if len(hit) != 1:
        sys.exit("no single open finding with id %s" % fid)
    d["findings"] = [k for k in d["findings"] if k["id"] != fid]
    d["fixed"].append("fixed: property=%s %s %s" % (hit[0]["property"], commit, what))
    json.dump(d, open(path, "w"), indent=1)
    print("moved %s (%s); %d open, %d fixed" % (fid, hit[0]["property"], len(d["findings"]), len(d["fixed"])))


if __name__ == "__main__":
    main()
