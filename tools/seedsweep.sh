#!/bin/bash
# tools/seedsweep.sh "C02 C04 ..." "1000 2000 ...": run quick checks on the unchanged tree for several seeds; print failures
cd /verif
for p in $1; do for sd in $2; do
  out=$(VERIF_SEED=$sd VERIF_NO_ESCALATE=1 ./vcheck $p --tier quick 2>&1); rc=$?
  echo "$p seed=$sd rc=$rc $(echo "$out" | grep -v KNOWN | tail -1 | cut -c1-150)"
  if [ $rc -ne 0 ]; then echo "$out" | grep VIOLATION | head -3; mkdir -p /tmp/sweepfail; cp -r evidence/replays /tmp/sweepfail/$p-$sd 2>/dev/null; fi
done; done
