#!/usr/bin/env python3
"""tools/keepseed.py <seed-out-dir> <id> <chk.json>: keep a confirmed seeded change under /verif/seeded/<id>/."""
import json, os, shutil, sys
src, sid, chk = sys.argv[1:4]
dst = os.path.join(os.path.dirname(os.path.dirname(os.path.abspath(__file__))), "seeded", sid)
os.makedirs(dst, exist_ok=True)
for f in ("patch.diff", "demo.py"):
    shutil.copy(os.path.join(src, f), os.path.join(dst, f))
meta = json.load(open(os.path.join(src, "meta.json")))
c = json.load(open(chk))
meta["breaks_property"] = meta.get("property")
meta["needs_to_manifest"] = meta.get("needs")
meta["confirmed_by_lead"] = {
    "ran": "tools/seedcheck.py: scratch worktree of /repo HEAD; demo.py on clean tree; git apply patch.diff; full pytest suite; demo.py again",
    "demo_clean_exit": c.get("demo_clean_exit"), "suite": c.get("suite_summary"), "demo_changed_exit": c.get("demo_changed_exit"),
    "demo_changed_tail": c.get("demo_changed_tail")}
meta["origin"] = "independent sub-agent given only the property text and a scratch worktree"
json.dump(meta, open(os.path.join(dst, "meta.json"), "w"), indent=1)
print("kept", dst)
