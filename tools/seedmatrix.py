#!/usr/bin/env python3
"""Run every kept seeded change (seeded/<id>/) against the check of the property it breaks (and optional extra
properties), in parallel; write seeded/RESULTS.json and print a table.
   tools/seedmatrix.py [--only C03-1,C05-2] [--jobs 4] [--extra C01]"""
import argparse, concurrent.futures as cf, json, os, subprocess, sys
V = os.path.dirname(os.path.dirname(os.path.abspath(__file__)))
ap = argparse.ArgumentParser(); ap.add_argument("--only", default=""); ap.add_argument("--jobs", type=int, default=4)
ap.add_argument("--extra", default=""); ap.add_argument("--tier", default="quick")
a = ap.parse_args()
registered = {c["property_id"] for c in json.load(open(os.path.join(V, "MANIFEST.json")))["checks"]}
seeds = sorted(d for d in os.listdir(os.path.join(V, "seeded")) if os.path.isdir(os.path.join(V, "seeded", d)))
if a.only:
    seeds = [s for s in seeds if s in a.only.split(",")]
res_path = os.path.join(V, "seeded", "RESULTS.json")
try:
    results = json.load(open(res_path))
except Exception:
    results = {}

def run(sid):
    meta = json.load(open(os.path.join(V, "seeded", sid, "meta.json")))
    if meta.get("obsolete"):
        return sid, {"obsolete": meta["obsolete"]}
    props = [meta["property"]] + [p for p in a.extra.split(",") if p]
    props = [p for p in props if p in registered]
    if not props:
        return sid, None
    p = subprocess.run([sys.executable, os.path.join(V, "tools", "seedcheck.py"), os.path.join(V, "seeded", sid),
                        "--props", ",".join(props), "--skip-suite", "--tier", a.tier], capture_output=True, text=True)
    try:
        o = json.loads(p.stdout)
    except Exception:
        return sid, {"error": (p.stdout + p.stderr)[-500:]}
    out = {}
    for pr, c in (o.get("checks") or {}).items():
        concrete = [r["key"] for r in c["replays"] if not str(r["key"]).startswith("broken:")]
        out[pr] = {"exit": c["exit"], "detected": c["exit"] == 1, "concrete_replays": concrete[:5],
                   "no_input_only": c["exit"] == 1 and not concrete,
                   "violation_lines": len([l for l in c["lines"] if l.startswith("VIOLATION")])}
    return sid, out

with cf.ThreadPoolExecutor(a.jobs) as ex:
    for sid, out in ex.map(run, seeds):
        if out is None:
            print("%-7s (property not registered yet)" % sid); continue
        results[sid] = out
        if "obsolete" in out:
            print("%-7s obsolete" % sid); json.dump(results, open(res_path, "w"), indent=1, sort_keys=True); continue
        for pr, c in out.items() if "error" not in out else []:
            print("%-7s %-4s %s %s" % (sid, pr, "DETECTED" if c["detected"] else "missed  ", c["concrete_replays"][:2] or ("no-failing-input-found" if c["no_input_only"] else "")))
        if "error" in out:
            print(sid, "ERROR", out["error"][-200:])
        json.dump(results, open(res_path, "w"), indent=1, sort_keys=True)
