#!/usr/bin/env python3
"""tools/merge_builder.py <copy-dir>: copy NEW source files of a builder's private copy into /verif, merge its
known_findings entries, and print the shared files it changed (to be merged by hand)."""
import json, os, shutil, subprocess, sys
src = sys.argv[1].rstrip("/")
out = subprocess.run(["/verif/tools/builder_diff.sh", src], capture_output=True, text=True).stdout
for line in out.split("\n"):
    if not line.strip():
        continue
    kind, f = line.split(None, 1)
    f = f.strip()
    if kind == "new":
        if f.startswith("corpus/") or f.startswith("coq/") or f.startswith("harness/") or f in ():
            os.makedirs(os.path.dirname(os.path.join("/verif", f)), exist_ok=True)
            shutil.copy(os.path.join(src, f), os.path.join("/verif", f))
            print("copied ", f)
        else:
            print("NEW (not copied):", f)
    elif kind == "CHANGED":
        if f == "known_findings.json":
            mine = json.load(open("/verif/known_findings.json"))
            theirs = json.load(open(os.path.join(src, f)))
            ids = {k["id"] for k in mine["findings"]}
            for k in theirs.get("findings", []):
                if k["id"] not in ids:
                    mine["findings"].append(k)
                    print("finding +", k["id"])
            for k in theirs.get("fixed", []):
                if k not in mine["fixed"]:
                    print("their fixed entry (not merged):", k[:100])
            json.dump(mine, open("/verif/known_findings.json", "w"), indent=1)
        else:
            print("CHANGED (merge by hand):", f)
