#!/usr/bin/env python3
"""Run every registered check (MANIFEST.json) serially on the current /repo tree; print a summary table.
   tools/runall.py [--tier quick|thorough] [--seed N] [--only C01,C02]"""
import argparse, json, os, subprocess, sys, time
V = os.path.dirname(os.path.dirname(os.path.abspath(__file__)))
ap = argparse.ArgumentParser(); ap.add_argument("--tier", default="quick"); ap.add_argument("--seed", default="0"); ap.add_argument("--only", default="")
a = ap.parse_args()
m = json.load(open(os.path.join(V, "MANIFEST.json")))
only = set(x for x in a.only.split(",") if x)
bad = 0
for c in m["checks"]:
    pid = c["property_id"]
    if only and pid not in only:
        continue
    cmd = c["quick_cmd"] if a.tier == "quick" else c["thorough_cmd"]
    t = time.time()
    p = subprocess.run(cmd, shell=True, cwd=V, capture_output=True, text=True, env=dict(os.environ, VERIF_SEED=a.seed))
    lines = [l for l in (p.stdout + p.stderr).split("\n") if l.startswith(("VIOLATION", "KNOWN-FINDING", "[" + pid))]
    print("%s exit=%d %.0fs" % (pid, p.returncode, time.time() - t))
    for l in lines:
        print("    " + l[:220])
    if p.returncode != 0:
        bad += 1
        print("    ---- tail ----\n    " + "\n    ".join((p.stdout + p.stderr).strip().split("\n")[-8:]))
sys.exit(1 if bad else 0)
