#!/usr/bin/env python3
"""tools/record_baseline.py: record the content hashes of /repo/typedpy/**/*.py at the commit the checks were
last shown to pass on (baseline_tree.json).  A run on a tree that differs from this baseline is a run on
CHANGED code: the quick tier then widens its search (harness/main.py, escalation), it never changes a verdict."""
import hashlib, json, os, subprocess
V = os.path.dirname(os.path.dirname(os.path.abspath(__file__)))
R = os.environ.get("TYPEDPY_REPO", "/repo")
out = {}
for root, _, files in os.walk(os.path.join(R, "typedpy")):
    for f in files:
        if f.endswith(".py"):
            p = os.path.join(root, f)
            out[os.path.relpath(p, R)] = hashlib.sha256(open(p, "rb").read()).hexdigest()
head = subprocess.run(["git", "-C", R, "rev-parse", "HEAD"], capture_output=True, text=True).stdout.strip()
json.dump({"repo_head": head, "files": dict(sorted(out.items()))}, open(os.path.join(V, "baseline_tree.json"), "w"), indent=0)
print("baseline recorded:", head, len(out), "files")
