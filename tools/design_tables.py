#!/usr/bin/env python3
"""Regenerates the machine-derived tables of DESIGN.md §12 (between the AUTOGEN markers) from MANIFEST.json,
known_findings.json and seeded/*/meta.json + seeded/RESULTS.json."""
import json, os, re
V = os.path.dirname(os.path.dirname(os.path.abspath(__file__)))
m = json.load(open(os.path.join(V, "MANIFEST.json")))
kf = json.load(open(os.path.join(V, "known_findings.json")))
try:
    res = json.load(open(os.path.join(V, "seeded", "RESULTS.json")))
except Exception:
    res = {}
out = []
out.append("#### Seeded changes and which checks catch them\n")
out.append("| seed | breaks | what was changed | needs | result of the property's own check | other checks run |")
out.append("|---|---|---|---|---|---|")
sd = os.path.join(V, "seeded")
for sid in sorted(d for d in os.listdir(sd) if os.path.isdir(os.path.join(sd, d))):
    meta = json.load(open(os.path.join(sd, sid, "meta.json")))
    r = res.get(sid, {})
    own = r.get(meta["property"])
    def cell(c):
        if meta.get("obsolete"):
            return "obsolete: " + meta["obsolete"][:120]
        if not c:
            return "not run"
        if c.get("detected"):
            return "**caught**: " + (", ".join("`%s`" % k for k in c["concrete_replays"][:2]) or "broken obligation, no-failing-input-found")
        return "missed"
    others = "; ".join("%s: %s" % (p, "caught" if c.get("detected") else "missed") for p, c in sorted(r.items()) if p != meta["property"] and isinstance(c, dict) and "detected" in c)
    esc = lambda s: str(s).replace("|", "\\|").replace("\n", " ")[:230]
    out.append("| %s | %s | %s | %s | %s | %s |" % (sid, meta["property"], esc(meta.get("summary", "")), esc(meta.get("needs", "")), cell(own), others))
out.append("")
out.append("#### Known findings (open) per property\n")
by = {}
for k in kf["findings"]:
    by.setdefault(k["property"], []).append(k)
out.append("| property | id | what fails |")
out.append("|---|---|---|")
for p in sorted(by):
    for k in by[p]:
        out.append("| %s | `%s` | %s |" % (p, k["id"], str(k.get("summary", "")).replace("|", "\\|").replace("\n", " ")[:260]))
out.append("")
out.append("#### Fixed defects (`fix:` commits in /repo)\n")
for f in kf["fixed"]:
    out.append("* " + f)
out.append("")
text = "\n".join(out)
p = os.path.join(V, "DESIGN.md")
s = open(p).read()
a, b = "<!-- AUTOGEN:BEGIN -->", "<!-- AUTOGEN:END -->"
if a in s:
    s = s[: s.index(a) + len(a)] + "\n" + text + "\n" + s[s.index(b):]
    open(p, "w").write(s)
    print("DESIGN.md tables updated")
else:
    print(text)
