#!/usr/bin/env python3
import json, sys, glob
for f in sorted(sum((glob.glob(a) for a in sys.argv[1:]), [])):
    try:
        o = json.load(open(f))
        print(f.split('/')[-1], {k: o.get(k) for k in ('demo_clean_exit', 'patch_applies', 'suite_summary', 'demo_changed_exit', 'confirmed')})
        for p, c in (o.get('checks') or {}).items():
            print("   ", p, "exit", c['exit'], [r['key'] for r in c['replays']][:4])
    except Exception as e:
        print(f.split('/')[-1], "not ready:", str(e)[:40])
