#!/usr/bin/env python3
"""tools/resolve_append.py <file>: resolve 'both appended at the end' conflicts: keep THEIRS block, then OURS block."""
import sys
p = sys.argv[1]
s = open(p).read()
while "<<<<<<< " in s:
    a = s.index("<<<<<<< "); a2 = s.index("\n", a) + 1
    m = s.index("=======\n", a2); e = s.index(">>>>>>> ", m); e2 = s.index("\n", e) + 1
    ours, theirs = s[a2:m], s[m + 8:e]
    s = s[:a] + theirs + "\n" + ours + s[e2:]
open(p, "w").write(s)
