#!/usr/bin/env python3
"""Confirm a seeded change (patch.diff + demo.py) and run checks against it.

  tools/seedcheck.py <seed-dir> [--props C03,C04] [--tier quick] [--keep]

Steps (each in a scratch git worktree of /repo under /tmp, removed afterwards):
  1. demo.py on the clean tree must exit 0;
  2. the patch must apply; the whole pinned test-suite must pass with it;
  3. demo.py must exit non-zero with it;
  4. for every requested property, `./vcheck <P>` is run from a scratch COPY of /verif with
     TYPEDPY_REPO pointing at the patched worktree (so /verif/coq/theories/Gen and /repo are untouched);
     exit code and VIOLATION lines are recorded.
Prints a JSON summary; exit 0 iff steps 1-3 hold."""
import argparse
import json
import os
import re
import shutil
import subprocess
import sys
import tempfile

PY = "/venv/bin/python"
VERIF = os.path.dirname(os.path.dirname(os.path.abspath(__file__)))


def sh(cmd, cwd=None, env=None, timeout=3600):
    p = subprocess.run(cmd, cwd=cwd, env=env, capture_output=True, text=True, timeout=timeout)
    return p.returncode, p.stdout + p.stderr


def main():
    ap = argparse.ArgumentParser()
    ap.add_argument("seed")
    ap.add_argument("--props", default="")
    ap.add_argument("--tier", default="quick")
    ap.add_argument("--skip-suite", action="store_true")
    a = ap.parse_args()
    seed = os.path.abspath(a.seed)
    base = tempfile.mkdtemp(prefix="seedchk_", dir="/tmp")
    wt = os.path.join(base, "repo")
    out = {"seed": seed}
    env = dict(os.environ, PYTHONPATH=wt, PYTHONHASHSEED="0", PYTHONDONTWRITEBYTECODE="1")
    try:
        rc, log = sh(["git", "-C", "/repo", "worktree", "add", "-q", "--detach", wt, "HEAD"])
        if rc:
            out["error"] = "worktree: " + log
            print(json.dumps(out, indent=1)); return 2
        demo = os.path.join(seed, "demo.py")
        rc, log = sh([PY, demo], cwd=wt, env=env, timeout=600)
        out["demo_clean_exit"] = rc
        if rc:
            out["demo_clean_log"] = log[-1500:]
        rc, log = sh(["git", "-C", wt, "apply", os.path.join(seed, "patch.diff")])
        if rc:   # /repo has moved on (fix: commits): fall back to a 3-way merge of the hunk
            rc, log = sh(["git", "-C", wt, "apply", "--3way", os.path.join(seed, "patch.diff")])
            out["applied_3way"] = rc == 0
            if rc == 0:     # a 3-way application may leave conflict markers behind: that is NOT the seeded change
                rc2, log2 = sh(["grep", "-rlE", "^(<<<<<<<|>>>>>>>) ", os.path.join(wt, "typedpy")])
                if rc2 == 0:
                    rc, log = 1, "3-way application left conflict markers in: " + log2
        out["patch_applies"] = rc == 0
        if rc:
            out["apply_log"] = log[-1500:]
            print(json.dumps(out, indent=1)); return 1
        if not a.skip_suite:
            rc, log = sh([PY, "-m", "pytest", "-q", "-p", "no:cacheprovider", "--timeout=900", "-x"], cwd=wt, env=env)
            m = re.findall(r"^(=+ .* in [\d.]+s.*=+|\d+ passed.*)$", log, re.M)
            out["suite_exit"] = rc
            out["suite_summary"] = m[-1] if m else log[-300:]
        rc, log = sh([PY, demo], cwd=wt, env=env, timeout=600)
        out["demo_changed_exit"] = rc
        out["demo_changed_tail"] = log.strip().split("\n")[-1][:300]
        out["confirmed"] = (out["demo_clean_exit"] == 0 and out["demo_changed_exit"] != 0
                            and (a.skip_suite or out.get("suite_exit") == 0))
        props = [p for p in a.props.split(",") if p]
        if props:
            vcopy = os.path.join(base, "verif")
            shutil.copytree(VERIF, vcopy, ignore=shutil.ignore_patterns(".git", ".work", "seeded"))
            out["checks"] = {}
            for p in props:
                e2 = dict(os.environ, TYPEDPY_REPO=wt)
                rc, log = sh([os.path.join(vcopy, "vcheck"), p, "--tier", a.tier], cwd=vcopy, env=e2, timeout=7200)
                lines = [l for l in log.split("\n") if l.startswith(("VIOLATION", "KNOWN-FINDING", "[" + p))]
                rec = {"exit": rc, "lines": lines[:12]}
                # summarise the replays
                rdir = os.path.join(vcopy, "evidence", "replays")
                reps = []
                if os.path.isdir(rdir):
                    for f in sorted(os.listdir(rdir)):
                        if f.startswith(p + "-"):
                            try:
                                o = json.load(open(os.path.join(rdir, f)))
                                reps.append({"key": o.get("finding_key"), "what": str(o.get("what"))[:400]})
                            except Exception:  # noqa
                                pass
                rec["replays"] = reps[:8]
                out["checks"][p] = rec
        print(json.dumps(out, indent=1))
        return 0 if out.get("confirmed") else 1
    finally:
        sh(["git", "-C", "/repo", "worktree", "remove", "--force", wt])
        shutil.rmtree(base, ignore_errors=True)
        sh(["git", "-C", "/repo", "worktree", "prune"])


if __name__ == "__main__":
    sys.exit(main())
