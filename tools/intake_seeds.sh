#!/bin/bash
# tools/intake_seeds.sh C01 C02 ...: confirm /tmp/seedout/<P>/{a,b} with seedcheck (full suite) and keep them as seeded/<P>-3, <P>-4
cd /verif
for P in "$@"; do
  n=${SEEDNUM:-3}
  for v in a b; do
    d=/tmp/seedout/$P/$v
    if [ -f $d/patch.diff ] && [ -f $d/demo.py ] && [ -f $d/meta.json ]; then
      /venv/bin/python tools/seedcheck.py $d > /tmp/seedout/$P/$v.chk.json 2>/tmp/seedout/$P/$v.chk.err
      if [ $? -eq 0 ]; then /venv/bin/python tools/keepseed.py $d $P-$n /tmp/seedout/$P/$v.chk.json; else echo "NOT CONFIRMED $P/$v: $(grep -E 'demo_clean_exit|suite_summary|demo_changed_exit|patch_applies' /tmp/seedout/$P/$v.chk.json | tr -d '\n')"; fi
    else echo "INCOMPLETE $d"; fi
    n=$((n+1))
  done
done
