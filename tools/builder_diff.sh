#!/bin/bash
# tools/builder_diff.sh <copy-dir>: list source files that differ between a builder's private copy and /verif
# (new = only in the copy; changed = in both, content differs; base = content at tag builders-base)
cd /verif
rsync -rcn --out-format='%n' --exclude='.git' --exclude='.work' --exclude='*.vo' --exclude='*.vok' --exclude='*.vos' --exclude='*.glob' --exclude='*.aux' --exclude='__pycache__' --exclude='.lia.cache' --exclude='.nia.cache' --exclude='Makefile*' --exclude='.Makefile.d' --exclude='_CoqProject.full' --exclude='evidence/' --exclude='.coqdeps.d' --exclude='seeded/' --exclude='tools/' "$1"/ /verif/ | grep -v '/$' | while read f; do
  if [ -e "/verif/$f" ]; then
    if git cat-file -e builders-base:"$f" 2>/dev/null && git show builders-base:"$f" | cmp -s - "$1/$f"; then echo "same-as-base  $f"; else echo "CHANGED       $f"; fi
  else echo "new           $f"; fi
done
