#!/bin/bash
# tools/refresh_patches.sh: for every kept seed whose patch no longer applies cleanly to /repo HEAD, try a 3-way apply in a scratch
# worktree; when it merges without conflict markers, rewrite patch.diff as the clean diff; otherwise report it (needs a manual rebase).
cd /repo && git worktree add --detach /tmp/vw/applychk HEAD -q || exit 1
cd /tmp/vw/applychk
for d in /verif/seeded/C*/; do n=$(basename $d)
  python3 -c "import json,sys; sys.exit(0 if json.load(open('$d/meta.json')).get('obsolete') else 1)" && continue
  git apply --check $d/patch.diff 2>/dev/null && continue
  if git apply --3way $d/patch.diff >/dev/null 2>&1 && ! grep -rq '^<<<<<<< ' typedpy; then git diff HEAD > /tmp/vw/applychk.diff; cp /tmp/vw/applychk.diff $d/patch.diff; echo "$n refreshed"; else echo "$n CONFLICT"; fi
  git reset -q --hard
done
cd /repo; git worktree remove --force /tmp/vw/applychk
