#!/bin/bash
# tools/merge_branch.sh <id>: merge branch b-<id> of /tmp/vw/<id> into /verif, resolving known_findings.json / MANIFEST.json / evidence conflicts
cd /verif
id=$1
git checkout -- evidence 2>/dev/null; git fetch -q /tmp/vw/$id b-$id || exit 1
git merge --no-edit FETCH_HEAD > /tmp/merge_$id.log 2>&1
if [ $? -ne 0 ]; then
  for f in $(git diff --name-only --diff-filter=U); do
    case $f in
      known_findings.json) /venv/bin/python tools/merge_kf.py && git add known_findings.json ;;
      MANIFEST.json) git checkout --ours MANIFEST.json; git add MANIFEST.json ;;
      evidence/*|seeded/RESULTS.json) git checkout --ours $f; git add $f ;;
      coq/theories/Gen/*.v) git checkout --theirs $f; git add $f ;;   # regenerated from /repo on the next run anyway
      *) echo "UNRESOLVED CONFLICT: $f" ;;
    esac
  done
  if [ -z "$(git diff --name-only --diff-filter=U)" ]; then python3 gen_manifest.py >/dev/null; git add MANIFEST.json; git commit -qm "Merge b-$id"; echo "merged $id (auto-resolved)"; else echo "merge of $id needs manual resolution"; fi
else
  python3 gen_manifest.py >/dev/null; git add MANIFEST.json; git commit -qm "MANIFEST after merging b-$id" -q 2>/dev/null; echo "merged $id"
fi
