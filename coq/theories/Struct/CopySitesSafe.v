(* The copy policy read from the CURRENT source (Gen/CopySites.v, regenerated on every run) is safe: every
   value Structure.__deepcopy__ and the wrappers' __deepcopy__ re-use instead of copying is of a deeply
   immutable type.  This file stops compiling when an edit of the copy routines makes that false. *)
From Coq Require Import Bool List.
From TP Require Import Struct.CopyHeap Struct.StatePolicy Gen.CopySites.

Lemma copy_sites_safe : policy_safe copy_sites = true.
Proof. vm_compute. reflexivity. Qed.

(* ... and Structure.__getstate__ keeps every declared name present in __dict__, with its stored value *)
Lemma state_sites_safe : state_policy_safe state_sites = true.
Proof. vm_compute. reflexivity. Qed.
