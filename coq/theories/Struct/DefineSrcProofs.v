(* The tie between the GENERATED translation of the class-definition code of typedpy/structures/structures.py
   (Gen/DefineSrc.v: what make_signature, get_base_info, _check_for_final_violations, _block_invalid_consts,
   _get_all_fields_by_name, _apply_default_and_update_required_not_to_include_fields_with_defaults say NOW) and the
   hand-written model on which the C14 / C13 / C16 theorems are proved: Struct/Define.v.

   Every theorem is about EVERY model-level input.  How a model-level description is seen as the Python-level
   arguments is said by the [v_...] definitions in front of each theorem:
     a list of names               the list  [PStr n; ...]                                    [v_names]
     the parameters of the bases   the dict  name -> inspect.Parameter(name, POSITIONAL_OR_KEYWORD[, default=None])
                                                                                               [v_params]
     a class environment [genv]    a heap in which class c is the object "c" with __mro__, __signature__,
                                   __dict__, isinstance(c, StructMeta)                         [genv_heap]
   The iteration order of a set is an oracle [so]; the theorems hold for every oracle that permutes ([so_ok]),
   and say how the result depends on it (a permutation of the required parameters). *)
From Coq Require Import ZArith NArith String Ascii Bool Lia List Permutation.
Import ListNotations.
From TP Require Import Base.PyVal Base.PyEq Base.PyOps Base.PyOps2 Base.PyObj Base.PyOpsDerive Base.PyOpsDefine
     Fields.FieldAst Fields.SetChain Struct.Define Struct.DefineProofs Gen.DefineSrc.
From TP Require Base.PyOpsFields Base.PyOpsVersioned.

Definition so_ok (so : set_order) : Prop := forall l, Permutation (so l) l.

Lemma so_ok_id : so_ok (fun l => l).
Proof. intro l. apply Permutation_refl. Qed.

(* ------------------------------------------------------------------ lists of names as Python lists of str *)

Definition v_names (l : list pystr) : pyval := PList (map PStr l).
Definition v_strs (l : list pystr) : list pyval := map PStr l.

Lemma py_eq_str a b : py_eq (PStr a) (PStr b) = pystr_eqb a b.
Proof. reflexivity. Qed.

Lemma hashable_strs l : forallb py_hashable' (v_strs l) = true.
Proof. induction l as [|x t IH]; [reflexivity|]. cbn [v_strs map forallb py_hashable' andb]. exact IH. Qed.

Lemma py_in_strs n l : py_in (PStr n) (v_strs l) = str_in n l.
Proof.
  unfold py_in, str_in, v_strs. induction l as [|x t IH]; [reflexivity|].
  cbn [map existsb]. rewrite py_eq_str, IH. reflexivity.
Qed.

Lemma filter_ext_in' {A} (f g : A -> bool) l : (forall x, In x l -> f x = g x) -> filter f l = filter g l.
Proof.
  induction l as [|x t IH]; intro H; [reflexivity|]. cbn [filter].
  rewrite (H x (or_introl eq_refl)). rewrite IH; [reflexivity|]. intros y Hy. apply H. right. exact Hy.
Qed.

Lemma filter_strs (p : pystr -> bool) (q : pyval -> bool) l :
  (forall n, q (PStr n) = p n) -> filter q (v_strs l) = v_strs (filter p l).
Proof.
  intro H. unfold v_strs. induction l as [|x t IH]; [reflexivity|].
  cbn [map filter]. rewrite H. destruct (p x); cbn [map]; [f_equal|]; exact IH.
Qed.

Lemma filter_filter {A} (p q : A -> bool) l : filter p (filter q l) = filter (fun x => q x && p x) l.
Proof.
  induction l as [|x t IH]; [reflexivity|]. cbn [filter]. destruct (q x); cbn [filter andb].
  - destruct (p x); [f_equal|]; exact IH.
  - exact IH.
Qed.

Lemma filter_dedup_str p l : filter p (dedup_str l) = dedup_str (filter p l).
Proof.
  induction l as [|x t IH]; [reflexivity|]. cbn [dedup_str filter].
  destruct (p x) eqn:Hp; cbn [dedup_str].
  - f_equal. rewrite <- IH, !filter_filter. apply filter_ext. intro y. apply andb_comm.
  - rewrite <- IH, filter_filter. apply filter_ext. intro y.
    destruct (pystr_eqb y x) eqn:E; cbn [negb andb]; [|reflexivity].
    apply pystr_eqb_spec in E; subst. symmetry; exact Hp.
Qed.

(* order-preserving de-duplication of a list of str *)
Lemma py_dedup_aux_strs l : forall seen,
  py_dedup_aux (v_strs seen) (v_strs l) =
  v_strs (rev seen ++ dedup_str (filter (fun n => negb (str_in n seen)) l)).
Proof.
  induction l as [|x t IH]; intro seen.
  - cbn [v_strs map py_dedup_aux filter dedup_str]. rewrite app_nil_r. unfold v_strs. rewrite map_rev. reflexivity.
  - cbn [v_strs map py_dedup_aux filter]. fold (v_strs seen). fold (v_strs t). rewrite py_in_strs.
    destruct (str_in x seen) eqn:Hx; cbn [negb].
    + apply IH.
    + change (PStr x :: v_strs seen) with (v_strs (x :: seen)). rewrite IH.
      cbn [rev dedup_str]. rewrite <- app_assoc. cbn [app]. do 3 f_equal.
      rewrite filter_dedup_str, filter_filter. f_equal. apply filter_ext. intro y.
      cbn [str_in existsb]. fold (str_in y seen). rewrite negb_orb. apply andb_comm.
Qed.

Lemma py_dedup_strs l : py_dedup (v_strs l) = v_strs (dedup_str l).
Proof.
  unfold py_dedup. change (@nil pyval) with (v_strs []). rewrite py_dedup_aux_strs.
  cbn [rev app]. f_equal. f_equal. induction l as [|x t IH]; [reflexivity|]. cbn [filter str_in existsb negb]. f_equal. exact IH.
Qed.

Lemma str_in_dedup n l : str_in n (dedup_str l) = str_in n l.
Proof.
  destruct (str_in n l) eqn:E.
  - apply str_in_In. apply (proj2 (In_dedup_str n l)). apply str_in_In. exact E.
  - apply str_in_false. intro H. apply (proj1 (In_dedup_str n l)) in H. exact (proj1 (str_in_false n l) E H).
Qed.

Lemma Permutation_filter {A} (p : A -> bool) l l' : Permutation l l' -> Permutation (filter p l) (filter p l').
Proof.
  induction 1 as [|x l l' _ IH|x y l|l l' l'' _ IH1 _ IH2]; cbn [filter].
  - constructor.
  - destruct (p x); [constructor|]; exact IH.
  - destruct (p x), (p y); try apply perm_swap; try apply Permutation_refl.
  - eapply Permutation_trans; eassumption.
Qed.

Lemma str_in_perm n l l' : Permutation l l' -> str_in n l = str_in n l'.
Proof.
  intro H. destruct (str_in n l') eqn:E.
  - apply str_in_In. apply str_in_In in E. eapply Permutation_in; [apply Permutation_sym; exact H|exact E].
  - apply str_in_false. intro Hin. apply (proj1 (str_in_false n l') E). eapply Permutation_in; eassumption.
Qed.

(* what the oracle does to a list of str *)
Lemma so_strs so l : so_ok so -> exists l', so (v_strs l) = v_strs l' /\ Permutation l' l.
Proof.
  intro H. pose proof (H (v_strs l)) as P. unfold v_strs in P at 2.
  apply Permutation_map_inv in P. destruct P as [l' [E P]].
  exists l'. split; [exact E|apply Permutation_sym; exact P].
Qed.

(* ------------------------------------------------------------------ dicts with str keys *)

Definition skeys (l : list (pystr * pyval)) : list (pyval * pyval) := map (fun p => (PStr (fst p), snd p)) l.

Lemma dict_get_skeys l n : dict_get (skeys l) (PStr n) = alist_get l n.
Proof.
  induction l as [|[k v] t IH]; [reflexivity|].
  cbn [skeys map fst snd dict_get alist_get]. rewrite py_eq_str. destruct (pystr_eqb k n); [reflexivity|exact IH].
Qed.

Lemma dict_has_skeys l n : dict_has (skeys l) (PStr n) = alist_has l n.
Proof. unfold dict_has, alist_has. rewrite dict_get_skeys. reflexivity. Qed.

Lemma dict_set_skeys l n v : dict_set (skeys l) (PStr n) v = skeys (alist_set l n v).
Proof.
  induction l as [|[k x] t IH]; [reflexivity|].
  cbn [skeys map fst snd dict_set alist_set]. rewrite py_eq_str.
  destruct (pystr_eqb k n); [reflexivity|]. cbn [map fst snd]. f_equal. exact IH.
Qed.

Lemma skeys_app a b : skeys (a ++ b) = skeys a ++ skeys b.
Proof. apply map_app. Qed.

Lemma alist_has_str_in {A} (l : list (pystr * A)) n : alist_has l n = str_in n (map fst l).
Proof.
  unfold alist_has. induction l as [|[k v] t IH]; [reflexivity|].
  cbn [alist_get map fst str_in existsb]. rewrite (pystr_eqb_sym n k). destruct (pystr_eqb k n); [reflexivity|exact IH].
Qed.

Lemma alist_set_keys {A} (l : list (pystr * A)) n v : map fst (alist_set l n v) = add_str n (map fst l).
Proof.
  unfold add_str. induction l as [|[k y] t IH]; [reflexivity|].
  cbn [alist_set map fst str_in existsb]. rewrite (pystr_eqb_sym n k).
  destruct (pystr_eqb k n) eqn:E; cbn [orb map fst]; [reflexivity|].
  rewrite IH. fold (str_in n (map fst t)). destruct (str_in n (map fst t)); reflexivity.
Qed.

(* {**a, **b} on association lists *)
Definition alist_merge {A} (a b : list (pystr * A)) : list (pystr * A) :=
  fold_left (fun acc p => alist_set acc (fst p) (snd p)) b a.

Lemma alist_merge_keys {A} (a b : list (pystr * A)) :
  map fst (alist_merge a b) = merge_names (map fst a) (map fst b).
Proof.
  unfold alist_merge, merge_names. revert a. induction b as [|[k v] t IH]; intro a; [reflexivity|].
  cbn [fold_left map fst snd]. rewrite IH, alist_set_keys. reflexivity.
Qed.

Lemma alist_merge_get {A} (a b : list (pystr * A)) n :
  NoDup (map fst b) ->
  alist_get (alist_merge a b) n = match alist_get b n with Some v => Some v | None => alist_get a n end.
Proof.
  unfold alist_merge. revert a. induction b as [|[k v] t IH]; intros a Hnd; [reflexivity|].
  cbn [map fst] in Hnd. inversion Hnd as [|? ? Hk Hd]; subst.
  cbn [fold_left fst snd alist_get]. rewrite (IH _ Hd).
  destruct (pystr_eqb k n) eqn:E.
  - apply pystr_eqb_spec in E; subst.
    assert (Ht : alist_get t n = None) by (apply alist_get_None_notin; exact Hk).
    rewrite Ht. apply alist_get_set_same.
  - destruct (alist_get t n); [reflexivity|]. apply alist_get_set_other. intro; subst. rewrite pystr_eqb_refl in E. discriminate.
Qed.

Lemma alist_merge_NoDup {A} (a b : list (pystr * A)) : NoDup (map fst a) -> NoDup (map fst (alist_merge a b)).
Proof.
  unfold alist_merge. revert a. induction b as [|[k v] t IH]; intros a H; [exact H|].
  cbn [fold_left]. apply IH. apply alist_set_NoDup. exact H.
Qed.

(* an association list with distinct keys is determined by its keys and its lookup function *)
Lemma alist_rebuild {A} (l : list (pystr * A)) (F : pystr -> A) :
  NoDup (map fst l) -> (forall n, In n (map fst l) -> alist_get l n = Some (F n)) ->
  l = map (fun n => (n, F n)) (map fst l).
Proof.
  induction l as [|[k v] t IH]; intros Hnd H; [reflexivity|].
  cbn [map fst] in *. inversion Hnd as [|? ? Hk Hd]; subst.
  pose proof (H k (or_introl eq_refl)) as Hkv. cbn [alist_get] in Hkv. rewrite pystr_eqb_refl in Hkv.
  inversion Hkv; subst. f_equal. apply IH; [exact Hd|].
  intros n Hn. specialize (H n (or_intror Hn)). cbn [alist_get] in H.
  destruct (pystr_eqb k n) eqn:E; [|exact H]. apply pystr_eqb_spec in E; subst. contradiction.
Qed.

Lemma alist_get_uniform {A} (F : pystr -> A) l n :
  alist_get (map (fun x => (x, F x)) l) n = if str_in n l then Some (F n) else None.
Proof.
  induction l as [|x t IH]; [reflexivity|]. cbn [map alist_get str_in existsb].
  rewrite (pystr_eqb_sym n x). destruct (pystr_eqb x n) eqn:E; cbn [orb]; [|exact IH].
  apply pystr_eqb_spec in E; subst. reflexivity.
Qed.

Lemma map_fst_uniform {A} (F : pystr -> A) l : map fst (map (fun x => (x, F x)) l) = l.
Proof. rewrite map_map. cbn [fst]. apply map_id. Qed.

Lemma merge_names_app a b : NoDup b -> merge_names a b = a ++ filter (fun n => negb (str_in n a)) b.
Proof.
  unfold merge_names. revert a. induction b as [|x t IH]; intros a Hnd; cbn [fold_left filter].
  - rewrite app_nil_r. reflexivity.
  - inversion Hnd as [|? ? Hx Hd]; subst. rewrite (IH _ Hd). unfold add_str.
    destruct (str_in x a) eqn:E; cbn [negb].
    + reflexivity.
    + rewrite <- app_assoc. cbn [app]. do 2 f_equal. apply filter_ext_in'. intros y Hy.
      unfold str_in. rewrite existsb_app. cbn [existsb]. fold (str_in y a).
      destruct (pystr_eqb y x) eqn:E2; [|rewrite !orb_false_r; reflexivity].
      apply pystr_eqb_spec in E2; subst. contradiction.
Qed.

Lemma In_merge_names x a b : In x (merge_names a b) <-> In x a \/ In x b.
Proof.
  unfold merge_names. revert a. induction b as [|y t IH]; intro a; cbn [fold_left In]; [tauto|].
  rewrite IH, In_add_str. intuition (subst; auto).
Qed.

Lemma NoDup_add_str n l : NoDup l -> NoDup (add_str n l).
Proof.
  intro H. unfold add_str. destruct (str_in n l) eqn:E; [exact H|].
  apply NoDup_rev in H. rewrite <- (rev_involutive (l ++ [n])). apply NoDup_rev. rewrite rev_app_distr. cbn [rev app].
  constructor; [|exact H]. intro Hin. apply in_rev in Hin. exact (proj1 (str_in_false n l) E Hin).
Qed.

Lemma NoDup_merge_names a b : NoDup a -> NoDup (merge_names a b).
Proof.
  unfold merge_names. revert a. induction b as [|y t IH]; intros a H; [exact H|]. cbn [fold_left]. apply IH.
  apply NoDup_add_str. exact H.
Qed.

Lemma NoDup_fst_filter {A} (p : pystr * A -> bool) l : NoDup (map fst l) -> NoDup (map fst (filter p l)).
Proof.
  induction l as [|[k v] t IH]; intro H; [constructor|].
  cbn [map fst] in H. inversion H as [|? ? Hk Hd]; subst. cbn [filter]. destruct (p (k, v)); [|apply IH; exact Hd].
  cbn [map fst]. constructor; [|apply IH; exact Hd]. intro Hin. apply Hk. apply in_map_iff in Hin as [[k' v'] [E Hin]].
  cbn [fst] in E; subst. apply filter_In in Hin as [Hin _]. apply in_map_iff. exists (k, v'). split; [reflexivity|exact Hin].
Qed.

(* ------------------------------------------------------------------ the operators on these views *)

Lemma deref_list h l : deref h (PList l) = PList l. Proof. reflexivity. Qed.
Lemma deref_tuple h l : deref h (PTuple l) = PTuple l. Proof. reflexivity. Qed.
Lemma deref_set h f l : deref h (PSet f l) = PSet f l. Proof. reflexivity. Qed.
Lemma deref_dict h kv : deref h (PDict kv) = PDict kv. Proof. reflexivity. Qed.
Lemma deref_struct h c a : deref h (PStruct c a) = PStruct c a. Proof. reflexivity. Qed.
Lemma deref_bool h b : deref h (PBool b) = PBool b. Proof. reflexivity. Qed.
Lemma deref_str h s : deref h (PStr s) = PStr s. Proof. reflexivity. Qed.
Lemma deref_none h : deref h PNone = PNone. Proof. reflexivity. Qed.
Lemma deref_view h t l : deref h (mk_view t l) = mk_view t l. Proof. reflexivity. Qed.

Lemma bind_Ok {A B} (a : A) (f : A -> res B) : bind (Ok a) f = f a.
Proof. reflexivity. Qed.

Lemma set_of_list so l : dv_set_of so (PList (v_strs l)) = Ok (PSet false (v_strs (dedup_str l))).
Proof. unfold dv_set_of. cbn [dv_iter bind]. rewrite hashable_strs, py_dedup_strs. reflexivity. Qed.

Definition v_keys (l : list pystr) : pyval := mk_view dict_keys_tag (v_strs l).

Lemma iter_keys so l : dv_iter so (v_keys l) = Ok (v_strs l).
Proof. reflexivity. Qed.

Lemma set_of_keys so l : dv_set_of so (v_keys l) = Ok (PSet false (v_strs (dedup_str l))).
Proof. unfold dv_set_of. rewrite iter_keys. cbn [bind]. rewrite hashable_strs, py_dedup_strs. reflexivity. Qed.

Lemma keys_skeys al : dv_keys (PDict (skeys al)) = Ok (v_keys (map fst al)).
Proof. unfold dv_keys. cbn [dict_kv bind]. unfold v_keys, v_strs, skeys. rewrite !map_map. reflexivity. Qed.

Lemma bitor_strs f a b :
  dv_bitor (PSet f (v_strs a)) (PSet false (v_strs b)) =
  Ok (PSet f (v_strs (a ++ filter (fun n => negb (str_in n a)) b))).
Proof.
  unfold dv_bitor. cbn [as_setlike left_frozen]. do 2 f_equal.
  transitivity (v_strs a ++ v_strs (filter (fun n => negb (str_in n a)) b)); [|unfold v_strs; rewrite map_app; reflexivity].
  f_equal. apply filter_strs. intro n. rewrite py_in_strs. reflexivity.
Qed.

Lemma minus_strs f a c :
  dv_minus (PSet f (v_strs a)) (PSet false (v_strs c)) =
  Ok (PSet f (v_strs (filter (fun n => negb (str_in n c)) a))).
Proof.
  unfold dv_minus. cbn [as_setlike left_frozen]. do 2 f_equal.
  apply filter_strs. intro n. rewrite py_in_strs. reflexivity.
Qed.

Lemma in_list n l : dv_in (PStr n) (PList (v_strs l)) = Ok (str_in n l).
Proof. cbn [dv_in py_in_dyn]. unfold py_in_lit. rewrite py_in_strs. reflexivity. Qed.

Lemma in_set n f l : dv_in (PStr n) (PSet f (v_strs l)) = Ok (str_in n l).
Proof. cbn [dv_in py_in_dyn]. unfold py_in_hashed. cbn [py_hashable']. rewrite py_in_strs. reflexivity. Qed.

Lemma in_keys n l : dv_in (PStr n) (v_keys l) = Ok (str_in n l).
Proof.
  unfold dv_in, v_keys, mk_view. cbn [as_view]. rewrite !pystr_eqb_refl. cbn [andb orb].
  unfold py_in_hashed. cbn [py_hashable']. rewrite py_in_strs. reflexivity.
Qed.

Lemma in_skeys n al : dv_in (PStr n) (PDict (skeys al)) = Ok (alist_has al n).
Proof. cbn [dv_in py_in_dyn py_hashable']. rewrite dict_has_skeys. reflexivity. Qed.

(* comprehensions over a list of str / over the items of a dict with str keys *)
Lemma comp_strs (f : pyval -> res (option pyval)) (p : pystr -> bool) (g : pystr -> pyval) l :
  (forall n, In n l -> f (PStr n) = Ok (if p n then Some (g n) else None)) ->
  dv_comp f (v_strs l) = Ok (map g (filter p l)).
Proof.
  unfold dv_comp, v_strs. induction l as [|x t IH]; intro H; [reflexivity|].
  cbn [map PyOpsFields.filterM filter]. rewrite (H x (or_introl eq_refl)). cbn [bind].
  rewrite IH by (intros n Hn; apply H; right; exact Hn). cbn [bind]. destruct (p x); reflexivity.
Qed.

Definition v_item (p : pystr * pyval) : pyval := PTuple [PStr (fst p); snd p].

Lemma comp_items (f : pyval -> res (option pyval)) (p : pystr * pyval -> bool) (g : pystr * pyval -> pyval) al :
  (forall x, In x al -> f (v_item x) = Ok (if p x then Some (g x) else None)) ->
  dv_comp f (map v_item al) = Ok (map g (filter p al)).
Proof.
  unfold dv_comp. induction al as [|x t IH]; intro H; [reflexivity|].
  cbn [map PyOpsFields.filterM filter]. rewrite (H x (or_introl eq_refl)). cbn [bind].
  rewrite IH by (intros n Hn; apply H; right; exact Hn). cbn [bind]. destruct (p x); reflexivity.
Qed.

Lemma items_skeys al : dv_items (PDict (skeys al)) = Ok (mk_view dict_items_tag (map v_item al)).
Proof. unfold dv_items. cbn [dict_kv bind]. unfold skeys. rewrite map_map. reflexivity. Qed.

Lemma iter_items_view so l : dv_iter so (mk_view dict_items_tag l) = Ok l.
Proof. reflexivity. Qed.

Lemma values_skeys al : dv_values (PDict (skeys al)) = Ok (mk_view dict_values_tag (map snd al)).
Proof. unfold dv_values. cbn [dict_kv bind]. unfold skeys. rewrite map_map. reflexivity. Qed.

Lemma list_of_values so l : dv_list_of so (mk_view dict_values_tag l) = Ok (PList l).
Proof. reflexivity. Qed.

(* dict(pairs) for pairs with distinct str keys *)
Lemma dict_build_skeys al : forall acc,
  NoDup (map fst (acc ++ al)) ->
  PyOpsFields.dict_build (skeys acc) (skeys al) = Ok (skeys (acc ++ al)).
Proof.
  induction al as [|[k v] t IH]; intros acc Hnd.
  - cbn [skeys map PyOpsFields.dict_build]. rewrite app_nil_r. reflexivity.
  - cbn [skeys map fst snd PyOpsFields.dict_build py_hashable']. fold (skeys t). fold (skeys acc).
    rewrite dict_set_skeys. rewrite alist_set_absent.
    + rewrite IH; rewrite <- app_assoc; [reflexivity|exact Hnd].
    + rewrite map_app in Hnd. cbn [map fst] in Hnd. apply NoDup_remove_2 in Hnd.
      intro Hin. apply Hnd. apply in_or_app. left. exact Hin.
Qed.

Lemma dict_of_items so al :
  NoDup (map fst al) -> dv_dict_of so (PList (map v_item al)) = Ok (PDict (skeys al)).
Proof.
  intro Hnd. unfold dv_dict_of. cbn [dv_iter bind].
  assert (E : mapM (fun it => p <- py_unpack 2 false it ;; match p with [k; x] => Ok (k, x) | _ => Raise Unmodelled end)
                   (map v_item al) = Ok (skeys al)).
  { clear Hnd. induction al as [|[k v] t IH]; [reflexivity|].
    cbn [map mapM v_item fst snd]. unfold py_unpack at 1. cbn [py_iter_items bind length Nat.eqb].
    rewrite IH. reflexivity. }
  rewrite E. cbn [bind]. unfold PyOpsFields.py_dict_of. change (@nil (pyval * pyval)) with (skeys []).
  rewrite dict_build_skeys by exact Hnd. reflexivity.
Qed.

Lemma dict_merge_skeys a b :
  dv_dict_merge (PDict (skeys a)) (PDict (skeys b)) = Ok (PDict (skeys (alist_merge a b))).
Proof.
  unfold dv_dict_merge, PyOpsFields.py_dict_merge, alist_merge. do 2 f_equal.
  revert a. induction b as [|[k v] t IH]; intro a; [reflexivity|].
  cbn [skeys map fold_left fst snd]. fold (skeys t). rewrite dict_set_skeys. apply IH.
Qed.

Lemma add_lists a b : dv_add (PList a) (PList b) = Ok (PList (a ++ b)).
Proof. reflexivity. Qed.

(* ------------------------------------------------------------------ inspect.Parameter / inspect.Signature *)

Definition K_POK : pyval := param_kind (s2p "POSITIONAL_OR_KEYWORD") 1.
Definition K_VKW : pyval := param_kind (s2p "VAR_KEYWORD") 4.
Definition n_kwargs : pystr := s2p "kwargs".

(* Parameter(n, POSITIONAL_OR_KEYWORD)  /  Parameter(n, POSITIONAL_OR_KEYWORD, default=None) *)
Definition v_param (n : pystr) (req : bool) : pyval :=
  PStruct param_tag [(n_name, PStr n); (n_kind, K_POK); (n_default, if req then param_empty else PNone)].
(* Parameter("kwargs", VAR_KEYWORD) *)
Definition v_kwargs_param : pyval :=
  PStruct param_tag [(n_name, PStr n_kwargs); (n_kind, K_VKW); (n_default, param_empty)].

Lemma attr_POK : inspect_attr param_tag (s2p "POSITIONAL_OR_KEYWORD") = Ok K_POK.
Proof. reflexivity. Qed.
Lemma attr_VKW : inspect_attr param_tag (s2p "VAR_KEYWORD") = Ok K_VKW.
Proof. reflexivity. Qed.
Lemma kind_index_POK : kind_index K_POK = Some 1%Z. Proof. reflexivity. Qed.
Lemma kind_index_VKW : kind_index K_VKW = Some 4%Z. Proof. reflexivity. Qed.

Lemma alnum_ascii c : ch_alnum c = true -> N.ltb c 128 = true.
Proof.
  unfold ch_alnum, ch_alpha. intro H. apply N.ltb_lt.
  repeat (apply orb_true_iff in H; destruct H as [H|H]);
    try (apply andb_true_iff in H; destruct H as [_ H]; apply N.leb_le in H; lia).
  apply N.eqb_eq in H. lia.
Qed.

Lemma ident_shape s : ascii_identifier s = true ->
  is_ascii s = true /\ match s with c :: _ => N.eqb c 46 = false | [] => False end.
Proof.
  destruct s as [|c t]; [discriminate|]. cbn [ascii_identifier]. intro H.
  apply andb_true_iff in H as [H1 H2]. split.
  - cbn [is_ascii forallb]. rewrite (alnum_ascii c) by (unfold ch_alnum; rewrite H1; reflexivity). cbn [andb].
    induction t as [|x t IH]; [reflexivity|]. cbn [forallb] in *. apply andb_true_iff in H2 as [H2 H3].
    rewrite (alnum_ascii x H2). cbn [andb]. apply IH. exact H3.
  - unfold ch_alpha in H1. destruct (N.eqb_spec c 46) as [->|]; [vm_compute in H1; discriminate|reflexivity].
Qed.

Lemma Parameter_POK n d : valid_param_name n = true ->
  dv_Parameter (PStr n) K_POK d =
  Ok (PStruct param_tag [(n_name, PStr n); (n_kind, K_POK); (n_default, match d with Some x => x | None => param_empty end)]).
Proof.
  intro H. unfold dv_Parameter. rewrite kind_index_POK.
  replace (match d with Some _ => (1 =? 2)%Z || (1 =? 4)%Z | None => false end) with false by (destruct d; reflexivity).
  pose proof H as Hv. unfold valid_param_name in H. apply andb_true_iff in H as [H _].
  destruct (ident_shape n H) as [Ha Hc]. destruct n as [|c t]; [contradiction|].
  rewrite Ha, Hc, Hv. reflexivity.
Qed.

Lemma Parameter_req n : valid_param_name n = true -> dv_Parameter (PStr n) K_POK None = Ok (v_param n true).
Proof. apply Parameter_POK. Qed.
Lemma Parameter_opt n : valid_param_name n = true -> dv_Parameter (PStr n) K_POK (Some PNone) = Ok (v_param n false).
Proof. apply Parameter_POK. Qed.
Lemma Parameter_kwargs : dv_Parameter (PStr (s2p "kwargs")) K_VKW None = Ok v_kwargs_param.
Proof. reflexivity. Qed.

Lemma param_fields_v n r : param_fields (v_param n r) = Some (n, 1%Z, if r then param_empty else PNone).
Proof. unfold param_fields, v_param. rewrite !pystr_eqb_refl. cbn [andb]. rewrite kind_index_POK. reflexivity. Qed.

Lemma param_fields_kw : param_fields v_kwargs_param = Some (n_kwargs, 4%Z, param_empty).
Proof. reflexivity. Qed.

(* adding parameters one after the other, None on a duplicate name *)
Fixpoint add_all (acc l : list (pystr * pyval)) : option (list (pystr * pyval)) :=
  match l with
  | [] => Some acc
  | (n, v) :: t => if alist_has acc n then None else add_all (acc ++ [(n, v)]) t
  end.

Lemma add_all_app acc l1 l2 :
  add_all acc (l1 ++ l2) = match add_all acc l1 with Some a => add_all a l2 | None => None end.
Proof.
  revert acc. induction l1 as [|[n v] t IH]; intro acc; [reflexivity|].
  cbn [app add_all]. destruct (alist_has acc n); [reflexivity|apply IH].
Qed.

Lemma add_all_spec l : forall acc, NoDup (map fst acc) ->
  add_all acc l = if has_dup_str (map fst acc ++ map fst l) then None else Some (acc ++ l).
Proof.
  induction l as [|[n v] t IH]; intros acc Hnd.
  - cbn [add_all map]. rewrite !app_nil_r. rewrite (NoDup_has_dup_false _ Hnd). reflexivity.
  - cbn [add_all map fst]. destruct (alist_has acc n) eqn:E.
    + assert (Hd : has_dup_str (map fst acc ++ n :: map fst t) = true).
      { destruct (has_dup_str (map fst acc ++ n :: map fst t)) eqn:E2; [reflexivity|].
        apply has_dup_false_NoDup in E2. apply NoDup_remove_2 in E2. exfalso. apply E2.
        apply in_or_app. left. apply alist_has_In. exact E. }
      rewrite Hd. reflexivity.
    + assert (Hn : ~ In n (map fst acc)) by (intro Hin; apply alist_has_In in Hin; congruence).
      rewrite IH.
      * rewrite map_app. cbn [map fst]. rewrite <- !app_assoc. reflexivity.
      * rewrite map_app. cbn [map fst]. apply NoDup_rev in Hnd.
        rewrite <- (rev_involutive (map fst acc ++ [n])). apply NoDup_rev. rewrite rev_app_distr. cbn [rev app].
        constructor; [|exact Hnd]. intro Hin. apply in_rev in Hin. contradiction.
Qed.

Definition uni (r : bool) (l : list pystr) : list (pystr * pyval) := map (fun n => (n, v_param n r)) l.
Definition top_after (top : Z) (l : list pystr) : Z := match l with [] => top | _ => 1%Z end.

Lemma skeys_snoc acc n v : skeys (acc ++ [(n, v)]) = skeys acc ++ [(PStr n, v)].
Proof. rewrite skeys_app. reflexivity. Qed.

Lemma sig_build_req rest : forall nd acc top, (top <= 1)%Z ->
  sig_build (map (fun n => v_param n true) nd ++ rest) top false (skeys acc) =
  match add_all acc (uni true nd) with
  | None => Raise ValueError
  | Some acc' => sig_build rest (top_after top nd) false (skeys acc')
  end.
Proof.
  induction nd as [|n t IH]; intros acc top Htop; [reflexivity|].
  cbn [map app sig_build uni add_all]. rewrite param_fields_v.
  replace (1 <? top)%Z with false by (symmetry; apply Z.ltb_ge; lia).
  cbn [Z.eqb orb andb is_param_empty]. replace (is_param_empty param_empty) with true by reflexivity.
  cbn [andb negb]. rewrite dict_has_skeys. destruct (alist_has acc n); [reflexivity|].
  rewrite <- skeys_snoc. replace (Z.max top 1) with 1%Z by lia.
  fold (uni true t). rewrite IH by lia. destruct t; reflexivity.
Qed.

Lemma sig_build_opt rest : forall d acc top sd, (top <= 1)%Z ->
  sig_build (map (fun n => v_param n false) d ++ rest) top sd (skeys acc) =
  match add_all acc (uni false d) with
  | None => Raise ValueError
  | Some acc' => sig_build rest (top_after top d) (match d with [] => sd | _ => true end) (skeys acc')
  end.
Proof.
  induction d as [|n t IH]; intros acc top sd Htop; [reflexivity|].
  cbn [map app sig_build uni add_all]. rewrite param_fields_v.
  replace (1 <? top)%Z with false by (symmetry; apply Z.ltb_ge; lia).
  cbn [Z.eqb orb andb is_param_empty negb]. rewrite dict_has_skeys. destruct (alist_has acc n); [reflexivity|].
  rewrite <- skeys_snoc. replace (Z.max top 1) with 1%Z by lia.
  fold (uni false t). rewrite IH by lia. destruct t; reflexivity.
Qed.

Definition kw_entry (kw : bool) : list (pystr * pyval) := if kw then [(n_kwargs, v_kwargs_param)] else [].

Lemma sig_build_kw kw acc top sd : (top <= 1)%Z ->
  sig_build (map snd (kw_entry kw)) top sd (skeys acc) =
  match add_all acc (kw_entry kw) with None => Raise ValueError | Some acc' => Ok (skeys acc') end.
Proof.
  intro Htop. destruct kw; [|reflexivity].
  cbn [kw_entry map snd sig_build add_all]. rewrite param_fields_kw.
  replace (4 <? top)%Z with false by (symmetry; apply Z.ltb_ge; lia).
  cbn [Z.eqb orb andb]. rewrite dict_has_skeys. destruct (alist_has acc n_kwargs); [reflexivity|].
  rewrite <- skeys_snoc. reflexivity.
Qed.

Lemma NoDup_fst_unique {A} (l : list (pystr * A)) k v v' :
  NoDup (map fst l) -> In (k, v) l -> In (k, v') l -> v = v'.
Proof.
  intros Hnd H1 H2. apply (In_alist_get_NoDup _ _ _ Hnd) in H1. apply (In_alist_get_NoDup _ _ _ Hnd) in H2. congruence.
Qed.

Lemma map_snd_uni r l : map snd (uni r l) = map (fun n => v_param n r) l.
Proof. unfold uni. rewrite map_map. reflexivity. Qed.

(* {**bases, **class} when every surviving entry is the parameter its name determines *)
Lemma merge_uniform r (a : list (pystr * pyval)) c :
  NoDup (map fst a) -> NoDup c -> (forall n v, In (n, v) a -> ~ In n c -> v = v_param n r) ->
  alist_merge a (uni r c) = uni r (merge_names (map fst a) c).
Proof.
  intros Ha Hc Hv.
  assert (Hk : map fst (alist_merge a (uni r c)) = merge_names (map fst a) c).
  { rewrite alist_merge_keys. unfold uni. rewrite map_fst_uniform. reflexivity. }
  rewrite <- Hk. apply alist_rebuild; [apply alist_merge_NoDup; exact Ha|].
  intros n Hn. rewrite alist_merge_get by (unfold uni; rewrite map_fst_uniform; exact Hc).
  unfold uni at 1. rewrite alist_get_uniform. destruct (str_in n c) eqn:E; [reflexivity|].
  rewrite Hk in Hn. apply In_merge_names in Hn as [Hn|Hn]; [|apply str_in_In in Hn; congruence].
  apply in_map_iff in Hn as [[n' v] [E2 Hin]]. cbn [fst] in E2; subst n'.
  rewrite (In_alist_get_NoDup _ _ _ Ha Hin). f_equal. apply (Hv n v Hin). exact (proj1 (str_in_false n c) E).
Qed.

Lemma filter_map_fst {A} (p : pystr -> bool) (l : list (pystr * A)) :
  map fst (filter (fun nm => p (fst nm)) l) = filter p (map fst l).
Proof.
  induction l as [|[n m] t IH]; [reflexivity|]. cbn [filter map fst]. destruct (p n); cbn [map fst]; [f_equal|]; exact IH.
Qed.

Lemma has_dup_perm l l' : Permutation l l' -> has_dup_str l = has_dup_str l'.
Proof.
  intro H. destruct (has_dup_str l') eqn:E'.
  - destruct (has_dup_str l) eqn:E; [reflexivity|]. apply has_dup_false_NoDup in E.
    apply (Permutation_NoDup H) in E. apply NoDup_has_dup_false in E. congruence.
  - apply has_dup_false_NoDup in E'. apply NoDup_has_dup_false. apply (Permutation_NoDup (Permutation_sym H)). exact E'.
Qed.

Lemma has_dup_snoc x l : ~ In x l -> has_dup_str (l ++ [x]) = has_dup_str l.
Proof.
  intro H. rewrite (has_dup_perm (l ++ [x]) (x :: l)) by (apply Permutation_sym, Permutation_cons_append).
  cbn [has_dup_str]. rewrite (proj2 (str_in_false x l) H). reflexivity.
Qed.

Lemma NoDup_app_remove_r {A} (a b : list A) : NoDup (a ++ b) -> NoDup a.
Proof.
  induction a as [|x t IH]; cbn [app]; intro H; [constructor|].
  inversion H as [|? ? Hx Hd]; subst. constructor; [|apply IH; exact Hd].
  intro Hin. apply Hx. apply in_or_app. left. exact Hin.
Qed.

(* Signature(required parameters + optional parameters + [**kwargs]) *)
Definition v_sig (req opt : list pystr) (kw : bool) : pyval :=
  PStruct signature_tag [(n_parameters, PDict (skeys (uni true req ++ uni false opt ++ kw_entry kw)))].

Lemma Signature_params so req opt kw :
  dv_Signature so (PList (map (fun n => v_param n true) req ++ map (fun n => v_param n false) opt ++ map snd (kw_entry kw))) =
  if has_dup_str (req ++ opt ++ map fst (kw_entry kw)) then Raise ValueError else Ok (v_sig req opt kw).
Proof.
  unfold dv_Signature. cbn [dv_iter bind]. change (@nil (pyval * pyval)) with (skeys []).
  rewrite sig_build_req by lia.
  rewrite (add_all_spec (uni true req) []) by constructor. cbn [map app]. unfold uni at 1. rewrite map_fst_uniform.
  destruct (has_dup_str req) eqn:E1.
  - assert (Hd : has_dup_str (req ++ opt ++ map fst (kw_entry kw)) = true).
    { destruct (has_dup_str (req ++ opt ++ map fst (kw_entry kw))) eqn:E2; [reflexivity|].
      apply has_dup_false_NoDup in E2. apply NoDup_app_remove_r in E2. apply NoDup_has_dup_false in E2. congruence. }
    rewrite Hd. reflexivity.
  - rewrite sig_build_opt by (destruct req; cbn [top_after]; lia).
    assert (Hr : NoDup (map fst (uni true req))) by (unfold uni; rewrite map_fst_uniform; apply has_dup_false_NoDup; exact E1).
    rewrite (add_all_spec (uni false opt) _ Hr). unfold uni at 1 2. rewrite !map_fst_uniform.
    destruct (has_dup_str (req ++ opt)) eqn:E2.
    + assert (Hd : has_dup_str (req ++ opt ++ map fst (kw_entry kw)) = true).
      { destruct (has_dup_str (req ++ opt ++ map fst (kw_entry kw))) eqn:E3; [reflexivity|].
        apply has_dup_false_NoDup in E3. rewrite app_assoc in E3. apply NoDup_app_remove_r in E3.
        apply NoDup_has_dup_false in E3. congruence. }
      rewrite Hd. reflexivity.
    + rewrite sig_build_kw by (destruct req, opt; cbn [top_after]; lia).
      assert (Hro : NoDup (map fst (uni true req ++ uni false opt))).
      { rewrite map_app. unfold uni. rewrite !map_fst_uniform. apply has_dup_false_NoDup. exact E2. }
      rewrite (add_all_spec (kw_entry kw) _ Hro). rewrite map_app. unfold uni at 1 2. rewrite !map_fst_uniform.
      rewrite <- app_assoc. destruct (has_dup_str (req ++ opt ++ map fst (kw_entry kw))); [reflexivity|].
      cbn [bind]. unfold v_sig. rewrite <- app_assoc. reflexivity.
Qed.

(* ================================================================== make_signature *)

(* How the model-level arguments of [Define.make_signature names required bp consts] are seen in Python:
     names                   v_names names              clsobj._fields, a list of str
     required                v_names required           a list of str (only tested with `in`)
     additional_properties   PBool addl
     bases_params_by_name    v_params bp                name -> Parameter(name, POSITIONAL_OR_KEYWORD[, default=None]),
                                                        without default iff the flag of the name in bp is true
     bases_required          v_names (bases_required bp)
     constants               v_keys consts              clsobj._constants.keys()
   The result is read as: the parameters without default, in order, then those with default None, then **kwargs
   iff additional_properties ([v_sig req opt kw]).  The order of the parameters the class itself requires comes
   from the iteration of a set: the generated function and the model agree up to a permutation of the
   parameters without default; the optional ones and **kwargs agree exactly; ValueError (duplicate parameter)
   is raised by both or by none. *)
Definition v_params (bp : list (pystr * bool)) : pyval :=
  PDict (skeys (map (fun p => (fst p, v_param (fst p) (snd p))) bp)).

Definition sig_agrees (addl : bool) (gen : res pyval) (hand : res sigt) : Prop :=
  match hand with
  | Ok s => exists req, Permutation req (sg_req s) /\ gen = Ok (v_sig req (sg_opt s) addl)
  | Raise x => gen = Raise x
  end.

Definition sig_inputs_ok (names : list pystr) (bp : list (pystr * bool)) : bool :=
  negb (has_dup_str names) && negb (has_dup_str (map fst bp)) &&
  forallb valid_param_name (names ++ map fst bp) && negb (str_in n_kwargs (names ++ map fst bp)).

Theorem make_signature_src so X h names required addl bp consts :
  so_ok so -> sig_inputs_ok names bp = true ->
  sig_agrees addl
    (DefineSrc.make_signature so X h (v_names names) (v_names required) (PBool addl) (v_params bp)
                              (v_names (bases_required bp)) (v_keys consts))
    (Define.make_signature names required bp consts).
Proof.
  intros Hso Hok. unfold sig_inputs_ok in Hok.
  apply andb_true_iff in Hok as [Hok Hkw]. apply andb_true_iff in Hok as [Hok Hval].
  apply andb_true_iff in Hok as [HN HB]. apply negb_true_iff in HN, HB, Hkw.
  pose proof (has_dup_false_NoDup _ HN) as HNd. pose proof (has_dup_false_NoDup _ HB) as HBd.
  unfold DefineSrc.make_signature, v_names, v_params.
  rewrite !deref_list, !deref_dict, !deref_bool.
  rewrite set_of_list. cbn [bind]. rewrite keys_skeys. cbn [bind].
  rewrite (dedup_str_NoDup_id names HNd).
  replace (map fst (map (fun p : pystr * bool => (fst p, v_param (fst p) (snd p))) bp)) with (map fst bp)
    by (rewrite map_map; reflexivity).
  set (B := map fst bp) in *.
  unfold v_keys at 1. rewrite deref_view. fold (v_keys B). rewrite set_of_keys. cbn [bind].
  rewrite (dedup_str_NoDup_id B HBd). rewrite !deref_set. rewrite bitor_strs. cbn [bind].
  unfold v_keys at 1. rewrite deref_view. fold (v_keys consts). rewrite set_of_keys. cbn [bind].
  rewrite !deref_set. rewrite minus_strs. cbn [bind]. rewrite deref_set. cbn [dv_iter bind].
  set (A0 := names ++ filter (fun n => negb (str_in n names)) B).
  set (A1 := filter (fun n => negb (str_in n (dedup_str consts))) A0).
  destruct (so_strs so A1 Hso) as [A1' [Eso Hperm]]. rewrite Eso.
  assert (HA0 : NoDup A0).
  { unfold A0. rewrite <- (merge_names_app names B HBd). apply NoDup_merge_names. exact HNd. }
  assert (HA1 : NoDup A1) by (apply NoDup_filter; exact HA0).
  assert (HA1' : NoDup A1') by (eapply Permutation_NoDup; [apply Permutation_sym; exact Hperm|exact HA1]).
  assert (HinA0 : forall n, In n A0 <-> In n names \/ In n B).
  { intro n. unfold A0. rewrite in_app_iff, filter_In. split; [tauto|].
    intros [H|H]; [tauto|]. destruct (str_in n names) eqn:E; [left; apply str_in_In; exact E|right; split; [exact H|reflexivity]]. }
  assert (HvalA : forall n, In n A1' -> valid_param_name n = true).
  { intros n Hn. apply (Permutation_in _ Hperm) in Hn. unfold A1 in Hn. apply filter_In in Hn as [Hn _].
    apply HinA0 in Hn. rewrite forallb_forall in Hval. apply Hval. apply in_or_app. exact Hn. }
  (* the four comprehensions, in whatever order the source has them (a candidate that does not fit makes the
     script fail, and the next one is tried) *)
  set (ndc := filter (fun n => str_in n required) A1').
  set (al := map (fun p : pystr * bool => (fst p, v_param (fst p) (snd p))) bp).
  set (breq := bases_required bp).
  assert (Hal : map fst al = B) by (unfold al, B; rewrite map_map; reflexivity).
  set (pnd := fun x : pystr * pyval => (str_in (fst x) required || str_in (fst x) breq) && negb (str_in (fst x) consts)).
  set (dc := filter (fun n => negb (str_in n required) && negb (str_in n consts)) names).
  set (pd := fun x : pystr * pyval => negb (str_in (fst x) required) && negb (str_in (fst x) breq) && negb (str_in (fst x) consts)).
  match goal with |- context [dv_comp ?F] =>
    assert (HcA : dv_comp F (v_strs A1') = Ok (map v_item (uni true ndc)))
      by (unfold uni; rewrite map_map;
          apply (comp_strs _ (fun n => str_in n required) (fun n => v_item (n, v_param n true)));
          intros n Hn; fold (v_strs required); rewrite in_list; cbn [bind]; destruct (str_in n required); [|reflexivity];
          rewrite attr_POK; cbn [bind]; rewrite Parameter_req by (apply HvalA; exact Hn); reflexivity)
  end.
  match goal with |- context [dv_comp ?F] =>
    assert (HcB : dv_comp F (map v_item al) = Ok (map v_item (filter pnd al)))
      by (apply (comp_items _ pnd v_item); intros [k v] _; unfold v_item at 1; cbn [fst snd]; unfold py_unpack;
          cbn [py_iter_items bind length Nat.eqb]; fold (v_strs required); fold (v_strs breq); rewrite !in_list;
          unfold v_keys at 1; rewrite deref_view; fold (v_keys consts); rewrite in_keys; unfold pnd;
          cbn [fst snd py_and py_or py_not bind];
          destruct (str_in k required); cbn [orb bind]; [|destruct (str_in k breq); cbn [bind]];
          try (destruct (str_in k consts); reflexivity))
  end.
  match goal with |- context [dv_comp ?F] =>
    assert (HcC : dv_comp F (v_strs names) = Ok (map v_item (uni false dc)))
      by (unfold uni; rewrite map_map;
          apply (comp_strs _ (fun n => negb (str_in n required) && negb (str_in n consts)) (fun n => v_item (n, v_param n false)));
          intros n Hn; fold (v_strs required); rewrite in_list; unfold v_keys at 1; rewrite deref_view; fold (v_keys consts);
          rewrite in_keys; cbn [py_and py_not bind]; destruct (str_in n required); cbn [negb andb bind]; [reflexivity|];
          destruct (str_in n consts); cbn [negb bind]; [reflexivity|];
          rewrite attr_POK; cbn [bind]; rewrite Parameter_opt; [reflexivity|];
          rewrite forallb_forall in Hval; apply Hval; apply in_or_app; left; exact Hn)
  end.
  match goal with |- context [dv_comp ?F] =>
    assert (HcD : dv_comp F (map v_item al) = Ok (map v_item (filter pd al)))
      by (apply (comp_items _ pd v_item); intros [k v] Hin; unfold al in Hin; apply in_map_iff in Hin as [[k' fl] [E _]];
          cbn [fst snd] in E; inversion E; subst k v;
          unfold v_item at 1; cbn [fst snd]; unfold py_unpack; cbn [py_iter_items bind length Nat.eqb];
          fold (v_strs required); fold (v_strs breq); rewrite !in_list; unfold v_keys at 1; rewrite deref_view; fold (v_keys consts);
          rewrite in_keys; unfold pd; cbn [fst snd py_and py_or py_not bind];
          destruct (str_in k' required); cbn [negb andb bind]; [reflexivity|];
          destruct (str_in k' breq); cbn [negb andb bind]; [reflexivity|];
          destruct (str_in k' consts); cbn [negb andb bind]; [reflexivity|];
          destruct addl; cbn [py_truthy bind]; reflexivity)
  end.
  assert (DA : dv_dict_of so (PList (map v_item (uni true ndc))) = Ok (PDict (skeys (uni true ndc))))
    by (apply dict_of_items; unfold uni; rewrite map_fst_uniform; apply NoDup_filter; exact HA1').
  assert (DB : dv_dict_of so (PList (map v_item (filter pnd al))) = Ok (PDict (skeys (filter pnd al))))
    by (apply dict_of_items; apply NoDup_fst_filter; rewrite Hal; exact HBd).
  assert (DC : dv_dict_of so (PList (map v_item (uni false dc))) = Ok (PDict (skeys (uni false dc))))
    by (apply dict_of_items; unfold uni; rewrite map_fst_uniform; apply NoDup_filter; exact HNd).
  assert (DD : dv_dict_of so (PList (map v_item (filter pd al))) = Ok (PDict (skeys (filter pd al))))
    by (apply dict_of_items; apply NoDup_fst_filter; rewrite Hal; exact HBd).
  fold al.
  repeat first [ progress cbn [bind dv_iter] | rewrite deref_list | rewrite deref_dict | rewrite deref_view
               | rewrite iter_items_view | rewrite items_skeys | rewrite values_skeys | rewrite list_of_values
               | rewrite dict_merge_skeys | rewrite HcA | rewrite HcB | rewrite HcC | rewrite HcD
               | rewrite DA | rewrite DB | rewrite DC | rewrite DD | progress fold (v_strs names) ].
  (* every entry of the bases' dict is the parameter its name and flag determine *)
  assert (Hal_in : forall n v, In (n, v) al -> exists fl, In (n, fl) bp /\ v = v_param n fl).
  { intros n v Hin. unfold al in Hin. apply in_map_iff in Hin as [[k fl] [E Hin]]. cbn [fst snd] in E. inversion E; subst.
    exists fl. split; [exact Hin|reflexivity]. }
  assert (Hbreq : forall n fl, In (n, fl) bp -> str_in n breq = fl).
  { intros n fl Hin. destruct fl.
    - apply str_in_In. unfold breq, bases_required. apply in_map_iff. exists (n, true). split; [reflexivity|].
      apply filter_In. split; [exact Hin|reflexivity].
    - apply str_in_false. intro Hb. unfold breq, bases_required in Hb. apply in_map_iff in Hb as [[n' fl'] [E Hb]].
      cbn [fst] in E; subst n'. apply filter_In in Hb as [Hb Hfl]. cbn [snd] in Hfl; subst fl'.
      pose proof (NoDup_fst_unique bp n true false HBd Hb Hin). discriminate. }
  rewrite (merge_uniform true (filter pnd al) ndc).
  2:{ apply NoDup_fst_filter. rewrite Hal. exact HBd. }
  2:{ apply NoDup_filter. exact HA1'. }
  2:{ intros n v Hin Hnc. apply filter_In in Hin as [Hin Hp]. destruct (Hal_in n v Hin) as [fl [Hbp ->]]. f_equal.
      rewrite <- (Hbreq n fl Hbp). unfold pnd in Hp. cbn [fst] in Hp. apply andb_true_iff in Hp as [Hp1 Hp2].
      apply negb_true_iff in Hp2.
      destruct (str_in n required) eqn:ER; [|cbn [orb] in Hp1; exact Hp1].
      exfalso. apply Hnc. unfold ndc. apply filter_In. split; [|exact ER].
      apply (Permutation_in _ (Permutation_sym Hperm)). unfold A1. apply filter_In. split.
      - apply HinA0. right. unfold B. apply in_map_iff. exists (n, fl). split; [reflexivity|exact Hbp].
      - rewrite str_in_dedup, Hp2. reflexivity. }
  rewrite (merge_uniform false (filter pd al) dc).
  2:{ apply NoDup_fst_filter. rewrite Hal. exact HBd. }
  2:{ apply NoDup_filter. exact HNd. }
  2:{ intros n v Hin _. apply filter_In in Hin as [Hin Hp]. destruct (Hal_in n v Hin) as [fl [Hbp ->]]. f_equal.
      rewrite <- (Hbreq n fl Hbp). unfold pd in Hp. cbn [fst] in Hp. apply andb_true_iff in Hp as [Hp _].
      apply andb_true_iff in Hp as [_ Hp]. apply negb_true_iff in Hp. exact Hp. }
  rewrite !map_snd_uni.
  assert (Ekw : (if py_truthy (PBool addl)
                 then t53 <- inspect_attr param_tag (s2p "VAR_KEYWORD");;
                      t54 <- dv_Parameter (PStr (s2p "kwargs")) t53 None;; Ok (PList [t54])
                 else Ok (PList [])) = Ok (PList (map snd (kw_entry addl)))) by (destruct addl; reflexivity).
  rewrite Ekw. cbn [bind]. rewrite add_lists. cbn [bind]. rewrite !deref_list, add_lists. cbn [bind]. rewrite deref_list.
  rewrite <- app_assoc, Signature_params.
  set (qnd := fun n => (str_in n required || str_in n breq) && negb (str_in n consts)).
  set (qd := fun n => negb (str_in n required) && negb (str_in n breq) && negb (str_in n consts)).
  assert (Endb : map fst (filter pnd al) = filter qnd B) by (rewrite <- Hal; apply (filter_map_fst qnd)).
  assert (Edb : map fst (filter pd al) = filter qd B) by (rewrite <- Hal; apply (filter_map_fst qd)).
  rewrite Endb, Edb.
  unfold Define.make_signature. cbv zeta. fold B. fold breq. fold qnd. fold qd. fold dc.
  rewrite (merge_names_app names B HBd). fold A0.
  set (ndc_h := filter (fun n => negb (str_in n consts) && str_in n required) A0).
  assert (Hpc : Permutation ndc ndc_h).
  { unfold ndc, ndc_h. replace (filter (fun n => negb (str_in n consts) && str_in n required) A0)
      with (filter (fun n => str_in n required) A1).
    - apply Permutation_filter. exact Hperm.
    - unfold A1. rewrite filter_filter. apply filter_ext. intro n. rewrite str_in_dedup. reflexivity. }
  assert (Hndc_h : NoDup ndc_h) by (apply NoDup_filter; exact HA0).
  assert (Hndc : NoDup ndc) by (apply NoDup_filter; exact HA1').
  assert (Hpn : Permutation (merge_names (filter qnd B) ndc) (merge_names (filter qnd B) ndc_h)).
  { rewrite !merge_names_app by assumption. apply Permutation_app_head. apply Permutation_filter. exact Hpc. }
  set (nd' := merge_names (filter qnd B) ndc) in *. set (nd := merge_names (filter qnd B) ndc_h) in *.
  set (d := merge_names (filter qd B) dc).
  assert (Hsub : forall n, In n (nd' ++ d) -> In n (names ++ B)).
  { intros n Hn. apply in_or_app. apply in_app_or in Hn as [Hn|Hn]; apply In_merge_names in Hn as [Hn|Hn].
    - right. apply filter_In in Hn as [Hn _]. exact Hn.
    - apply filter_In in Hn as [Hn _]. apply (Permutation_in _ Hperm) in Hn. apply filter_In in Hn as [Hn _].
      apply HinA0. exact Hn.
    - right. apply filter_In in Hn as [Hn _]. exact Hn.
    - left. apply filter_In in Hn as [Hn _]. exact Hn. }
  assert (Hdup : has_dup_str (nd' ++ d ++ map fst (kw_entry addl)) = has_dup_str (nd ++ d)).
  { transitivity (has_dup_str (nd' ++ d)).
    - destruct addl; cbn [kw_entry map fst]; [|rewrite app_nil_r; reflexivity].
      rewrite app_assoc. apply has_dup_snoc. intro Hin. apply Hsub in Hin. apply str_in_In in Hin. congruence.
    - apply has_dup_perm. apply Permutation_app_tail. exact Hpn. }
  rewrite Hdup. destruct (has_dup_str (nd ++ d)); cbn [bind sig_agrees]; [reflexivity|].
  exists nd'. split; [exact Hpn|reflexivity].
Qed.

(* ================================================================== the class environment as a heap *)

(* Class c of the environment is the object "c" (the four classes of typedpy have their own names: "Structure",
   "FinalStructure", ...):
     isinstance(c, StructMeta)   k_is_struct
     isinstance(c, FieldMeta)    False (no attribute)
     c.__mro__ / c.mro()         the classes of k_mro (object and UniqueMixin, which no test looks for, left out)
     c.__signature__             Signature(required parameters, optional parameters = None[, **kwargs])
     c.__dict__                  "_additional_properties" when the class body set it, and whatever else [extra c]
                                 lists (never the two spellings of that key)
     c._fields                   the names of the class's own Field / Constant objects
     getattr(c, n)               for an own member n: the object "member:c.n" 
   TypedPyDefaults is the object "TypedPyDefaults" with the settings of [guards]. *)
Definition n_TypedPyDefaults : pystr := s2p "TypedPyDefaults".
Definition n_addl : pystr := s2p "_additional_properties".
Definition n_addl_old : pystr := s2p "_additionalProperties".

Definition v_refs (l : list pystr) : list pyval := map ref l.

Definition class_dict (k : klass) (extra : list (pystr * pyval)) : list (pystr * pyval) :=
  match k_additional k with Some b => [(n_addl, PBool b)] | None => [] end ++ extra.

Definition extra_ok (extra : list (pystr * pyval)) : bool :=
  negb (alist_has extra n_addl) && negb (alist_has extra n_addl_old).

(* the Field / Constant object that class c itself defines under the name n *)
Definition member_obj (c n : pystr) : pystr := s2p "member:" ++ c ++ s2p "." ++ n.

(* the names the heap uses for what is not an attribute ("isinstance:C", "m()") are never member names *)
Definition pseudo_attr (a : pystr) : bool := existsb (fun c => N.eqb c 58 || N.eqb c 40) a.

Definition special_class_attrs : list pystr :=
  [isinstance_attr (s2p "StructMeta"); n_mro; s2p "mro()"; s2p "__signature__"; s2p "__dict__"; s2p "_fields"].

Definition class_attr (k : klass) (extra : list (pystr * pyval)) (a : pystr) : option pyval :=
  if pystr_eqb a (isinstance_attr (s2p "StructMeta")) then Some (PBool (k_is_struct k))
  else if pystr_eqb a n_mro then Some (PTuple (v_refs (k_mro k)))
  else if pystr_eqb a (s2p "mro()") then Some (PList (v_refs (k_mro k)))
  else if pystr_eqb a (s2p "__signature__") then Some (v_sig (k_sig_req k) (k_sig_opt k) (k_sig_kwargs k))
  else if pystr_eqb a (s2p "__dict__") then Some (PDict (skeys (class_dict k extra)))
  else if pystr_eqb a (s2p "_fields") then Some (v_names (map fst (k_own k)))
  else if negb (pseudo_attr a) && alist_has (k_own k) a then Some (ref (member_obj (k_name k) a))
  else None.

Definition defaults_attr (gd : guards) (a : pystr) : option pyval :=
  if pystr_eqb a (s2p "additional_properties_default") then Some (PBool (gd_additional_default gd))
  else if pystr_eqb a (s2p "block_unknown_consts") then Some (PBool (gd_block_unknown_consts gd))
  else None.

Definition genv_heap (gd : guards) (g : genv) (extra : pystr -> list (pystr * pyval)) : heap :=
  fun o a =>
    match find_klass g o with
    | Some k => class_attr k (extra o) a
    | None => if pystr_eqb o n_TypedPyDefaults then defaults_attr gd a else None
    end.

(* What the translated functions ask a heap about the classes of an environment: any heap that answers like this
   will do (the heap [genv_heap] does: [genv_env_view]; so does the heap StructMeta.__new__ works in) *)
Record env_view (hp : heap) (gd : guards) (g : genv) (extra : pystr -> list (pystr * pyval)) : Prop := {
  ev_struct : forall c, obj_isinstance hp (ref c) (s2p "StructMeta") =
                        Ok (match find_klass g c with Some k => k_is_struct k | None => false end);
  ev_fieldmeta : forall c, obj_isinstance hp (ref c) (s2p "FieldMeta") = Ok false;
  ev_subclass : forall c k r, find_klass g c = Some k -> obj_issubclass hp (ref c) (ref r) = Ok (str_in r (k_mro k));
  ev_signature : forall b kb, find_klass g b = Some kb ->
      dv_getattr hp (ref b) (s2p "__signature__") = Ok (v_sig (k_sig_req kb) (k_sig_opt kb) (k_sig_kwargs kb));
  ev_class_dict : forall b kb, find_klass g b = Some kb ->
      dv_getattr hp (ref b) (s2p "__dict__") = Ok (PDict (skeys (class_dict kb (extra b))));
  ev_mro : forall b kb, find_klass g b = Some kb -> dv_getattr hp (ref b) (s2p "mro()") = Ok (PList (v_refs (k_mro kb)));
  ev_addl_default : find_klass g n_TypedPyDefaults = None ->
      dv_getattr hp (ref (s2p "TypedPyDefaults")) (s2p "additional_properties_default") = Ok (PBool (gd_additional_default gd));
  ev_fields : forall x kx, find_klass g x = Some kx ->
      dv_getattr_def hp (ref x) (s2p "_fields") (PList []) = Ok (v_names (map fst (k_own kx)));
  ev_member : forall x kx n, find_klass g x = Some kx -> In n (map fst (k_own kx)) ->
      pseudo_attr n = false -> str_in n special_class_attrs = false ->
      dv_getattr_dyn hp (ref x) (PStr n) = Ok (ref (member_obj x n)) }.

Section EnvHeap.
  Variable gd : guards.
  Variable g : genv.
  Variable extra : pystr -> list (pystr * pyval).
  Notation hp := (genv_heap gd g extra).

  Lemma heap_isinstance_struct c :
    obj_isinstance hp (ref c) (s2p "StructMeta") = Ok (match find_klass g c with Some k => k_is_struct k | None => false end).
  Proof.
    unfold obj_isinstance, ref. rewrite pystr_eqb_refl. unfold genv_heap.
    destruct (find_klass g c) as [k|].
    - unfold class_attr. rewrite pystr_eqb_refl. destruct (k_is_struct k); reflexivity.
    - destruct (pystr_eqb c n_TypedPyDefaults); reflexivity.
  Qed.

  Lemma heap_isinstance_fieldmeta c : obj_isinstance hp (ref c) (s2p "FieldMeta") = Ok false.
  Proof.
    unfold obj_isinstance, ref. rewrite pystr_eqb_refl. unfold genv_heap.
    destruct (find_klass g c) as [k|]; [reflexivity|]. destruct (pystr_eqb c n_TypedPyDefaults); reflexivity.
  Qed.

  Lemma existsb_refs r l :
    existsb (fun x => match is_ref x with Some xn => pystr_eqb xn r | None => false end) (v_refs l) = str_in r l.
  Proof.
    unfold str_in, v_refs. induction l as [|x t IH]; [reflexivity|]. cbn [map existsb].
    replace (is_ref (ref x)) with (Some x) by (unfold is_ref, ref; rewrite pystr_eqb_refl; reflexivity).
    rewrite (pystr_eqb_sym x r), IH. reflexivity.
  Qed.

  Lemma is_ref_ref n : is_ref (ref n) = Some n.
  Proof. unfold is_ref, ref. rewrite pystr_eqb_refl. reflexivity. Qed.

  Lemma heap_issubclass c k r : find_klass g c = Some k ->
    obj_issubclass hp (ref c) (ref r) = Ok (str_in r (k_mro k)).
  Proof.
    intro Hk. unfold obj_issubclass. rewrite !is_ref_ref. unfold genv_heap. rewrite Hk.
    replace (class_attr k (extra c) n_mro) with (Some (PTuple (v_refs (k_mro k)))) by reflexivity.
    rewrite existsb_refs. reflexivity.
  Qed.

  Lemma ne_refs a b : py_ne (ref a) (ref b) = Ok (negb (pystr_eqb a b)).
  Proof. unfold py_ne, ref. cbn [py_eq]. rewrite pystr_eqb_refl. reflexivity. Qed.
End EnvHeap.

Lemma foldM_check (f : unit -> pyval -> res unit) (bad : pystr -> bool) x l :
  (forall c, f tt (ref c) = if bad c then Raise x else Ok tt) ->
  dv_foldM f (v_refs l) tt = if existsb bad l then Raise x else Ok tt.
Proof.
  intro H. unfold dv_foldM, v_refs. induction l as [|c t IH]; [reflexivity|].
  cbn [map py_foldM existsb]. rewrite H. destruct (bad c); cbn [bind orb]; [reflexivity|exact IH].
Qed.

(* ================================================================== _check_for_final_violations *)

Lemma globals_Final : dv_in_globals module_globals (PStr (s2p "FinalStructure")) = Ok true.
Proof. reflexivity. Qed.
Lemma globals_Immutable : dv_in_globals module_globals (PStr (s2p "ImmutableStructure")) = Ok true.
Proof. reflexivity. Qed.
Lemma globals_FieldMeta : dv_in_globals module_globals (PStr (s2p "FieldMeta")) = Ok true.
Proof. reflexivity. Qed.
Lemma globals_Structure : dv_in_globals module_globals (PStr (s2p "Structure")) = Ok true.
Proof. reflexivity. Qed.

(* _check_for_final_violations(clsobj.mro()) for a class whose MRO is name :: mro_tail: TypeError exactly when the
   model's [final_violation] holds, None otherwise -- for every environment and every MRO *)
Theorem check_final_gen so X hp gd g extra name mro_tail :
  env_view hp gd g extra ->
  DefineSrc.check_for_final_violations so X hp (PList (v_refs (name :: mro_tail))) =
  if final_violation g mro_tail then Raise TypeError else Ok PNone.
Proof.
  intro Hev.
  unfold DefineSrc.check_for_final_violations. cbv zeta.
  unfold py_unpack. cbn [v_refs map py_iter_items bind length Nat.leb firstn skipn app].
  rewrite deref_list. cbn [dv_iter bind]. fold (v_refs mro_tail).
  rewrite (foldM_check _ (fun c => strict_sub g c n_Final || strict_sub g c n_Immutable) TypeError).
  - unfold final_violation. destruct (existsb _ mro_tail); reflexivity.
  - intro c. cbn [bind]. rewrite globals_Final, globals_Immutable, globals_FieldMeta.
    rewrite (ev_struct _ _ _ _ Hev), (ev_fieldmeta _ _ _ _ Hev). unfold strict_sub.
    cbn [py_and bind]. destruct (find_klass g c) as [k|] eqn:Hk.
    2:{ rewrite !andb_false_r. reflexivity. }
    destruct (k_is_struct k); cbn [andb].
    2:{ rewrite !andb_false_r. reflexivity. }
    rewrite !(ev_subclass _ _ _ _ Hev c k _ Hk), !ne_refs. cbn [bind py_and].
    change (s2p "FinalStructure") with n_Final. change (s2p "ImmutableStructure") with n_Immutable.
    destruct (str_in n_Final (k_mro k)); cbn [bind deref py_truthy andb];
      destruct (pystr_eqb c n_Final); cbn [negb andb orb bind deref py_truthy];
      destruct (str_in n_Immutable (k_mro k)); cbn [bind deref py_truthy andb];
      destruct (pystr_eqb c n_Immutable); reflexivity.
Qed.

(* ================================================================== get_base_info *)

Definition params_al (bp : list (pystr * bool)) : list (pystr * pyval) :=
  map (fun p => (fst p, v_param (fst p) (snd p))) bp.

Lemma v_params_al bp : v_params bp = PDict (skeys (params_al bp)).
Proof. reflexivity. Qed.

(* the signature of a class, as the items of __signature__.parameters *)
Definition sig_items (k : klass) : list (pystr * pyval) :=
  uni true (k_sig_req k) ++ uni false (k_sig_opt k) ++ kw_entry (k_sig_kwargs k).

Lemma sig_items_params k : uni true (k_sig_req k) ++ uni false (k_sig_opt k) = params_al (sig_params k).
Proof. unfold sig_params, params_al, uni. rewrite map_app, !map_map. reflexivity. Qed.

(* the dict of the loop: the entries of acc in order, and a "kwargs" entry somewhere iff kw *)
Definition strip (D : list (pystr * pyval)) : list (pystr * pyval) :=
  filter (fun p => negb (pystr_eqb (fst p) n_kwargs)) D.

Record rep (acc : list (pystr * bool)) (kw : bool) (D : list (pystr * pyval)) : Prop := {
  rep_strip : strip D = params_al acc;
  rep_kw : alist_has D n_kwargs = kw;
  rep_val : forall v, In (n_kwargs, v) D -> v = v_kwargs_param;
  rep_nodup : NoDup (map fst D) }.

Lemma alist_has_strip D n : pystr_eqb n n_kwargs = false -> alist_has (strip D) n = alist_has D n.
Proof.
  intro Hn. unfold alist_has, strip. induction D as [|[k v] t IH]; [reflexivity|].
  cbn [filter fst alist_get]. destruct (pystr_eqb k n_kwargs) eqn:E; cbn [negb alist_get].
  - destruct (pystr_eqb k n) eqn:E2; [|exact IH].
    apply pystr_eqb_spec in E, E2. subst. rewrite pystr_eqb_refl in Hn. discriminate.
  - destruct (pystr_eqb k n); [reflexivity|exact IH].
Qed.

Lemma alist_has_params_al acc n : alist_has (params_al acc) n = alist_has acc n.
Proof.
  unfold alist_has, params_al. induction acc as [|[k fl] t IH]; [reflexivity|].
  cbn [map fst snd alist_get]. destruct (pystr_eqb k n); [reflexivity|exact IH].
Qed.

Lemma strip_app a b : strip (a ++ b) = strip a ++ strip b.
Proof. apply filter_app. Qed.

Lemma NoDup_snoc {A} (l : list A) x : NoDup l -> ~ In x l -> NoDup (l ++ [x]).
Proof.
  intros H Hx. apply NoDup_rev in H. rewrite <- (rev_involutive (l ++ [x])). apply NoDup_rev.
  rewrite rev_app_distr. cbn [rev app]. constructor; [|exact H]. intro Hin. apply in_rev in Hin. contradiction.
Qed.

Lemma getattr_param_default h n fl :
  dv_getattr h (v_param n fl) (s2p "default") = Ok (if fl then param_empty else PNone).
Proof. reflexivity. Qed.
Lemma getattr_param_kind h n fl : dv_getattr h (v_param n fl) (s2p "kind") = Ok K_POK.
Proof. reflexivity. Qed.
Lemma getattr_kwparam_default h : dv_getattr h v_kwargs_param (s2p "default") = Ok param_empty.
Proof. reflexivity. Qed.
Lemma getattr_kwparam_kind h : dv_getattr h v_kwargs_param (s2p "kind") = Ok K_VKW.
Proof. reflexivity. Qed.

Lemma setitem_skeys D n v : py_setitem (PDict (skeys D)) (PStr n) v = Ok (PDict (skeys (alist_set D n v))).
Proof. cbn [py_setitem py_hashable']. rewrite dict_set_skeys. reflexivity. Qed.

Lemma append_names R n : py_list_append (v_names R) (PStr n) = Ok (v_names (R ++ [n])).
Proof. unfold v_names. cbn [py_list_append]. rewrite map_app. reflexivity. Qed.

Lemma bases_required_snoc acc n fl :
  bases_required (acc ++ [(n, fl)]) = if fl then bases_required acc ++ [n] else bases_required acc.
Proof.
  unfold bases_required. rewrite filter_app, map_app. cbn [filter snd]. destruct fl; cbn [map fst]; [reflexivity|].
  rewrite app_nil_r. reflexivity.
Qed.

(* the inner loop of get_base_info (over the parameters of one base's signature), for ANY loop body that does
   what [Hparam] / [Hkwargs] say on one item; the theorem below shows that the generated body does *)
Section InnerStep.
  Variable inner_body : pyval * pyval -> pyval -> res (pyval * pyval).
  Hypothesis inner_param : forall D R n fl,
    inner_body (PDict (skeys D), v_names R) (v_item (n, v_param n fl)) =
    if alist_has D n then Ok (PDict (skeys D), v_names R)
    else Ok (PDict (skeys (D ++ [(n, v_param n fl)])), v_names (if fl then R ++ [n] else R)).
  Hypothesis inner_kwargs : forall D R,
    inner_body (PDict (skeys D), v_names R) (v_item (n_kwargs, v_kwargs_param)) =
    if alist_has D n_kwargs then Ok (PDict (skeys D), v_names R)
    else Ok (PDict (skeys (D ++ [(n_kwargs, v_kwargs_param)])), v_names R).

  (* the parameters of one base, then its **kwargs *)
  Lemma inner_params ps : forall acc kw D,
    rep acc kw D -> ~ In n_kwargs (map fst ps) ->
    exists D', rep (merge_params acc ps) kw D' /\
      dv_foldM inner_body (map v_item (params_al ps)) (PDict (skeys D), v_names (bases_required acc)) =
      Ok (PDict (skeys D'), v_names (bases_required (merge_params acc ps))).
  Proof.
    induction ps as [|[n fl] t IH]; intros acc kw D Hrep Hnk.
    - exists D. split; [exact Hrep|reflexivity].
    - cbn [map fst] in Hnk. assert (Hn : pystr_eqb n n_kwargs = false).
      { apply pystr_eqb_neq. intro; subst. apply Hnk. left. reflexivity. }
      assert (Hnk' : ~ In n_kwargs (map fst t)) by (intro; apply Hnk; right; assumption).
      cbn [params_al map fst snd dv_foldM py_foldM]. fold (params_al t). rewrite inner_param.
      unfold merge_params. cbn [fold_left fst]. fold (merge_params (if alist_has acc n then acc else acc ++ [(n, fl)]) t).
      rewrite <- (alist_has_strip D n Hn), (rep_strip _ _ _ Hrep), alist_has_params_al.
      destruct (alist_has acc n) eqn:E; cbn [bind].
      + apply (IH acc kw D Hrep Hnk').
      + assert (HnD : ~ In n (map fst D)).
        { intro Hin. apply alist_has_In in Hin. rewrite <- (alist_has_strip D n Hn), (rep_strip _ _ _ Hrep), alist_has_params_al in Hin. congruence. }
        assert (Hrep' : rep (acc ++ [(n, fl)]) kw (D ++ [(n, v_param n fl)])).
        { constructor.
          - rewrite strip_app, (rep_strip _ _ _ Hrep). unfold strip. cbn [filter fst]. rewrite Hn. cbn [negb].
            unfold params_al. rewrite map_app. reflexivity.
          - rewrite alist_has_str_in, map_app, <- (rep_kw _ _ _ Hrep), alist_has_str_in. unfold str_in. rewrite existsb_app.
            cbn [map fst existsb]. rewrite (pystr_eqb_sym n_kwargs n), Hn. rewrite !orb_false_r. reflexivity.
          - intros v Hin. apply in_app_or in Hin as [Hin|[Hin|[]]]; [apply (rep_val _ _ _ Hrep); exact Hin|].
            inversion Hin; subst. rewrite pystr_eqb_refl in Hn. discriminate.
          - rewrite map_app. apply NoDup_snoc; [apply (rep_nodup _ _ _ Hrep)|exact HnD]. }
        destruct (IH _ kw _ Hrep' Hnk') as [D' [Hr' Hf]]. exists D'. split; [exact Hr'|].
        rewrite <- Hf. rewrite bases_required_snoc. reflexivity.
  Qed.

  Lemma inner_kw kwb acc kw D :
    rep acc kw D ->
    exists D', rep acc (kw || kwb) D' /\
      dv_foldM inner_body (map v_item (kw_entry kwb)) (PDict (skeys D), v_names (bases_required acc)) =
      Ok (PDict (skeys D'), v_names (bases_required acc)).
  Proof.
    intro Hrep. destruct kwb.
    2:{ exists D. rewrite orb_false_r. split; [exact Hrep|reflexivity]. }
    cbn [kw_entry map dv_foldM py_foldM]. rewrite inner_kwargs. rewrite (rep_kw _ _ _ Hrep).
    destruct kw; cbn [bind orb].
    - exists D. split; [exact Hrep|reflexivity].
    - exists (D ++ [(n_kwargs, v_kwargs_param)]). split; [|reflexivity].
      assert (HnD : ~ In n_kwargs (map fst D)).
      { intro Hin. apply alist_has_In in Hin. rewrite (rep_kw _ _ _ Hrep) in Hin. discriminate. }
      constructor.
      + rewrite strip_app, (rep_strip _ _ _ Hrep). unfold strip. cbn [filter fst]. rewrite pystr_eqb_refl. cbn [negb].
        apply app_nil_r.
      + rewrite alist_has_str_in, map_app. unfold str_in. rewrite existsb_app. cbn [map fst existsb].
        rewrite pystr_eqb_refl, orb_true_r. reflexivity.
      + intros v Hin. apply in_app_or in Hin as [Hin|[Hin|[]]].
        * exfalso. apply HnD. apply in_map_iff. exists (n_kwargs, v). split; [reflexivity|exact Hin].
        * inversion Hin. reflexivity.
      + rewrite map_app. apply NoDup_snoc; [apply (rep_nodup _ _ _ Hrep)|exact HnD].
  Qed.
End InnerStep.

Lemma foldM_app {S} (f : S -> pyval -> res S) a b s :
  dv_foldM f (a ++ b) s = (x <- dv_foldM f a s ;; dv_foldM f b x).
Proof.
  unfold dv_foldM. revert s. induction a as [|x t IH]; intro s; [reflexivity|].
  cbn [app py_foldM]. destruct (f s x); cbn [bind]; [apply IH|reflexivity].
Qed.

(* removing the first entry of a key *)
Fixpoint del1 (D : list (pystr * pyval)) (k : pystr) : list (pystr * pyval) :=
  match D with
  | [] => []
  | (k', v) :: t => if pystr_eqb k' k then t else (k', v) :: del1 t k
  end.

Lemma dict_del_skeys D k : dict_del (skeys D) (PStr k) = skeys (del1 D k).
Proof.
  induction D as [|[k' v] t IH]; [reflexivity|]. cbn [skeys map fst snd dict_del del1]. rewrite py_eq_str.
  destruct (pystr_eqb k' k); [reflexivity|]. cbn [map fst snd]. f_equal. exact IH.
Qed.

Lemma delitem_skeys D k :
  dv_delitem (PDict (skeys D)) (PStr k) = if alist_has D k then Ok (PDict (skeys (del1 D k))) else Raise KeyError.
Proof.
  unfold dv_delitem, PyOpsVersioned.py_delitem. cbn [py_hashable']. rewrite dict_has_skeys, dict_del_skeys. reflexivity.
Qed.

Lemma subscript_skeys D k :
  py_subscript (PDict (skeys D)) (PStr k) = match alist_get D k with Some v => Ok v | None => Raise KeyError end.
Proof. cbn [py_subscript]. unfold py_dict_getitem. cbn [py_hashable']. rewrite dict_get_skeys. reflexivity. Qed.

Lemma dict_get_skeys_def D k d :
  dv_dict_get (PDict (skeys D)) (PStr k) d = Ok (match alist_get D k with Some v => v | None => d end).
Proof. unfold dv_dict_get, PyOpsVersioned.py_dict_get. cbn [py_hashable']. rewrite dict_get_skeys. reflexivity. Qed.

Lemma In_del1 D k x : In x (del1 D k) -> In x D.
Proof.
  induction D as [|[k' v] t IH]; cbn [del1]; [tauto|]. destruct (pystr_eqb k' k); cbn [In]; [tauto|].
  intros [H|H]; [left; exact H|right; apply IH; exact H].
Qed.

Lemma rep_del acc D : rep acc true D -> rep acc false (del1 D n_kwargs).
Proof.
  intros [Hs Hk Hv Hnd]. constructor.
  - rewrite <- Hs. clear. unfold strip. induction D as [|[k v] t IH]; [reflexivity|]. cbn [del1 filter fst].
    destruct (pystr_eqb k n_kwargs) eqn:E; cbn [negb filter fst]; [reflexivity|].
    rewrite E. cbn [negb]. rewrite IH. reflexivity.
  - clear Hs Hk Hv. unfold alist_has. induction D as [|[k v] t IH]; [reflexivity|].
    cbn [map fst] in Hnd. inversion Hnd as [|? ? Hk Hd]; subst. cbn [del1].
    destruct (pystr_eqb k n_kwargs) eqn:E.
    + apply pystr_eqb_spec in E; subst. destruct (alist_get t n_kwargs) eqn:E2; [|reflexivity].
      exfalso. apply Hk. apply alist_get_In_fst in E2. exact E2.
    + cbn [alist_get]. rewrite E. apply IH. exact Hd.
  - intros v Hin. apply Hv. apply In_del1 in Hin. exact Hin.
  - clear Hs Hk Hv. induction D as [|[k v] t IH]; [constructor|].
    cbn [map fst] in Hnd. inversion Hnd as [|? ? Hk Hd]; subst. cbn [del1].
    destruct (pystr_eqb k n_kwargs); [exact Hd|]. cbn [map fst]. constructor; [|apply IH; exact Hd].
    intro Hin. apply Hk. apply in_map_iff in Hin as [[k' v'] [E Hin]]. cbn [fst] in E; subst.
    apply In_del1 in Hin. apply in_map_iff. exists (k, v'). split; [reflexivity|exact Hin].
Qed.

Lemma rep_nokw acc D : rep acc false D -> D = params_al acc.
Proof.
  intros [Hs Hk _ _]. rewrite <- Hs. unfold strip. symmetry.
  assert (H : forall p, In p D -> pystr_eqb (fst p) n_kwargs = false).
  { intros [k v] Hin. cbn [fst]. destruct (pystr_eqb k n_kwargs) eqn:E; [|reflexivity].
    apply pystr_eqb_spec in E; subst. assert (Hh : alist_has D n_kwargs = true).
    { apply alist_has_In. apply in_map_iff. exists (n_kwargs, v). split; [reflexivity|exact Hin]. }
    congruence. }
  clear Hs Hk. induction D as [|p t IH]; [reflexivity|]. cbn [filter]. rewrite (H p (or_introl eq_refl)). cbn [negb].
  f_equal. apply IH. intros q Hq. apply H. right. exact Hq.
Qed.

Lemma rep_nil : rep [] false [].
Proof. constructor; [reflexivity|reflexivity|intros v []|constructor]. Qed.

(* the side conditions on the bases: every base is a class of the environment; it is a subclass of Structure
   exactly when it is a Structure class (the MRO says what k_is_struct says); no parameter of its signature is
   called "kwargs"; its own dict does not use the additional-properties keys otherwise than the model says *)
Definition base_ok (g : genv) (extra : pystr -> list (pystr * pyval)) (b : pystr) : bool :=
  match find_klass g b with
  | Some kb => Bool.eqb (k_is_struct kb) (str_in n_Structure (k_mro kb)) &&
               negb (str_in n_kwargs (k_sig_req kb ++ k_sig_opt kb)) && extra_ok (extra b)
  | None => false
  end.

Definition bases_ok (g : genv) (extra : pystr -> list (pystr * pyval)) (bases : list pystr) : bool :=
  forallb (base_ok g extra) bases && negb (is_some (find_klass g n_TypedPyDefaults)).

Section BaseInfo.
  Variable gd : guards.
  Variable g : genv.
  Variable extra : pystr -> list (pystr * pyval).
  Variable so : set_order.
  Variable hp : heap.
  Hypothesis Hev : env_view hp gd g extra.
  Hypothesis Hdef : find_klass g n_TypedPyDefaults = None.

  (* base_info without the final test that no **kwargs is left over *)
  Fixpoint base_info_raw (bases : list pystr) (acc : list (pystr * bool)) (kw : bool)
    : res (list (pystr * bool) * bool) :=
    match bases with
    | [] => Ok (acc, kw)
    | b :: t =>
        match find_klass g b with
        | None => Raise Unmodelled
        | Some kb =>
            if negb (k_is_struct kb) || pystr_eqb b n_Structure then base_info_raw t acc kw
            else
              let acc' := merge_params acc (sig_params kb) in
              let kw' := kw || k_sig_kwargs kb in
              let addl := match k_additional kb with Some x => x | None => gd_additional_default gd end in
              if addl then (if kw' then base_info_raw t acc' false else Raise KeyError)
              else base_info_raw t acc' kw'
        end
    end.

  Lemma base_info_raw_spec bases : forall acc kw,
    base_info gd g bases acc kw =
    match base_info_raw bases acc kw with
    | Ok (acc', kw') => if kw' then Raise Unmodelled else Ok acc'
    | Raise x => Raise x
    end.
  Proof.
    induction bases as [|b t IH]; intros acc kw; [reflexivity|].
    cbn [base_info base_info_raw]. destruct (find_klass g b) as [kb|]; [|reflexivity].
    destruct (negb (k_is_struct kb) || pystr_eqb b n_Structure); [apply IH|].
    cbv zeta. destruct (match k_additional kb with Some x => x | None => gd_additional_default gd end).
    - destruct (kw || k_sig_kwargs kb); [apply IH|reflexivity].
    - apply IH.
  Qed.

  (* the classes the loop looks at *)
  Definition keep (b : pystr) : bool :=
    match find_klass g b with
    | Some kb => k_is_struct kb && negb (pystr_eqb b n_Structure)
    | None => false
    end.

  Lemma base_info_raw_filter bases : forallb (base_ok g extra) bases = true ->
    forall acc kw, base_info_raw bases acc kw = base_info_raw (filter keep bases) acc kw.
  Proof.
    induction bases as [|b t IH]; intros Hok acc kw; [reflexivity|].
    cbn [forallb] in Hok. apply andb_true_iff in Hok as [Hb Ht]. unfold base_ok in Hb.
    destruct (find_klass g b) as [kb|] eqn:Hk; [|discriminate].
    cbn [filter]. unfold keep at 1. rewrite Hk. cbn [base_info_raw]. rewrite Hk.
    destruct (k_is_struct kb) eqn:Es; cbn [negb orb andb]; [|apply IH; exact Ht].
    destruct (pystr_eqb b n_Structure) eqn:Eb; cbn [negb]; [apply IH; exact Ht|].
    cbn [base_info_raw]. rewrite Hk, Eb, Es. cbn [negb orb]. cbv zeta.
    destruct (match k_additional kb with Some x => x | None => gd_additional_default gd end).
    - destruct (kw || k_sig_kwargs kb); [apply IH; exact Ht|reflexivity].
    - apply IH; exact Ht.
  Qed.

  (* the comprehension that selects the Structure bases *)
  Lemma select_base b : base_ok g extra b = true ->
    (c <- (py_and (obj_issubclass hp (ref b) (ref (s2p "Structure"))) (fun _ => ((dv_is_not (ref b) (ref (s2p "Structure")))))) ;;
     if c then (Ok (Some (ref b))) else Ok None) = Ok (if keep b then Some (ref b) else None).
  Proof.
    intro Hb. unfold base_ok in Hb. destruct (find_klass g b) as [kb|] eqn:Hk; [|discriminate].
    apply andb_true_iff in Hb as [Hb _]. apply andb_true_iff in Hb as [Hb _]. apply eqb_prop in Hb.
    rewrite (ev_subclass _ _ _ _ Hev b kb _ Hk). change (s2p "Structure") with n_Structure. rewrite <- Hb.
    unfold keep. rewrite Hk. unfold dv_is_not, dv_is. rewrite !is_ref_ref. cbn [py_and bind].
    destruct (k_is_struct kb); cbn [bind andb]; [|reflexivity]. destruct (pystr_eqb b n_Structure); reflexivity.
  Qed.
End BaseInfo.

Lemma comp_refs (F : pyval -> res (option pyval)) (p : pystr -> bool) l :
  (forall b, In b l -> F (ref b) = Ok (if p b then Some (ref b) else None)) ->
  dv_comp F (v_refs l) = Ok (v_refs (filter p l)).
Proof.
  unfold dv_comp, v_refs. induction l as [|x t IH]; intro H; [reflexivity|].
  cbn [map PyOpsFields.filterM filter]. rewrite (H x (or_introl eq_refl)). cbn [bind].
  rewrite IH by (intros b Hb; apply H; right; exact Hb). cbn [bind]. destruct (p x); reflexivity.
Qed.

Section HeapReads.
  Variable gd : guards.
  Variable g : genv.
  Variable extra : pystr -> list (pystr * pyval).
  Notation hp := (genv_heap gd g extra).

  Lemma heap_signature b kb : find_klass g b = Some kb ->
    dv_getattr hp (ref b) (s2p "__signature__") = Ok (v_sig (k_sig_req kb) (k_sig_opt kb) (k_sig_kwargs kb)).
  Proof.
    intro Hk. unfold ref. cbn [dv_getattr obj_getattr]. rewrite pystr_eqb_refl. unfold genv_heap. rewrite Hk. reflexivity.
  Qed.

  Lemma heap_class_dict b kb : find_klass g b = Some kb ->
    dv_getattr hp (ref b) (s2p "__dict__") = Ok (PDict (skeys (class_dict kb (extra b)))).
  Proof.
    intro Hk. unfold ref. cbn [dv_getattr obj_getattr]. rewrite pystr_eqb_refl. unfold genv_heap. rewrite Hk. reflexivity.
  Qed.

  Lemma heap_mro b kb : find_klass g b = Some kb ->
    dv_getattr hp (ref b) (s2p "mro()") = Ok (PList (v_refs (k_mro kb))).
  Proof.
    intro Hk. unfold ref. cbn [dv_getattr obj_getattr]. rewrite pystr_eqb_refl. unfold genv_heap. rewrite Hk. reflexivity.
  Qed.

  Lemma heap_addl_default : find_klass g n_TypedPyDefaults = None ->
    dv_getattr hp (ref (s2p "TypedPyDefaults")) (s2p "additional_properties_default") = Ok (PBool (gd_additional_default gd)).
  Proof.
    intro Hd. unfold ref. cbn [dv_getattr obj_getattr]. rewrite pystr_eqb_refl. unfold genv_heap.
    change (s2p "TypedPyDefaults") with n_TypedPyDefaults. rewrite Hd, pystr_eqb_refl. reflexivity.
  Qed.

  Lemma sig_parameters h req opt kw :
    dv_getattr h (v_sig req opt kw) (s2p "parameters") = Ok (PDict (skeys (uni true req ++ uni false opt ++ kw_entry kw))).
  Proof. reflexivity. Qed.

  Lemma class_dict_old kb ex d : extra_ok ex = true ->
    dv_dict_get (PDict (skeys (class_dict kb ex))) (PStr (s2p "_additionalProperties")) d = Ok d.
  Proof.
    intro He. unfold extra_ok in He. apply andb_true_iff in He as [_ H2]. apply negb_true_iff in H2.
    unfold alist_has in H2. rewrite dict_get_skeys_def. change (s2p "_additionalProperties") with n_addl_old.
    unfold class_dict. destruct (k_additional kb) as [x|]; cbn [app alist_get].
    - change (pystr_eqb n_addl n_addl_old) with false. cbv iota. destruct (alist_get ex n_addl_old); [discriminate|reflexivity].
    - destruct (alist_get ex n_addl_old); [discriminate|reflexivity].
  Qed.

  Lemma class_dict_addl kb ex d : extra_ok ex = true ->
    dv_dict_get (PDict (skeys (class_dict kb ex))) (PStr (s2p "_additional_properties")) d =
    Ok (match k_additional kb with Some x => PBool x | None => d end).
  Proof.
    intro He. unfold extra_ok in He. apply andb_true_iff in He as [H1 _]. apply negb_true_iff in H1.
    unfold alist_has in H1. rewrite dict_get_skeys_def. change (s2p "_additional_properties") with n_addl.
    unfold class_dict. destruct (k_additional kb) as [x|]; cbn [app alist_get].
    - rewrite pystr_eqb_refl. reflexivity.
    - destruct (alist_get ex n_addl); [discriminate|reflexivity].
  Qed.
End HeapReads.

(* get_base_info(bases) on the classes of the environment = the model's [base_info]: the same parameters in the
   same order with the same required ones, or the same exception -- whenever the model does not decline *)
Theorem get_base_info_gen so X hp gd g extra bases r :
  env_view hp gd g extra ->
  bases_ok g extra bases = true ->
  base_info gd g bases [] false = r -> r <> Raise Unmodelled ->
  DefineSrc.get_base_info so X hp (PTuple (v_refs bases)) =
  match r with
  | Ok bp => Ok (PTuple [v_params bp; v_names (bases_required bp)])
  | Raise x => Raise x
  end.
Proof.
  intros Hev Hok Hr Hnu. unfold bases_ok in Hok. apply andb_true_iff in Hok as [Hbs Hdef].
  apply negb_true_iff in Hdef. assert (Hd : find_klass g n_TypedPyDefaults = None) by (destruct (find_klass g n_TypedPyDefaults); [discriminate|reflexivity]).
  clear Hdef.
  unfold DefineSrc.get_base_info. cbv zeta. rewrite globals_Structure. cbn [bind]. rewrite deref_tuple. cbn [dv_iter bind].
  rewrite (comp_refs _ (keep g)).
  2:{ intros b Hb. cbn [bind]. apply (select_base gd g extra hp Hev). rewrite forallb_forall in Hbs. apply Hbs. exact Hb. }
  cbn [bind]. rewrite deref_list. cbn [dv_iter bind].
  match goal with |- context [@dv_foldM ?S ?F] => set (OUT := F) end.
  assert (Hloop : forall bs, (forall b, In b bs -> base_ok g extra b = true /\ keep g b = true) ->
            forall acc kw D, rep acc kw D ->
            match base_info_raw gd g bs acc kw with
            | Ok (acc', kw') =>
                exists D', rep acc' kw' D' /\
                  dv_foldM OUT (v_refs bs) (PDict (skeys D), v_names (bases_required acc)) =
                  Ok (PDict (skeys D'), v_names (bases_required acc'))
            | Raise x => dv_foldM OUT (v_refs bs) (PDict (skeys D), v_names (bases_required acc)) = Raise x
            end).
  { induction bs as [|b t IH]; intros Hbs' acc kw D Hrep.
    - cbn [base_info_raw]. exists D. split; [exact Hrep|reflexivity].
    - destruct (Hbs' b (or_introl eq_refl)) as [Hbok Hkeep].
      assert (Ht : forall b0, In b0 t -> base_ok g extra b0 = true /\ keep g b0 = true) by (intros b0 Hb0; apply Hbs'; right; exact Hb0).
      unfold base_ok in Hbok. unfold keep in Hkeep. cbn [base_info_raw].
      destruct (find_klass g b) as [kb|] eqn:Hk; [|discriminate].
      apply andb_true_iff in Hkeep as [Hks Hns]. rewrite Hks. apply negb_true_iff in Hns. rewrite Hns. cbn [negb orb]. cbv zeta.
      apply andb_true_iff in Hbok as [Hbok Hex]. apply andb_true_iff in Hbok as [_ Hnk]. apply negb_true_iff in Hnk.
      cbn [v_refs map]. fold (v_refs t). unfold dv_foldM at 1 2. cbn [py_foldM]. fold (@dv_foldM (pyval * pyval)).
      unfold OUT at 1 3. cbv beta iota. cbn [bind].
      rewrite (ev_signature _ _ _ _ Hev b kb Hk). cbn [bind]. rewrite sig_parameters. cbn [bind].
      rewrite deref_dict, items_skeys. cbn [bind]. rewrite deref_view, iter_items_view. cbn [bind].
      rewrite app_assoc, sig_items_params, map_app, foldM_app.
      match goal with |- context [@dv_foldM _ ?F2 (map v_item (params_al _))] => set (IN := F2) end.
      assert (Hparam : forall D R n fl,
                 IN (PDict (skeys D), v_names R) (v_item (n, v_param n fl)) =
                 if alist_has D n then Ok (PDict (skeys D), v_names R)
                 else Ok (PDict (skeys (D ++ [(n, v_param n fl)])), v_names (if fl then R ++ [n] else R))).
      { intros D0 R n fl. unfold IN, v_item. cbn [fst snd]. unfold py_unpack. cbn [py_iter_items bind length Nat.eqb].
        rewrite in_skeys. cbn [py_not bind]. destruct (alist_has D0 n) eqn:E; cbn [negb bind]; [reflexivity|].
        rewrite getattr_param_default, getattr_param_kind, attr_VKW. cbn [py_and bind].
        rewrite setitem_skeys, alist_set_absent by (intro Hin; apply alist_has_In in Hin; congruence).
        destruct fl; cbn [py_is_not_none py_is_none negb bind].
        - replace (py_ne K_POK K_VKW) with (@Ok bool true) by reflexivity. cbn [bind]. rewrite append_names. reflexivity.
        - reflexivity. }
      assert (Hkwargs : forall D R,
                 IN (PDict (skeys D), v_names R) (v_item (n_kwargs, v_kwargs_param)) =
                 if alist_has D n_kwargs then Ok (PDict (skeys D), v_names R)
                 else Ok (PDict (skeys (D ++ [(n_kwargs, v_kwargs_param)])), v_names R)).
      { intros D0 R. unfold IN, v_item. cbn [fst snd]. unfold py_unpack. cbn [py_iter_items bind length Nat.eqb].
        rewrite in_skeys. cbn [py_not bind]. destruct (alist_has D0 n_kwargs) eqn:E; cbn [negb bind]; [reflexivity|].
        rewrite getattr_kwparam_default, getattr_kwparam_kind, attr_VKW. cbn [py_and bind py_is_not_none py_is_none negb].
        replace (py_ne K_VKW K_VKW) with (@Ok bool false) by reflexivity. cbn [bind].
        rewrite setitem_skeys, alist_set_absent by (intro Hin; apply alist_has_In in Hin; congruence). reflexivity. }
      assert (Hnk' : ~ In n_kwargs (map fst (sig_params kb))).
      { unfold sig_params. rewrite map_app, !map_map. cbn [fst]. rewrite !map_id. intro Hin. apply str_in_In in Hin. congruence. }
      destruct (inner_params IN Hparam (sig_params kb) acc kw D Hrep Hnk') as [D1 [Hr1 Hf1]]. rewrite Hf1. cbn [bind].
      destruct (inner_kw IN Hkwargs (k_sig_kwargs kb) _ _ _ Hr1) as [D2 [Hr2 Hf2]]. rewrite Hf2. cbn [bind]. cbv beta iota.
      rewrite (ev_class_dict _ _ _ _ Hev b kb Hk), (ev_addl_default _ _ _ _ Hev Hd). cbn [bind]. rewrite !deref_dict.
      rewrite (class_dict_old kb (extra b) _ Hex). cbn [bind].
      rewrite ?deref_dict. rewrite (class_dict_addl kb (extra b) _ Hex). cbn [bind].
      set (acc' := merge_params acc (sig_params kb)) in *. set (kw' := kw || k_sig_kwargs kb) in *.
      replace (deref hp match k_additional kb with Some x => PBool x | None => PBool (gd_additional_default gd) end)
        with (PBool (match k_additional kb with Some x => x | None => gd_additional_default gd end))
        by (destruct (k_additional kb); reflexivity).
      destruct (match k_additional kb with Some x => x | None => gd_additional_default gd end); cbn [py_truthy py_and bind].
      + rewrite subscript_skeys. change (s2p "kwargs") with n_kwargs. pose proof (rep_kw _ _ _ Hr2) as Hkw2. unfold alist_has in Hkw2.
        destruct (alist_get D2 n_kwargs) as [v|] eqn:Eg.
        * subst kw'. rewrite <- Hkw2. pose proof (rep_val _ _ _ Hr2 v (alist_get_In _ _ _ Eg)) as Ev. subst v.
          cbn [bind]. rewrite getattr_kwparam_kind, attr_VKW. cbn [bind].
          replace (py_eqv K_VKW K_VKW) with (@Ok bool true) by reflexivity. cbn [bind].
          rewrite delitem_skeys. unfold alist_has. rewrite Eg. cbn [bind].
          assert (Hr3 : rep acc' false (del1 D2 n_kwargs)).
          { apply rep_del. rewrite <- Hkw2 in Hr2. exact Hr2. }
          specialize (IH Ht acc' false _ Hr3). exact IH.
        * subst kw'. rewrite <- Hkw2. reflexivity.
      + specialize (IH Ht acc' kw' _ Hr2). exact IH. }
  rewrite base_info_raw_spec, (base_info_raw_filter gd g extra bases Hbs) in Hr.
  assert (Hflt : forall b, In b (filter (keep g) bases) -> base_ok g extra b = true /\ keep g b = true).
  { intros b Hb. apply filter_In in Hb as [Hb Hkp]. split; [|exact Hkp]. rewrite forallb_forall in Hbs. apply Hbs. exact Hb. }
  specialize (Hloop _ Hflt [] false [] rep_nil).
  change (PDict []) with (PDict (skeys [])). change (PList []) with (v_names (bases_required [])).
  destruct (base_info_raw gd g (filter (keep g) bases) [] false) as [[acc' kw']|x].
  - destruct Hloop as [D' [Hrep Hf]]. rewrite Hf. cbn [bind]. destruct kw'; [subst r; exfalso; apply Hnu; reflexivity|].
    subst r. rewrite (rep_nokw _ _ Hrep). reflexivity.
  - rewrite Hloop. subst r. reflexivity.
Qed.

(* ================================================================== _block_invalid_consts *)

Fixpoint strs_of (l : list pyval) : option (list pystr) :=
  match l with
  | [] => Some []
  | PStr s :: t => match strs_of t with Some r => Some (s :: r) | None => None end
  | _ => None
  end.

Lemma str_in_ext n a b : (forall x, In x a <-> In x b) -> str_in n a = str_in n b.
Proof.
  intro H. destruct (str_in n b) eqn:E.
  - apply str_in_In. apply H. apply str_in_In. exact E.
  - apply str_in_false. intro Hin. apply H in Hin. exact (proj1 (str_in_false n b) E Hin).
Qed.

Lemma str_in_app n a b : str_in n (a ++ b) = str_in n a || str_in n b.
Proof. unfold str_in. apply existsb_app. Qed.

Lemma str_in_union n a b : str_in n (a ++ filter (fun x => negb (str_in x a)) b) = str_in n a || str_in n b.
Proof.
  rewrite str_in_app. destruct (str_in n a) eqn:Ea; cbn [orb]; [reflexivity|].
  destruct (str_in n b) eqn:Eb.
  - apply str_in_In. apply filter_In. split; [apply str_in_In; exact Eb|rewrite Ea; reflexivity].
  - apply str_in_false. intro Hin. apply filter_In in Hin as [Hin _]. exact (proj1 (str_in_false n b) Eb Hin).
Qed.

Lemma bitor_keys_strs a b :
  dv_bitor (v_keys a) (PSet false (v_strs b)) = Ok (PSet false (v_strs (a ++ filter (fun n => negb (str_in n a)) b))).
Proof.
  unfold dv_bitor. replace (as_setlike (v_keys a)) with (Some (v_strs a)) by reflexivity.
  cbn [as_setlike]. replace (left_frozen (v_keys a)) with false by reflexivity. do 2 f_equal.
  transitivity (v_strs a ++ v_strs (filter (fun n => negb (str_in n a)) b)); [|unfold v_strs; rewrite map_app; reflexivity].
  f_equal. apply filter_strs. intro n. rewrite py_in_strs. reflexivity.
Qed.

Lemma is_dunder_eq n : Define.is_dunder n = str_is_dunder n.
Proof.
  unfold Define.is_dunder, str_is_dunder. f_equal.
  destruct (Nat.ltb_spec 4 (length n)); [apply Z.ltb_lt|apply Z.ltb_ge]; lia.
Qed.

Lemma starts_with_eq p s : Define.starts_with p s = PyOpsFields.str_prefix p s.
Proof. reflexivity. Qed.

Lemma foldM_check_items (f : unit -> pyval -> res unit) (bad : pystr * pyval -> bool) x l :
  (forall p, f tt (v_item p) = if bad p then Raise x else Ok tt) ->
  dv_foldM f (map v_item l) tt = if existsb bad l then Raise x else Ok tt.
Proof.
  intro H. unfold dv_foldM. induction l as [|p t IH]; [reflexivity|].
  cbn [map py_foldM existsb]. rewrite H. destruct (bad p); cbn [bind orb]; [reflexivity|exact IH].
Qed.

(* what _block_invalid_consts objects to: an entry of the class dict whose name is neither annotated, nor a
   known attribute, nor a dunder, nor a custom attribute, and whose value is a bool, a list or a dict *)
Definition bad_entry (h : heap) (annotated : list pystr) (nv : pystr * pyval) : bool :=
  negb (str_in (fst nv) annotated || known_attr (fst nv) || Define.is_dunder (fst nv) ||
        starts_with (s2p "_custom_attribute_") (fst nv)) &&
  py_isinstance (deref h (snd nv)) [K_bool; K_list; K_dict].

(* cls_dict.get("__annotations__", {}): absent, a dict held by value, or a dict of the heap *)
Definition annotations_are (h : heap) (ents : list (pystr * pyval)) (ann : list (pystr * pyval)) : Prop :=
  match alist_get ents (s2p "__annotations__") with
  | None => ann = []
  | Some v => deref h v = PDict (skeys ann)
  end.

Ltac name_set_display :=
  match goal with
  | |- context [py_set_display ?l] =>
      let r := eval vm_compute in (match py_set_display l with Ok (PSet false x) => strs_of x | _ => None end) in
      match r with
      | Some ?S => replace (py_set_display l) with (Ok (PSet false (v_strs S))) by (vm_compute; reflexivity)
      end
  end.

Theorem block_invalid_consts_gen so X h ents ann :
  annotations_are h ents ann ->
  DefineSrc.block_invalid_consts so X h (PDict (skeys ents)) =
  if existsb (bad_entry h (map fst ann)) ents then Raise ValueError else Ok PNone.
Proof.
  intro Hann. unfold DefineSrc.block_invalid_consts. cbv zeta. rewrite !deref_dict.
  rewrite dict_get_skeys_def. cbn [bind].
  assert (Ek : dv_keys (deref h match alist_get ents (s2p "__annotations__") with Some v => v | None => PDict [] end)
               = Ok (v_keys (map fst ann))).
  { unfold annotations_are in Hann. destruct (alist_get ents (s2p "__annotations__")) as [v|].
    - rewrite Hann. apply keys_skeys.
    - subst ann. reflexivity. }
  rewrite Ek. cbn [bind].
  name_set_display. cbn [bind].
  unfold v_keys at 1. rewrite deref_view. fold (v_keys (map fst ann)). rewrite deref_set, bitor_keys_strs. cbn [bind].
  name_set_display. cbn [bind]. rewrite !deref_set, bitor_strs. cbn [bind].
  rewrite items_skeys. cbn [bind]. rewrite deref_view, iter_items_view. cbn [bind].
  rewrite (foldM_check_items _ (bad_entry h (map fst ann)) ValueError).
  - destruct (existsb _ ents); reflexivity.
  - intros [n v]. unfold v_item. cbn [fst snd]. unfold py_unpack. cbn [py_iter_items bind length Nat.eqb].
    rewrite deref_set, in_set. rewrite !str_in_union, <- !orb_assoc.
    match goal with |- context [str_in n ?A || str_in n ?B] =>
      replace (str_in n A || str_in n B) with (known_attr n)
    end.
    2:{ unfold known_attr. rewrite <- str_in_app. apply str_in_ext. intro x. vm_compute. tauto. }
    unfold bad_entry. cbn [fst snd py_or py_is_dunder bind]. rewrite is_dunder_eq, starts_with_eq.
    destruct (str_in n (map fst ann)); cbn [orb negb andb bind]; [reflexivity|].
    destruct (known_attr n); cbn [orb negb andb bind]; [reflexivity|].
    destruct (str_is_dunder n); cbn [orb negb andb bind]; [reflexivity|].
    unfold dv_startswith. destruct (PyOpsFields.str_prefix (s2p "_custom_attribute_") n); cbn [orb negb andb bind]; [reflexivity|].
    unfold py_isinstance. cbn [existsb].
    destruct (isinstance1 (deref h v) K_bool); cbn [orb bind]; [reflexivity|].
    destruct (isinstance1 (deref h v) K_list); cbn [orb bind]; [reflexivity|].
    destruct (isinstance1 (deref h v) K_dict); reflexivity.
Qed.

(* a value of the kind the model's class statement gives to a non-field attribute *)
Definition uval_matches (h : heap) (u : uval) (v : pyval) : bool :=
  match u, deref h v with
  | UBool, PBool _ | UList, PList _ | UDict, PDict _ | UInt, PNum (NInt _) | UStr, PStr _ => true
  | UType, POther _ _ => true
  | _, _ => false
  end.

(* the check of [define]: for a class dict whose entries are the non-field attributes of the statement (each with
   a value of its kind, none of them annotated) and otherwise only entries the function does not object to *)
Theorem block_invalid_consts_src so X h s ents ann :
  annotations_are h ents ann ->
  (forall n u, In (n, u) (s_attrs s) ->
     str_in n (map fst ann) = false /\ exists v, In (n, v) ents /\ uval_matches h u v = true) ->
  (forall n v, In (n, v) ents -> bad_entry h (map fst ann) (n, v) = true ->
     exists u, In (n, u) (s_attrs s) /\ uval_matches h u v = true) ->
  DefineSrc.block_invalid_consts so X h (PDict (skeys ents)) =
  if existsb invalid_const (s_attrs s) then Raise ValueError else Ok PNone.
Proof.
  intros Hann Hattrs Hinert. rewrite (block_invalid_consts_gen so X h ents ann Hann).
  replace (existsb (bad_entry h (map fst ann)) ents) with (existsb invalid_const (s_attrs s)); [reflexivity|].
  assert (Hkind : forall u v, uval_matches h u v = true ->
            py_isinstance (deref h v) [K_bool; K_list; K_dict] = match u with UBool | UList | UDict => true | _ => false end).
  { intros u v Hm. unfold uval_matches in Hm. destruct u, (deref h v) as [| | [ | | ] | | | | | | | | | ]; try discriminate; reflexivity. }
  destruct (existsb invalid_const (s_attrs s)) eqn:E.
  - symmetry. apply existsb_exists in E as [[n u] [Hin Hbad]]. destruct (Hattrs n u Hin) as [Hna [v [Hv Hm]]].
    apply existsb_exists. exists (n, v). split; [exact Hv|]. unfold bad_entry. cbn [fst snd]. rewrite Hna, (Hkind u v Hm).
    unfold invalid_const in Hbad. cbn [orb]. exact Hbad.
  - symmetry. destruct (existsb (bad_entry h (map fst ann)) ents) eqn:E2; [|reflexivity].
    apply existsb_exists in E2 as [[n v] [Hin Hbad]]. destruct (Hinert n v Hin Hbad) as [u [Hu Hm]].
    assert (Hi : invalid_const (n, u) = true).
    { unfold bad_entry in Hbad. cbn [fst snd] in Hbad. rewrite (Hkind u v Hm) in Hbad. unfold invalid_const.
      apply andb_true_iff in Hbad as [H1 H2]. rewrite H2, andb_true_r. apply negb_true_iff in H1. apply negb_true_iff.
      destruct (str_in n (map fst ann)); [discriminate|]. exact H1. }
    assert (Hex : existsb invalid_const (s_attrs s) = true) by (apply existsb_exists; exists (n, u); split; assumption).
    congruence.
Qed.

(* ================================================================== _apply_default_and_update_required_... *)

Lemma pyval_eqb_refl v : pyval_eqb v v = true.
Proof.
  induction v using pyval_ind'; cbn [pyval_eqb]; try reflexivity.
  - destruct b; reflexivity.
  - destruct n; cbn [num_struct_eqb]; rewrite ?Z.eqb_refl; reflexivity.
  - apply pystr_eqb_refl.
  - induction H as [|x t Hx _ IH]; [reflexivity|]. rewrite Hx. exact IH.
  - induction H as [|x t Hx _ IH]; [reflexivity|]. rewrite Hx. exact IH.
  - induction H as [|x t Hx _ IH]; [reflexivity|]. rewrite Hx. exact IH.
  - rewrite Bool.eqb_reflx, Nat.eqb_refl. cbn [andb].
    assert (Hall : forall m, (forall x, In x l -> In x m) ->
              (fix all_in (l0 : list pyval) : bool :=
                 match l0 with [] => true | x :: l' => existsb (fun y => pyval_eqb x y) m && all_in l' end) l = true).
    { intros m. induction H as [|x t Hx _ IH]; intro Hsub; [reflexivity|].
      rewrite IH by (intros y Hy; apply Hsub; right; exact Hy). rewrite andb_true_r.
      apply existsb_exists. exists x. split; [apply Hsub; left; reflexivity|exact Hx]. }
    apply Hall. auto.
  - induction H as [|[k x] t [Hk Hx] _ IH]; [reflexivity|]. cbn [fst snd] in *. rewrite Hk, Hx. exact IH.
  - rewrite pystr_eqb_refl, pystr_eqb_refl. cbn [andb]. exact IHv.
  - rewrite pystr_eqb_refl, Nat.eqb_refl. cbn [andb].
    assert (Hall : forall m, (forall p, In p attrs -> In p m) ->
              (fix all_at (l : list (pystr * pyval)) : bool :=
                 match l with
                 | [] => true
                 | (k, x) :: l' => existsb (fun p => pystr_eqb k (fst p) && pyval_eqb x (snd p)) m && all_at l'
                 end) attrs = true).
    { intros m. induction H as [|[k x] t Hx _ IH]; intro Hsub; [reflexivity|]. cbn [snd] in Hx.
      rewrite IH by (intros y Hy; apply Hsub; right; exact Hy). rewrite andb_true_r.
      apply existsb_exists. exists (k, x). split; [apply Hsub; left; reflexivity|]. cbn [fst snd].
      rewrite pystr_eqb_refl, Hx. reflexivity. }
    apply Hall. auto.
  - rewrite !pystr_eqb_refl. reflexivity.
Qed.

Lemma unchanged_refl v : dv_unchanged v v = Ok tt.
Proof. unfold dv_unchanged. rewrite pyval_eqb_refl. reflexivity. Qed.

(* Field / Constant objects of the class body: member n is the object "field:n"; a Field has the attribute
   _default (None, the literal, or the parameterless function), a Constant has none *)
Definition fld_prefix : pystr := s2p "field:".
Definition fobj (n : pystr) : pystr := fld_prefix ++ n.
Definition fld_ref (n : pystr) : pyval := ref (fobj n).

Fixpoint strip_prefix (p s : pystr) : option pystr :=
  match p, s with
  | [], _ => Some s
  | x :: p', y :: s' => if N.eqb x y then strip_prefix p' s' else None
  | _ :: _, [] => None
  end.

Lemma strip_prefix_app p n : strip_prefix p (p ++ n) = Some n.
Proof. induction p as [|x p IH]; [reflexivity|]. cbn [app strip_prefix]. rewrite N.eqb_refl. exact IH. Qed.

Lemma strip_prefix_inv p s n : strip_prefix p s = Some n -> s = p ++ n.
Proof.
  revert s. induction p as [|x p IH]; intros s H; [inversion H; reflexivity|].
  destruct s as [|y s]; [discriminate|]. cbn [strip_prefix] in H. destruct (N.eqb_spec x y); [|discriminate].
  subst. cbn [app]. f_equal. apply IH. exact H.
Qed.

Definition default_val (d : defval) : pyval := match d with DLit v => v | DFactory v => mk_function v end.
Definition default_attr (d : option defval) : pyval := match d with None => PNone | Some d => default_val d end.
Definition n__default : pystr := s2p "_default".

Definition member_attr (m : member) (a : pystr) : option pyval :=
  match m with
  | MField fo => if pystr_eqb a n__default then Some (default_attr (fo_default fo)) else None
  | MConst _ => None
  end.

Definition members_heap (base : heap) (ms : members) : heap :=
  fun o a =>
    match strip_prefix fld_prefix o with
    | Some n =>
        match alist_get ms n with
        | Some m => match member_attr m a with Some v => Some v | None => base o a end
        | None => base o a
        end
    | None => base o a
    end.

Definition heap_eq (h1 h2 : heap) : Prop := forall o a, h1 o a = h2 o a.

Lemma members_heap_set base ms n fo fo' :
  alist_get ms n = Some (MField fo) ->
  heap_eq (heap_set (members_heap base ms) (fobj n) n__default (default_attr (fo_default fo')))
          (members_heap base (alist_set ms n (MField fo'))).
Proof.
  intros Hg o a. unfold heap_set, members_heap.
  destruct (pystr_eqb o (fobj n)) eqn:Eo.
  - apply pystr_eqb_spec in Eo; subst o. unfold fobj. rewrite strip_prefix_app, alist_get_set_same.
    cbn [member_attr]. destruct (pystr_eqb a n__default) eqn:Ea; cbn [andb]; [reflexivity|].
    rewrite Hg. cbn [member_attr]. rewrite Ea. reflexivity.
  - cbn [andb]. destruct (strip_prefix fld_prefix o) as [n'|] eqn:Es; [|reflexivity].
    assert (n' <> n).
    { intro; subst. apply strip_prefix_inv in Es. subst o. unfold fobj in Eo. rewrite pystr_eqb_refl in Eo. discriminate. }
    rewrite alist_get_set_other by assumption. reflexivity.
Qed.

(* `_default = None` means "no default": [field_init] never leaves Some (DLit None) in a Field object *)
Definition defaults_normal (ms : members) : bool :=
  forallb (fun nm => match snd nm with
                     | MField f => match fo_default f with Some (DLit PNone) => false | _ => true end
                     | MConst _ => true
                     end) ms.

(* a literal `= value` default is plain data (None, bool, number, str, list, tuple, set, dict) *)
Definition eqd_plain (d : defval) : bool := match d with DLit v => negb (is_object v) | DFactory _ => true end.

Lemma set_remove_strs l n : str_in n l = true ->
  dv_set_remove (PSet false (v_strs l)) (PStr n) = Ok (PSet false (v_strs (remove_str n l))).
Proof.
  intro H. cbn [dv_set_remove py_hashable']. rewrite py_in_strs, H. do 2 f_equal. unfold remove_str.
  apply filter_strs. intro y. rewrite py_eq_str, pystr_eqb_sym. reflexivity.
Qed.

Lemma set_add_strs l n : dv_set_add (PSet false (v_strs l)) (PStr n) = Ok (PSet false (v_strs (add_str n l))).
Proof.
  cbn [dv_set_add py_hashable']. rewrite py_in_strs. unfold add_str. destruct (str_in n l); [reflexivity|].
  unfold v_strs. rewrite map_app. reflexivity.
Qed.

Lemma remove_str_absent n l : str_in n l = false -> remove_str n l = l.
Proof.
  intro H. unfold remove_str. induction l as [|x t IH]; [reflexivity|]. cbn [str_in existsb] in H.
  apply orb_false_iff in H as [H1 H2]. cbn [filter]. rewrite (pystr_eqb_sym x n), H1. cbn [negb]. f_equal. apply IH. exact H2.
Qed.

Lemma alist_has_defs (defs : list (pystr * defval)) n :
  alist_has (map (fun nd => (fst nd, default_val (snd nd))) defs) n = alist_has defs n.
Proof.
  unfold alist_has. induction defs as [|[k d] t IH]; [reflexivity|]. cbn [map fst snd alist_get].
  destruct (pystr_eqb k n); [reflexivity|exact IH].
Qed.

Lemma alist_get_defs (defs : list (pystr * defval)) n :
  alist_get (map (fun nd => (fst nd, default_val (snd nd))) defs) n = option_map default_val (alist_get defs n).
Proof.
  induction defs as [|[k d] t IH]; [reflexivity|]. cbn [map fst snd alist_get].
  destruct (pystr_eqb k n); [reflexivity|exact IH].
Qed.

Lemma alist_set_same_val {A} (l : list (pystr * A)) n v : alist_get l n = Some v -> alist_set l n v = l.
Proof.
  induction l as [|[k x] t IH]; cbn [alist_get alist_set]; [discriminate|].
  destruct (pystr_eqb k n) eqn:E.
  - intro H. inversion H; subst. apply pystr_eqb_spec in E. subst. reflexivity.
  - intro H. f_equal. apply IH. exact H.
Qed.

Ltac use_tail H :=
  let HT := fresh "HT" in
  pose proof H as HT;
  match type of HT with
  | _ = ?R =>
      match goal with
      | |- context [bind ?T (fun s' => py_foldM _ _ s')] => replace T with R by (symmetry; exact HT)
      end
  end; clear HT.

Section ApplyDefault.
  Variable re_match : N -> pystr -> bool.
  Variable e : env.
  Variable so : set_order.
  Variable X : ext_oracle.
  Variable mobj : pystr -> pystr.               (* the object that is member n of the class body *)
  Variable VM : members -> heap.                (* the heap in which the member objects are as [ms] says *)
  Variable h0 : heap.                           (* the heap the function is called in *)
  Variable s : classstmt.                       (* its _required / _optional *)
  Variable defs : list (pystr * defval).        (* the `= value` of the annotated fields: cls_dict["_defaults"] *)
  Variable ents : list (pystr * pyval).         (* the class dict *)
  Variable pre : members.                       (* the Field / Constant objects the class body built *)

  Definition v_defs : pyval := PDict (skeys (map (fun nd => (fst nd, default_val (snd nd))) defs)).

  (* the model, one field after the other *)
  Definition apply_step (ms : members) (n : pystr) : res members :=
    match alist_get ms n with
    | Some (MField fo) => fo' <- apply_eq_default re_match e fo (alist_get defs n) ;; Ok (alist_set ms n (MField fo'))
    | Some (MConst _) => Ok ms
    | None => Raise KeyError
    end.

  Fixpoint apply_all (ms : members) (ns : list pystr) : res members :=
    match ns with
    | [] => Ok ms
    | n :: t => ms' <- apply_step ms n ;; apply_all ms' t
    end.

  (* the side conditions *)
  Definition lit_ok (d : option defval) : bool := match d with Some (DLit (POther _ _)) => false | _ => true end.
  Definition member_ok (nm : pystr * member) : bool :=
    match snd nm with
    | MField fo => lit_ok (fo_default fo)
    | MConst _ => negb (alist_has defs (fst nm))
    end.

  Hypothesis Hso : so_ok so.
  Hypothesis Hnd : NoDup (map fst pre).
  Hypothesis Hnorm : defaults_normal pre = true.
  Hypothesis Hmem : forallb member_ok pre = true.
  Hypothesis Hdefs : forallb (fun nd => eqd_plain (snd nd)) defs = true.
  Hypothesis HVM_default : forall ms n,
    VM ms (mobj n) n__default =
    match alist_get ms n with Some (MField fo) => Some (default_attr (fo_default fo)) | _ => None end.
  Hypothesis HVM_set : forall ms n fo fo', alist_get ms n = Some (MField fo) ->
    heap_eq (heap_set (VM ms) (mobj n) n__default (default_attr (fo_default fo'))) (VM (alist_set ms n (MField fo'))).
  Hypothesis Hh0 : heap_eq h0 (VM pre).
  (* the class dict holds the member objects, _required and _optional as the statement gives them *)
  Hypothesis Hent : forall n, In n (map fst pre) -> alist_get ents n = Some (ref (mobj n)).
  Hypothesis Hreq : alist_get ents (s2p "_required") = option_map v_names (s_required s).
  Hypothesis Hopt : alist_get ents (s2p "_optional") = option_map v_names (s_optional s).
  (* Field._try_default_value(v): the field validates v (Fields/SetChain.v [vset]) and changes nothing else *)
  Hypothesis HX : forall hh n fo v, alist_get pre n = Some (MField fo) ->
    X (s2p "._try_default_value") hh [ref (mobj n); v] =
    match vset re_match e (fo_field fo) v with
    | Ok _ => Ok (hh, PNone, [ref (mobj n); v])
    | Raise x => Raise x
    end.

  Definition apply_member (nm : pystr * member) : res (pystr * member) :=
    match snd nm with
    | MField fo => fo' <- apply_eq_default re_match e fo (alist_get defs (fst nm)) ;; Ok (fst nm, MField fo')
    | MConst _ => Ok nm
    end.

  Notation rstep := (req_step (is_some (s_required s)) (opt_list (s_optional s))).

  (* the loop of the source: the member objects and the required set evolve together *)
  Fixpoint apply_all2 (ms : members) (r : list pystr) (ns : list pystr) : res (members * list pystr) :=
    match ns with
    | [] => Ok (ms, r)
    | n :: t =>
        ms' <- apply_step ms n ;;
        match alist_get ms' n with
        | Some m => apply_all2 ms' (rstep r (n, m)) t
        | None => Raise KeyError
        end
    end.

  Lemma alist_get_mid {A} (a b : list (pystr * A)) n x : ~ In n (map fst a) -> alist_get (a ++ (n, x) :: b) n = Some x.
  Proof.
    induction a as [|[k v] t IH]; cbn [app alist_get map fst In]; intro H.
    - rewrite pystr_eqb_refl. reflexivity.
    - destruct (pystr_eqb k n) eqn:E; [apply pystr_eqb_spec in E; subst; exfalso; apply H; left; reflexivity|].
      apply IH. intro; apply H; right; assumption.
  Qed.

  Lemma alist_set_mid {A} (a b : list (pystr * A)) n x y :
    ~ In n (map fst a) -> alist_set (a ++ (n, x) :: b) n y = a ++ (n, y) :: b.
  Proof.
    induction a as [|[k v] t IH]; cbn [app alist_set map fst In]; intro H.
    - rewrite pystr_eqb_refl. reflexivity.
    - destruct (pystr_eqb k n) eqn:E; [apply pystr_eqb_spec in E; subst; exfalso; apply H; left; reflexivity|].
      f_equal. apply IH. intro; apply H; right; assumption.
  Qed.

  (* ... which is the model: every member gets its `=` default ([apply_eq_default]), then [own_required] *)
  Lemma apply_all2_spec todo : forall done r, NoDup (map fst (done ++ todo)) ->
    apply_all2 (done ++ todo) r (map fst todo) =
    (own <- mapM apply_member todo ;; Ok (done ++ own, fold_left rstep own r)).
  Proof.
    induction todo as [|[n m] t IH]; intros done r Hnd'.
    - cbn [map apply_all2 mapM bind fold_left]. reflexivity.
    - assert (Hn : ~ In n (map fst done)).
      { rewrite map_app in Hnd'. cbn [map fst] in Hnd'. apply NoDup_remove_2 in Hnd'. intro H. apply Hnd'. apply in_or_app. left. exact H. }
      cbn [map fst apply_all2 mapM]. unfold apply_step. rewrite (alist_get_mid done t n m Hn). unfold apply_member at 1. cbn [fst snd].
      destruct m as [fo|v].
      + destruct (apply_eq_default re_match e fo (alist_get defs n)) as [fo'|x]; cbn [bind]; [|reflexivity].
        rewrite (alist_set_mid done t n _ _ Hn), (alist_get_mid done t n _ Hn).
        replace (done ++ (n, MField fo') :: t) with ((done ++ [(n, MField fo')]) ++ t) by (rewrite <- app_assoc; reflexivity).
        rewrite IH.
        * destruct (mapM apply_member t) as [own|x]; cbn [bind fold_left]; [|reflexivity]. rewrite <- app_assoc. reflexivity.
        * rewrite <- app_assoc. cbn [app]. rewrite map_app in *. exact Hnd'.
      + cbn [bind]. rewrite (alist_get_mid done t n _ Hn).
        replace (done ++ (n, MConst v) :: t) with ((done ++ [(n, MConst v)]) ++ t) by (rewrite <- app_assoc; reflexivity).
        rewrite IH.
        * destruct (mapM apply_member t) as [own|x]; cbn [bind fold_left]; [|reflexivity]. rewrite <- app_assoc. reflexivity.
        * rewrite <- app_assoc. cbn [app]. exact Hnd'.
  Qed.

  Lemma getattr_def_fld h n a d :
    dv_getattr_def h (ref (mobj n)) a d = Ok (match h (mobj n) a with Some v => v | None => d end).
  Proof. unfold ref. cbn [dv_getattr_def obj_getattr_def]. rewrite pystr_eqb_refl. reflexivity. Qed.

  Lemma setattr_fld h n a v : dv_setattr h (ref (mobj n)) a v = Ok (heap_set h (mobj n) a v).
  Proof. unfold ref. cbn [dv_setattr]. rewrite pystr_eqb_refl. reflexivity. Qed.

  (* what the loop knows about the member objects while it runs *)
  Definition good (n : pystr) (m : member) : Prop :=
    match m with
    | MField fo =>
        (exists fo0, alist_get pre n = Some (MField fo0) /\ fo_field fo0 = fo_field fo) /\
        match fo_default fo with Some (DLit PNone) => False | _ => True end /\ lit_ok (fo_default fo) = true
    | MConst v => alist_has defs n = false
    end.

  Definition inv (ms : members) : Prop :=
    (forall n m, alist_get ms n = Some m -> good n m) /\
    (forall n, In n (map fst pre) -> alist_get ms n <> None).

  Lemma inv_pre : inv pre.
  Proof.
    split.
    - intros n m Hg. apply alist_get_In in Hg.
      pose proof Hnorm as Hnorm'. pose proof Hmem as Hmem'. unfold defaults_normal in Hnorm'. rewrite forallb_forall in Hnorm', Hmem'.
      specialize (Hnorm' _ Hg). specialize (Hmem' _ Hg). rename Hnorm' into Hn1. rename Hmem' into Hm1.
      unfold member_ok in Hm1. cbn [fst snd] in Hn1, Hm1. destruct m as [fo|v]; cbn [good].
      + split; [exists fo; split; [apply In_alist_get_NoDup; assumption|reflexivity]|].
        split; [destruct (fo_default fo) as [[[]|]|]; try exact I; discriminate|exact Hm1].
      + apply negb_true_iff in Hm1. exact Hm1.
    - intros n Hn Hg. apply alist_get_None_notin in Hg. contradiction.
  Qed.

  Theorem apply_default_gen :
    match mapM apply_member pre with
    | Ok own =>
        exists h' req, Permutation req (own_required s own) /\ heap_eq h' (VM own) /\
          DefineSrc.apply_default_and_update_required so X (h0) (PDict (skeys ents)) v_defs
                                                       (v_names (map fst pre)) =
          Ok (h', PNone, PDict (skeys (alist_set ents (s2p "_required") (v_names req))))
    | Raise x =>
        DefineSrc.apply_default_and_update_required so X (h0) (PDict (skeys ents)) v_defs
                                                     (v_names (map fst pre)) = Raise x
    end.
  Proof.
    unfold DefineSrc.apply_default_and_update_required. cbv zeta.
    rewrite !dict_get_skeys_def, Hreq, Hopt. cbn [bind].
    assert (Er : dv_set_of so (deref (h0) match option_map v_names (s_required s) with Some v => v | None => PList [] end)
                 = Ok (PSet false (v_strs (dedup_str (opt_list (s_required s)))))).
    { destruct (s_required s) as [l|]; cbn [option_map opt_list]; [unfold v_names; rewrite deref_list; apply set_of_list|reflexivity]. }
    assert (Eo : dv_set_of so (deref (h0) match option_map v_names (s_optional s) with Some v => v | None => PList [] end)
                 = Ok (PSet false (v_strs (dedup_str (opt_list (s_optional s)))))).
    { destruct (s_optional s) as [l|]; cbn [option_map opt_list]; [unfold v_names; rewrite deref_list; apply set_of_list|reflexivity]. }
    rewrite Er, Eo. cbn [bind]. rewrite in_skeys. cbn [bind].
    assert (Epd : alist_has ents (s2p "_required") = is_some (s_required s)).
    { unfold alist_has. rewrite Hreq. destruct (s_required s); reflexivity. }
    rewrite Epd. unfold v_names at 1. rewrite deref_list. cbn [dv_iter bind]. fold (v_strs (map fst pre)).
    match goal with |- context [@dv_foldM ?S ?F] => set (BODY := F) end.
    set (R0 := dedup_str (opt_list (s_required s))).
    set (OPT := dedup_str (opt_list (s_optional s))).
    assert (Hloop : forall ns, (forall n, In n ns -> In n (map fst pre)) ->
              forall ms hcur r, heap_eq hcur (VM ms) -> inv ms ->
              match apply_all2 ms r ns with
              | Ok (own, r') =>
                  exists h', heap_eq h' (VM own) /\
                    dv_foldM BODY (v_strs ns) (hcur, PSet false (v_strs r)) = Ok (h', PSet false (v_strs r'))
              | Raise x => dv_foldM BODY (v_strs ns) (hcur, PSet false (v_strs r)) = Raise x
              end).
    { induction ns as [|n t IH]; intros Hns ms hcur r Heq [Hgood Hpres].
      - cbn [apply_all2]. exists hcur. split; [exact Heq|reflexivity].
      - assert (Hn : In n (map fst pre)) by (apply Hns; left; reflexivity).
        assert (Ht : forall k, In k t -> In k (map fst pre)) by (intros k Hk; apply Hns; right; exact Hk).
        cbn [apply_all2 v_strs map]. fold (v_strs t). unfold dv_foldM at 1 2. cbn [py_foldM]. fold (@dv_foldM (heap * pyval)).
        unfold BODY at 1 3. cbv beta iota. cbn [bind].
        unfold v_defs. rewrite !deref_dict, in_skeys, alist_has_defs, !subscript_skeys, (Hent n Hn), alist_get_defs.
        cbn [bind]. rewrite !getattr_def_fld.
        (* the current object *)
        unfold apply_step. destruct (alist_get ms n) as [m|] eqn:Egm; [|exfalso; exact (Hpres n Hn Egm)].
        pose proof (Hgood n m Egm) as Hgm.
        assert (Ehd : hcur (mobj n) n__default = match m with MField fo => Some (default_attr (fo_default fo)) | MConst _ => None end).
        { rewrite Heq, HVM_default, Egm. destruct m; reflexivity. }
        change (s2p "_default") with n__default. rewrite Ehd.
        (* the update of the required set, whatever the object has become *)
        assert (Htail : forall hX m', hX (mobj n) n__default = match m' with MField fo => Some (default_attr (fo_default fo)) | MConst _ => None end ->
                  good n m' ->
                  (v_required_fields_41 <-
                   (c <- (t35 <- dv_getattr_def hX (ref (mobj n)) n__default PNone;; Ok (py_is_not_none t35));;
                    (if c
                     then v_required_fields_37 <-
                          (c0 <- dv_in (PStr n) (PSet false (v_strs r));;
                           (if c0 then v_required_fields_36 <- dv_set_remove (PSet false (v_strs r)) (PStr n);; Ok v_required_fields_36
                            else Ok (PSet false (v_strs r))));; Ok v_required_fields_37
                     else v_required_fields_40 <-
                          (if negb (py_truthy (deref hX (PBool (is_some (s_required s)))))
                           then v_required_fields_39 <-
                                (c0 <- py_not (dv_in (PStr n) (PSet false (v_strs (dedup_str (opt_list (s_optional s))))));;
                                 (if c0 then v_required_fields_38 <- dv_set_add (PSet false (v_strs r)) (PStr n);; Ok v_required_fields_38
                                  else Ok (PSet false (v_strs r))));; Ok v_required_fields_39
                           else Ok (PSet false (v_strs r)));; Ok v_required_fields_40));;
                   Ok (hX, v_required_fields_41)) = Ok (hX, PSet false (v_strs (rstep r (n, m'))))).
        { intros hX m' EhX Hg'. rewrite getattr_def_fld, EhX. cbn [bind].
          assert (Ehd' : py_is_not_none match (match m' with MField fo => Some (default_attr (fo_default fo)) | MConst _ => None end) with Some v => v | None => PNone end = has_default m').
          { destruct m' as [fo'|cv']; [|reflexivity]. cbn [good] in Hg'. destruct Hg' as [_ [Hnn' _]]. cbn [has_default].
            destruct (fo_default fo') as [[v|v]|]; cbn [default_attr default_val]; try reflexivity.
            destruct v; try reflexivity. contradiction. }
          rewrite Ehd'. unfold req_step. cbn [fst snd]. destruct (has_default m'); cbn [bind].
          - rewrite in_set. cbn [bind]. destruct (str_in n r) eqn:Er'; cbn [bind].
            + rewrite set_remove_strs by exact Er'. reflexivity.
            + rewrite remove_str_absent by exact Er'. reflexivity.
          - rewrite deref_bool. cbn [py_truthy]. destruct (is_some (s_required s)); cbn [negb bind]; [reflexivity|].
            rewrite in_set, str_in_dedup. cbn [py_not bind]. destruct (str_in n (opt_list (s_optional s))); cbn [negb bind]; [reflexivity|].
            rewrite set_add_strs. reflexivity. }
        destruct m as [fo|cv].
        + (* a Field *)
          pose proof Hgm as Hgm0. cbn [good] in Hgm. destruct Hgm as [[fo0 [Hpre0 Hfld]] [Hnn Hlit]].
          assert (Etr : py_truthy (deref hcur (default_attr (fo_default fo))) =
                        match fo_default fo with Some d0 => defval_truthy d0 | None => false end).
          { destruct (fo_default fo) as [[v|v]|]; cbn [default_attr default_val]; [|reflexivity|reflexivity].
            cbn [lit_ok] in Hlit. destruct v; try reflexivity. discriminate. }
          unfold apply_eq_default. destruct (alist_get defs n) as [d|] eqn:Ed.
          * (* an `= value` default *)
            unfold alist_has. rewrite Ed. cbn [option_map py_and py_not bind]. rewrite Etr.
            destruct (match fo_default fo with Some d0 => defval_truthy d0 | None => false end) eqn:Et; cbn [negb bind].
            -- (* the Field already has a truthy default *)
               cbn [bind]. rewrite (alist_set_same_val ms n (MField fo) Egm), Egm.
               use_tail (Htail hcur (MField fo) Ehd Hgm0). cbn [bind].
               apply (IH Ht ms hcur _ Heq (conj Hgood Hpres)).
            -- (* the `= value` becomes the default *)
               assert (Hpl : eqd_plain d = true).
               { pose proof Hdefs as Hd'. rewrite forallb_forall in Hd'. apply (Hd' (n, d)). apply alist_get_In. exact Ed. }
               assert (Emut : (py_or (Ok (py_isinstance (deref hcur (default_val d)) [K_list]))
                                (fun _ => py_or (Ok (py_isinstance (deref hcur (default_val d)) [K_dict]))
                                   (fun _ => Ok (py_isinstance (deref hcur (default_val d)) [K_set])))) = Ok (defval_mutable d)).
               { destruct d as [v|v]; cbn [default_val]; [|reflexivity]. cbn [eqd_plain] in Hpl.
                 destruct v as [| | | | | | |[|]| | | |]; try reflexivity; discriminate. }
               rewrite Emut. cbn [bind]. destruct (defval_mutable d); cbn [bind]; [reflexivity|].
               assert (Eval : (c0 <- dv_callable hcur (default_val d);;
                               (if c0 then t20 <- dv_call0 (default_val d);; Ok t20 else Ok (default_val d))) = Ok (defval_value d)).
               { destruct d as [v|v]; cbn [default_val defval_value]; [|reflexivity]. cbn [eqd_plain] in Hpl.
                 destruct v; try reflexivity; discriminate. }
               rewrite Eval. cbn [bind]. rewrite (HX hcur n fo0 _ Hpre0). unfold try_default. rewrite <- Hfld.
               destruct (vset re_match e (fo_field fo0) (defval_value d)) as [w|x]; cbn [bind]; [|reflexivity].
               rewrite !unchanged_refl. cbn [bind]. rewrite ?deref_dict, ?subscript_skeys, ?(Hent n Hn), ?alist_get_defs, ?Ed.
               cbn [option_map bind]. rewrite setattr_fld. cbn [bind].
               rewrite alist_get_set_same.
               set (fo' := {| fo_field := fo_field fo; fo_immutable := fo_immutable fo; fo_default := norm_default (Some d) |}).
               assert (Edn : default_val d = default_attr (fo_default fo')).
               { subst fo'. cbn [fo_default]. destruct d as [[]|v]; reflexivity. }
               rewrite Hfld. fold fo'. rewrite Edn.
               assert (Heq' : heap_eq (heap_set hcur (mobj n) n__default (default_attr (fo_default fo'))) (VM (alist_set ms n (MField fo')))).
               { intros o a. rewrite <- (HVM_set ms n fo fo' Egm o a). unfold heap_set. rewrite Heq. reflexivity. }
               assert (Hg' : good n (MField fo')).
               { cbn [good]. split; [exists fo0; split; [exact Hpre0|exact Hfld]|]. subst fo'. cbn [fo_default].
                 destruct d as [v|v]; cbn [eqd_plain] in Hpl; [|split; [exact I|reflexivity]].
                 destruct v; cbn [norm_default lit_ok]; try (split; [exact I|reflexivity]). discriminate. }
               assert (EhX : heap_set hcur (mobj n) n__default (default_attr (fo_default fo')) (mobj n) n__default = Some (default_attr (fo_default fo'))).
               { unfold heap_set. rewrite !pystr_eqb_refl. reflexivity. }
               use_tail (Htail _ (MField fo') EhX Hg'). cbn [bind].
               apply (IH Ht _ _ _ Heq').
               split.
               ++ intros k mk Hk. destruct (pystr_eqb k n) eqn:Ekn.
                  ** apply pystr_eqb_spec in Ekn; subst k. rewrite alist_get_set_same in Hk. inversion Hk; subst mk. exact Hg'.
                  ** rewrite alist_get_set_other in Hk by (intro; subst; rewrite pystr_eqb_refl in Ekn; discriminate). apply Hgood. exact Hk.
               ++ intros k Hk Hnone. destruct (pystr_eqb k n) eqn:Ekn.
                  ** apply pystr_eqb_spec in Ekn; subst k. rewrite alist_get_set_same in Hnone. discriminate.
                  ** rewrite alist_get_set_other in Hnone by (intro; subst; rewrite pystr_eqb_refl in Ekn; discriminate). exact (Hpres k Hk Hnone).
          * (* no `= value` *)
            unfold alist_has. rewrite Ed. cbn [option_map py_and bind].
            rewrite (alist_set_same_val ms n (MField fo) Egm), Egm.
            use_tail (Htail hcur (MField fo) Ehd Hgm0). cbn [bind].
            apply (IH Ht ms hcur _ Heq (conj Hgood Hpres)).
        + (* a Constant *)
          cbn [good] in Hgm. rewrite Hgm. cbn [py_and bind]. rewrite Egm.
          use_tail (Htail hcur (MConst cv) Ehd Hgm). cbn [bind].
          apply (IH Ht ms hcur _ Heq (conj Hgood Hpres)). }
    specialize (Hloop (map fst pre) (fun n H => H) pre h0 R0 Hh0 inv_pre).
    pose proof (apply_all2_spec pre [] R0 Hnd) as Hspec. cbn [app] in Hspec. rewrite Hspec in Hloop. clear Hspec.
    destruct (mapM apply_member pre) as [own|x]; cbn [bind] in Hloop.
    - destruct Hloop as [h' [Heq' Hf]]. rewrite Hf. cbn [bind]. cbv beta iota.
      cbn [dv_list_of dv_iter bind]. destruct (so_strs so (fold_left rstep own R0) Hso) as [req [Eso Hperm]].
      rewrite Eso. cbn [bind]. rewrite setitem_skeys. cbn [bind].
      exists h', req. split; [exact Hperm|]. split; [exact Heq'|reflexivity].
    - unfold v_names. rewrite deref_list. cbn [dv_iter bind]. fold (v_strs (map fst pre)). rewrite Hloop. reflexivity.
  Qed.
End ApplyDefault.

(* the same for the heap [members_heap base pre], where member n is the object "field:n" *)
Theorem apply_default_src (re_match : N -> pystr -> bool) (e : env) (so : set_order) (X : ext_oracle) (base : heap)
    (s : classstmt) (defs : list (pystr * defval)) (ents : list (pystr * pyval)) (pre : members) :
  so_ok so -> NoDup (map fst pre) -> defaults_normal pre = true ->
  forallb (member_ok defs) pre = true -> forallb (fun nd => eqd_plain (snd nd)) defs = true ->
  (forall n, base (fobj n) n__default = None) ->
  (forall n, In n (map fst pre) -> alist_get ents n = Some (fld_ref n)) ->
  alist_get ents (s2p "_required") = option_map v_names (s_required s) ->
  alist_get ents (s2p "_optional") = option_map v_names (s_optional s) ->
  (forall hh n fo v, alist_get pre n = Some (MField fo) ->
     X (s2p "._try_default_value") hh [fld_ref n; v] =
     match vset re_match e (fo_field fo) v with
     | Ok _ => Ok (hh, PNone, [fld_ref n; v])
     | Raise x => Raise x
     end) ->
  match mapM (apply_member re_match e defs) pre with
  | Ok own =>
      exists h' req, Permutation req (own_required s own) /\ heap_eq h' (members_heap base own) /\
        DefineSrc.apply_default_and_update_required so X (members_heap base pre) (PDict (skeys ents)) (v_defs defs)
                                                     (v_names (map fst pre)) =
        Ok (h', PNone, PDict (skeys (alist_set ents (s2p "_required") (v_names req))))
  | Raise x =>
      DefineSrc.apply_default_and_update_required so X (members_heap base pre) (PDict (skeys ents)) (v_defs defs)
                                                   (v_names (map fst pre)) = Raise x
  end.
Proof.
  intros Hso Hnd Hnorm Hmem Hdefs Hbase Hent Hreq Hopt HX.
  apply (apply_default_gen re_match e so X fobj (members_heap base) (members_heap base pre) s defs ents pre); try assumption.
  - intros ms n. unfold members_heap, fobj. rewrite strip_prefix_app.
    destruct (alist_get ms n) as [[fo|v]|]; cbn [member_attr]; [rewrite pystr_eqb_refl; reflexivity|apply Hbase|apply Hbase].
  - intros ms n fo fo' Hg. apply (members_heap_set base ms n fo fo' Hg).
  - intros o a. reflexivity.
Qed.

(* The class body first builds every Field object ([field_init], the Field constructors run while the body is
   executed), then StructMeta.__new__ applies the `= value` defaults.  When the constructors all succeed, the
   model's [build_members] is exactly that second phase. *)
Section TwoPhases.
  Variable re_match : N -> pystr -> bool.
  Variable e : env.

  Definition init_member (nm : pystr * mstmt) : res (pystr * member) :=
    match snd nm with
    | SDecl f imm kwd _ => fo <- field_init re_match e f imm kwd ;; Ok (fst nm, MField fo)
    | SConst v => Ok (fst nm, MConst v)
    | SObj m => Ok (fst nm, m)
    end.

  Definition eq_defs (l : list (pystr * mstmt)) : list (pystr * defval) :=
    flat_map (fun nm => match snd nm with SDecl _ _ _ (Some d) => [(fst nm, d)] | _ => [] end) l.

  Lemma eq_defs_notin l n : ~ In n (map fst l) -> alist_get (eq_defs l) n = None.
  Proof.
    induction l as [|[k ms] t IH]; intro H; [reflexivity|]. cbn [map fst In] in H.
    cbn [eq_defs flat_map fst snd]. fold (eq_defs t).
    assert (Hk : pystr_eqb k n = false) by (apply pystr_eqb_neq; intro; subst; apply H; left; reflexivity).
    destruct ms as [f imm kwd [d|]|v|m]; cbn [app alist_get]; rewrite ?Hk; apply IH; intro; apply H; right; assumption.
  Qed.

  Lemma mapM_apply_ext D1 D2 (pre : members) :
    (forall n, In n (map fst pre) -> alist_get D1 n = alist_get D2 n) ->
    mapM (apply_member re_match e D1) pre = mapM (apply_member re_match e D2) pre.
  Proof.
    induction pre as [|[n m] t IH]; intro H; [reflexivity|]. cbn [mapM]. unfold apply_member at 1 3. cbn [fst snd].
    rewrite (H n (or_introl eq_refl)). rewrite IH by (intros k Hk; apply H; right; exact Hk). reflexivity.
  Qed.

  Lemma mapM_names {A B} (f : pystr * A -> res (pystr * B)) l r :
    (forall x y, f x = Ok y -> fst y = fst x) -> mapM f l = Ok r -> map fst r = map fst l.
  Proof.
    intro Hf. revert r. induction l as [|x t IH]; intros r H; cbn [mapM] in H; [inversion H; reflexivity|].
    destruct (f x) as [y|] eqn:Ey; cbn [bind] in H; [|discriminate].
    destruct (mapM f t) as [ys|] eqn:Et; cbn [bind] in H; [|discriminate]. inversion H; subst.
    cbn [map]. rewrite (Hf _ _ Ey), (IH _ eq_refl). reflexivity.
  Qed.

  Lemma init_member_name x y : init_member x = Ok y -> fst y = fst x.
  Proof.
    destruct x as [n ms]. unfold init_member. cbn [fst snd]. destruct ms as [f imm kwd eqd|v|m].
    - destruct (field_init re_match e f imm kwd); cbn [bind]; [|discriminate]. intro H; inversion H; reflexivity.
    - intro H; inversion H; reflexivity.
    - intro H; inversion H; reflexivity.
  Qed.

  Lemma build_members_two_phases l : forall pre,
    NoDup (map fst l) -> mapM init_member l = Ok pre ->
    build_members re_match e l = mapM (apply_member re_match e (eq_defs l)) pre.
  Proof.
    induction l as [|[n ms] t IH]; intros pre Hnd Hinit.
    - cbn [mapM] in Hinit. inversion Hinit. reflexivity.
    - cbn [map fst] in Hnd. inversion Hnd as [|? ? Hn Hd]; subst.
      cbn [mapM] in Hinit. destruct (init_member (n, ms)) as [[n' m0]|] eqn:E0; cbn [bind] in Hinit; [|discriminate].
      destruct (mapM init_member t) as [pt|] eqn:Et; cbn [bind] in Hinit; [|discriminate]. inversion Hinit; subst pre. clear Hinit.
      pose proof (init_member_name _ _ E0) as En. cbn [fst] in En. subst n'.
      assert (Hpt : map fst pt = map fst t) by (apply (mapM_names init_member t pt init_member_name Et)).
      assert (Hrest : mapM (apply_member re_match e (eq_defs ((n, ms) :: t))) pt = build_members re_match e t).
      { rewrite (IH pt Hd eq_refl). apply mapM_apply_ext. intros k Hk. rewrite Hpt in Hk.
        cbn [eq_defs flat_map fst snd]. fold (eq_defs t).
        assert (Hkn : pystr_eqb n k = false) by (apply pystr_eqb_neq; intro; subst; contradiction).
        destruct ms as [f imm kwd [d|]|v|m]; cbn [app alist_get]; rewrite ?Hkn; reflexivity. }
      cbn [build_members mapM]. rewrite Hrest. unfold apply_member at 1. cbn [fst snd].
      unfold init_member in E0. cbn [fst snd] in E0. unfold build_member.
      assert (Hget : alist_get (eq_defs ((n, ms) :: t)) n = match ms with SDecl _ _ _ eqd => eqd | _ => None end).
      { cbn [eq_defs flat_map fst snd]. fold (eq_defs t).
        destruct ms as [f imm kwd [d|]|v|m]; cbn [app alist_get]; rewrite ?pystr_eqb_refl; try reflexivity; apply eq_defs_notin; exact Hn. }
      destruct ms as [f imm kwd eqd|v|m].
      + destruct (field_init re_match e f imm kwd) as [fo|x]; cbn [bind] in E0; [|discriminate]. inversion E0; subst m0.
        cbn [bind]. rewrite Hget. destruct (apply_eq_default re_match e fo eqd); reflexivity.
      + inversion E0; subst m0. cbn [bind]. reflexivity.
      + inversion E0; subst m0. cbn [bind]. destruct m as [fo|v]; cbn [bind]; [|reflexivity].
        rewrite Hget. cbn [apply_eq_default bind]. reflexivity.
  Qed.
End TwoPhases.

(* ================================================================== _get_all_fields_by_name *)

(* the fold of _get_all_fields_by_name over the reversed MRO, for any way [F] of describing the member [nm] that
   class [c] defines: F c nm = snd nm gives the model's [fields_of_mro], F c nm = the object gives the dict the
   source builds *)
Definition mro_fold {A} (F : pystr -> pystr * member -> A) (g : genv) (mro : list pystr) : list (pystr * A) :=
  fold_left (fun acc c => alist_merge acc (map (fun nm => (fst nm, F c nm)) (own_of g c))) (rev mro) [].

Lemma fields_of_mro_fold g mro : fields_of_mro g mro = mro_fold (fun _ nm => snd nm) g mro.
Proof.
  unfold fields_of_mro, mro_fold. generalize (@nil (pystr * member)). induction (rev mro) as [|c t IH]; intro acc; [reflexivity|].
  cbn [fold_left]. rewrite IH. f_equal. unfold update_members, alist_merge.
  generalize acc. induction (own_of g c) as [|[n m] l IHl]; intro a; [reflexivity|]. cbn [map fold_left fst snd]. apply IHl.
Qed.

Lemma alist_set_map {A B} (G : A -> B) (l : list (pystr * A)) n v :
  map (fun p => (fst p, G (snd p))) (alist_set l n v) = alist_set (map (fun p => (fst p, G (snd p))) l) n (G v).
Proof.
  induction l as [|[k x] t IH]; [reflexivity|]. cbn [alist_set map fst snd]. destruct (pystr_eqb k n); cbn [map fst snd]; [reflexivity|].
  f_equal. exact IH.
Qed.

Lemma mro_fold_map {A B} (G : A -> B) (F : pystr -> pystr * member -> A) g mro :
  map (fun p => (fst p, G (snd p))) (mro_fold F g mro) = mro_fold (fun c nm => G (F c nm)) g mro.
Proof.
  unfold mro_fold. change (@nil (pystr * B)) with (map (fun p : pystr * A => (fst p, G (snd p))) []).
  generalize (@nil (pystr * A)). induction (rev mro) as [|c t IH]; intro acc; [reflexivity|].
  cbn [fold_left]. rewrite IH. f_equal. unfold alist_merge.
  generalize acc. induction (own_of g c) as [|nm l IHl]; intro a; [reflexivity|].
  cbn [map fold_left fst snd]. rewrite IHl. f_equal. apply alist_set_map.
Qed.

Lemma find_klass_name g c k : find_klass g c = Some k -> k_name k = c.
Proof.
  induction g as [|x t IH]; cbn [find_klass]; [discriminate|]. destruct (pystr_eqb (k_name x) c) eqn:E.
  - intro H; inversion H; subst. apply pystr_eqb_spec. exact E.
  - exact IH.
Qed.

(* the own member names of a class are ordinary attribute names, all different *)
Definition own_plain (k : klass) : bool :=
  forallb (fun n => negb (pseudo_attr n) && negb (str_in n special_class_attrs)) (map fst (k_own k)) &&
  negb (has_dup_str (map fst (k_own k))).

Definition mro_plain (g : genv) (mro : list pystr) : bool :=
  forallb (fun c => match find_klass g c with Some k => own_plain k | None => true end) mro.

Lemma class_attr_member k ex n :
  pseudo_attr n = false -> str_in n special_class_attrs = false -> alist_has (k_own k) n = true ->
  class_attr k ex n = Some (ref (member_obj (k_name k) n)).
Proof.
  intros Hp Hs Hh. unfold special_class_attrs in Hs. cbn [str_in existsb] in Hs.
  repeat (apply orb_false_iff in Hs; destruct Hs as [?H Hs]).
  unfold class_attr. rewrite H, H0, H1, H2, H3, H4, Hp, Hh. reflexivity.
Qed.

Lemma dict_update_skeys a b :
  dv_dict_update (PDict (skeys a)) (PDict (skeys b)) = Ok (PDict (skeys (alist_merge a b))).
Proof. unfold dv_dict_update. apply dict_merge_skeys. Qed.

Lemma filter_rev {A} (p : A -> bool) l : filter p (rev l) = rev (filter p l).
Proof.
  induction l as [|x t IH]; [reflexivity|]. cbn [rev filter]. rewrite filter_app, IH. cbn [filter].
  destruct (p x); cbn [rev]; [reflexivity|apply app_nil_r].
Qed.

Lemma filter_all {A} (p : A -> bool) l : forallb p l = true -> filter p l = l.
Proof.
  induction l as [|x t IH]; cbn [forallb filter]; [reflexivity|]. intro H.
  apply andb_true_iff in H as [H1 H2]. rewrite H1. f_equal. auto.
Qed.

(* the member objects of the classes along the MRO, later classes overriding: name -> the object *)
Definition v_fields_of_mro (g : genv) (mro : list pystr) : list (pystr * pyval) :=
  mro_fold (fun c nm => ref (member_obj c (fst nm))) g mro.

Theorem get_all_fields_by_name_gen so X hp gd g extra c kc :
  env_view hp gd g extra ->
  find_klass g c = Some kc -> mro_plain g (k_mro kc) = true ->
  DefineSrc.get_all_fields_by_name so X hp (ref c) =
  Ok (PDict (skeys (v_fields_of_mro g (k_mro kc)))).
Proof.
  intros Hev Hk Hpl. unfold DefineSrc.get_all_fields_by_name. cbv zeta.
  rewrite (ev_mro _ _ _ _ Hev c kc Hk). cbn [bind]. rewrite deref_list. cbn [dv_iter bind].
  set (isstruct := fun x => match find_klass g x with Some k => k_is_struct k | None => false end).
  rewrite (comp_refs _ isstruct).
  2:{ intros b _. rewrite (ev_struct _ _ _ _ Hev). cbn [bind]. unfold isstruct. destruct (find_klass g b) as [k|]; [destruct (k_is_struct k)|]; reflexivity. }
  cbn [bind]. rewrite deref_list. cbn [dv_reversed bind]. rewrite deref_list. cbn [dv_iter bind].
  unfold v_refs. rewrite <- map_rev. fold (v_refs (rev (filter isstruct (k_mro kc)))). rewrite <- filter_rev.
  unfold v_fields_of_mro, mro_fold.
  assert (Hpl' : forall x, In x (rev (k_mro kc)) -> match find_klass g x with Some k => own_plain k = true | None => True end).
  { intros x Hx. apply in_rev in Hx. unfold mro_plain in Hpl. rewrite forallb_forall in Hpl. specialize (Hpl x Hx).
    destruct (find_klass g x); [exact Hpl|exact I]. }
  change (PDict []) with (PDict (skeys [])). generalize (@nil (pystr * pyval)).
  induction (rev (k_mro kc)) as [|x t IH]; intro acc; [reflexivity|].
  assert (Ht : forall y, In y t -> match find_klass g y with Some k => own_plain k = true | None => True end)
    by (intros y Hy; apply Hpl'; right; exact Hy).
  specialize (Hpl' x (or_introl eq_refl)). cbn [filter fold_left].
  unfold isstruct at 1.
  destruct (find_klass g x) as [kx|] eqn:Hkx.
  2:{ replace (own_of g x) with (@nil (pystr * member)) by (unfold own_of; rewrite Hkx; reflexivity).
      cbn [map]. unfold alist_merge at 1. cbn [fold_left]. apply IH. exact Ht. }
  destruct (k_is_struct kx) eqn:Es.
  2:{ replace (own_of g x) with (@nil (pystr * member)) by (unfold own_of; rewrite Hkx, Es; reflexivity).
      cbn [map]. unfold alist_merge at 1. cbn [fold_left]. apply IH. exact Ht. }
  replace (own_of g x) with (k_own kx) by (unfold own_of; rewrite Hkx, Es; reflexivity).
  cbn [v_refs map]. fold (v_refs (filter isstruct t)). unfold dv_foldM at 1. cbn [py_foldM]. fold (@dv_foldM pyval).
  cbn [bind]. rewrite (ev_struct _ _ _ _ Hev), Hkx, Es. cbn [bind].
  unfold own_plain in Hpl'. apply andb_true_iff in Hpl' as [Hnames Hnd]. apply negb_true_iff in Hnd. apply has_dup_false_NoDup in Hnd.
  pose proof (ev_fields _ _ _ _ Hev x kx Hkx) as Ef.
  rewrite Ef. cbn [bind]. unfold v_names at 1. rewrite deref_list. cbn [dv_iter bind]. fold (v_strs (map fst (k_own kx))).
  rewrite (comp_strs _ (fun _ => true) (fun n => v_item (n, ref (member_obj x n)))).
  2:{ intros n Hn. rewrite forallb_forall in Hnames. specialize (Hnames n Hn).
      apply andb_true_iff in Hnames as [Hp Hs]. apply negb_true_iff in Hp, Hs.
      rewrite (ev_member _ _ _ _ Hev x kx n Hkx Hn Hp Hs). reflexivity. }
  cbn [bind]. rewrite (filter_all _ (map fst (k_own kx))) by (apply forallb_forall; reflexivity).
  rewrite map_map. rewrite <- (map_map (fun nm : pystr * member => (fst nm, ref (member_obj x (fst nm)))) v_item).
  rewrite dict_of_items by (rewrite map_map; cbn [fst]; exact Hnd). cbn [bind].
  rewrite dict_update_skeys. cbn [bind]. apply IH. exact Ht.
Qed.

(* the heap of a class environment answers as [env_view] says *)
Lemma genv_env_view gd g extra : env_view (genv_heap gd g extra) gd g extra.
Proof.
  constructor.
  - apply heap_isinstance_struct.
  - apply heap_isinstance_fieldmeta.
  - apply heap_issubclass.
  - apply heap_signature.
  - apply heap_class_dict.
  - apply heap_mro.
  - apply heap_addl_default.
  - intros x kx Hkx. unfold ref. cbn [dv_getattr_def obj_getattr_def]. rewrite pystr_eqb_refl. unfold genv_heap. rewrite Hkx. reflexivity.
  - intros x kx n Hkx Hn Hp Hs. unfold dv_getattr_dyn. unfold ref at 1. cbn [dv_getattr obj_getattr]. rewrite pystr_eqb_refl.
    unfold genv_heap. rewrite Hkx. rewrite (class_attr_member kx (extra x) n Hp Hs) by (apply alist_has_In; exact Hn).
    rewrite (find_klass_name g x kx Hkx). reflexivity.
Qed.

Theorem check_final_src so X gd g extra name mro_tail :
  DefineSrc.check_for_final_violations so X (genv_heap gd g extra) (PList (v_refs (name :: mro_tail))) =
  if final_violation g mro_tail then Raise TypeError else Ok PNone.
Proof. apply (check_final_gen so X _ gd g extra). apply genv_env_view. Qed.

Theorem get_base_info_src so X gd g extra bases r :
  bases_ok g extra bases = true ->
  base_info gd g bases [] false = r -> r <> Raise Unmodelled ->
  DefineSrc.get_base_info so X (genv_heap gd g extra) (PTuple (v_refs bases)) =
  match r with
  | Ok bp => Ok (PTuple [v_params bp; v_names (bases_required bp)])
  | Raise x => Raise x
  end.
Proof. apply (get_base_info_gen so X _ gd g extra). apply genv_env_view. Qed.

Theorem get_all_fields_by_name_src so X gd g extra c kc :
  find_klass g c = Some kc -> mro_plain g (k_mro kc) = true ->
  DefineSrc.get_all_fields_by_name so X (genv_heap gd g extra) (ref c) =
  Ok (PDict (skeys (v_fields_of_mro g (k_mro kc)))).
Proof. apply (get_all_fields_by_name_gen so X _ gd g extra). apply genv_env_view. Qed.

(* the dict of the source and the model's fields_of_mro have the same names in the same order *)
Lemma fields_of_mro_names g mro :
  fields_of_mro g mro = mro_fold (fun _ nm => snd nm) g mro /\
  map fst (v_fields_of_mro g mro) = map fst (fields_of_mro g mro).
Proof.
  split; [apply fields_of_mro_fold|]. rewrite fields_of_mro_fold.
  assert (H : map (fun p : pystr * pyval => (fst p, tt)) (v_fields_of_mro g mro) =
              map (fun p : pystr * member => (fst p, tt)) (mro_fold (fun _ nm => snd nm) g mro)).
  { unfold v_fields_of_mro. rewrite (mro_fold_map (fun _ : pyval => tt)), (mro_fold_map (fun _ : member => tt)). reflexivity. }
  apply (f_equal (map fst)) in H. rewrite !map_map in H. exact H.
Qed.

(* ================================================================== StructMeta.__new__, statement by statement *)

(* The generator emits StructMeta.__new__ as the composition of one definition per top-level statement
   (StructMeta_new__<label>).  The statements that resolve the field names, _required and _optional are tied to
   the corresponding steps of [define] here; the composition itself is the generated [StructMeta_new]. *)

(* for field_name in fields: names starting with "_" and the name "kwargs" are refused -- [bad_field_name] *)
Lemma startswith_underscore n :
  dv_startswith (PStr n) (PStr (s2p "_")) = Ok (match n with a :: _ => N.eqb a us | [] => false end).
Proof.
  cbn [dv_startswith]. f_equal. destruct n as [|a t]; [reflexivity|].
  change (s2p "_") with [us]. cbn [PyOpsFields.str_prefix]. rewrite N.eqb_sym. apply andb_true_r.
Qed.

Theorem new_field_names_src so X ents names h :
  (forall n, In n names -> exists o, alist_get ents n = Some (ref o)) ->
  match StructMeta_new__for_field_name so X h (PDict (skeys ents)) (v_names names) with
  | Ok h' => existsb bad_field_name names = false /\ (forall o a, a <> s2p "_name" -> h' o a = h o a)
  | Raise x => x = ValueError /\ existsb bad_field_name names = true
  end.
Proof.
  unfold StructMeta_new__for_field_name, v_names. cbn [dv_iter bind]. fold (v_strs names).
  match goal with |- context [@dv_foldM ?S ?F] => set (BODY := F) end.
  assert (Hgen : forall ns h0, (forall n, In n ns -> exists o, alist_get ents n = Some (ref o)) ->
            match py_foldM BODY (v_strs ns) h0 with
            | Ok h' => existsb bad_field_name ns = false /\ (forall o a, a <> s2p "_name" -> h' o a = h0 o a)
            | Raise x => x = ValueError /\ existsb bad_field_name ns = true
            end).
  { induction ns as [|n t IH]; intros h0 Hent.
    - cbn [v_strs map py_foldM existsb]. split; [reflexivity|]. intros; reflexivity.
    - cbn [v_strs map]. fold (v_strs t). cbn [py_foldM].
      unfold BODY at 1. cbn [bind].
      rewrite startswith_underscore. cbn [py_or bind]. unfold py_eqv. rewrite py_eq_str. cbn [existsb].
      unfold bad_field_name at 1 3. change (s2p "kwargs") with n_kwargs.
      destruct (match n with a :: _ => N.eqb a us | [] => false end); cbn [orb bind]; [split; reflexivity|].
      destruct (pystr_eqb n n_kwargs); cbn [orb bind]; [split; reflexivity|].
      destruct (Hent n (or_introl eq_refl)) as [o Ho]. rewrite !subscript_skeys, Ho. cbn [bind].
      assert (Ht : forall k, In k t -> exists o0, alist_get ents k = Some (ref o0)) by (intros k Hk; apply Hent; right; exact Hk).
      unfold obj_isinstance, ref. rewrite pystr_eqb_refl. cbn [bind].
      destruct (match h0 o (isinstance_attr (s2p "Field")) with Some b => py_truthy b | None => false end); cbn [bind].
      + cbn [dv_setattr]. rewrite pystr_eqb_refl. cbn [bind].
        specialize (IH (heap_set h0 o (s2p "_name") (PStr n)) Ht).
        destruct (py_foldM BODY (v_strs t) (heap_set h0 o (s2p "_name") (PStr n))) as [h'|x]; [|exact IH].
        destruct IH as [Hb Hh]. split; [exact Hb|]. intros o' a Ha. rewrite (Hh o' a Ha). unfold heap_set.
        destruct (pystr_eqb a (s2p "_name")) eqn:E; [apply pystr_eqb_spec in E; contradiction|]. rewrite andb_false_r. reflexivity.
      + apply (IH h0 Ht). }
  intro Hent. specialize (Hgen names h Hent). unfold dv_foldM.
  destruct (py_foldM BODY (v_strs names) h) as [h'|x]; cbn [bind]; exact Hgen.
Qed.

(* for f in optional_fields: `_optional` may not name a field that the class body or a base requires *)
Lemma foldM_check_strs (f : unit -> pyval -> res unit) (bad : pystr -> bool) x l :
  (forall n, f tt (PStr n) = if bad n then Raise x else Ok tt) ->
  dv_foldM f (v_strs l) tt = if existsb bad l then Raise x else Ok tt.
Proof.
  intro H. unfold dv_foldM, v_strs. induction l as [|c t IH]; [reflexivity|].
  cbn [map py_foldM existsb]. rewrite H. destruct (bad c); cbn [bind orb]; [reflexivity|exact IH].
Qed.

Theorem new_optional_check_src so X h breq required optional :
  StructMeta_new__for_f so X h (v_names breq) (v_names required) (v_names optional) =
  if existsb (fun f => str_in f required || str_in f breq) optional then Raise ValueError else Ok tt.
Proof.
  unfold StructMeta_new__for_f, v_names. rewrite !deref_list. cbn [dv_iter bind]. fold (v_strs optional).
  rewrite (foldM_check_strs _ (fun f => str_in f required || str_in f breq) ValueError).
  - destruct (existsb _ optional); reflexivity.
  - intro f. cbn [bind]. fold (v_strs required). fold (v_strs breq). rewrite !in_list. cbn [py_or bind].
    destruct (str_in f required); cbn [orb bind]; [reflexivity|]. destruct (str_in f breq); reflexivity.
Qed.

(* setattr(clsobj, "_required", list(set(bases_required + required))): the model's dedup_str (breq ++ required),
   in the order the set iterates *)
Theorem new_required_attr_src so X h c breq required :
  so_ok so ->
  exists req, Permutation req (dedup_str (breq ++ required)) /\
    StructMeta_new__call_setattr_REQUIRED_FIELDS so X h (v_names breq) (ref c) (v_names required) =
    Ok (heap_set h c (s2p "_required") (v_names req)).
Proof.
  intro Hso. unfold StructMeta_new__call_setattr_REQUIRED_FIELDS, v_names. rewrite !deref_list. rewrite add_lists. cbn [bind].
  rewrite deref_list, <- map_app. fold (v_strs (breq ++ required)). rewrite set_of_list. cbn [bind].
  rewrite deref_set. cbn [dv_list_of dv_iter bind].
  destruct (so_strs so (dedup_str (breq ++ required)) Hso) as [req [Eso Hperm]]. rewrite Eso. cbn [bind].
  exists req. split; [exact Hperm|]. unfold ref. cbn [dv_setattr]. rewrite pystr_eqb_refl. reflexivity.
Qed.

(* required = cls_dict.get("_required", default_required): always the entry that
   _apply_default_and_update_required_... stored *)
Theorem new_required_src so X h ents d v :
  alist_get ents (s2p "_required") = Some v ->
  StructMeta_new__set_required so X h (PDict (skeys ents)) d = Ok v.
Proof. intro H. unfold StructMeta_new__set_required. rewrite dict_get_skeys_def, H. reflexivity. Qed.

(* ================================================================== _instantiate_fields_if_needed *)

(* The model's class statement holds Field / Constant OBJECTS (the Field constructors have run: [field_init]);
   a Field class or a function returning a Field, which _instantiate_fields_if_needed would call, is not a
   member of the model.  On such a class dict the function changes nothing.  An entry is left alone when its
   name is a special attribute or starts with "__", when its value is a Field, or when the value is neither a
   class deriving from Field (no Field in its __mro__) nor, according to the oracle, a function returning one. *)
Definition special_attrs : list pystr :=
  map s2p ["_required"; "_additional_properties"; "_additionalProperties"; "_immutable"; "_defaults"; "_optional";
           "_serialization_mapper"; "_deserialization_mapper"; "_ignore_none"; "_enable_undefined_value";
           "_versions_mapping"]%string.

Definition entry_left_alone (X : ext_oracle) (h : heap) (nv : pystr * pyval) : Prop :=
  str_in (fst nv) special_attrs = true \/
  obj_isinstance h (snd nv) (s2p "Field") = Ok true \/
  (obj_isinstance h (snd nv) (s2p "Field") = Ok false /\ starts_with (s2p "__") (fst nv) = true) \/
  (obj_isinstance h (snd nv) (s2p "Field") = Ok false /\
   (exists l, dv_getattr_def h (snd nv) (s2p "__mro__") (PList []) = Ok (PList l) /\ py_in (ref (s2p "Field")) l = false) /\
   X (s2p "is_function_returning_field") h [snd nv] = Ok (h, PBool false, [snd nv])).

Theorem instantiate_frame_src so X h ents defs :
  (forall nv, In nv ents -> entry_left_alone X h nv) ->
  DefineSrc.instantiate_fields_if_needed so X h (PDict (skeys ents)) defs = Ok (h, PNone, PDict (skeys ents)).
Proof.
  intro Hall. unfold DefineSrc.instantiate_fields_if_needed. rewrite items_skeys. cbn [bind].
  rewrite deref_view, iter_items_view. cbn [bind].
  match goal with |- context [@dv_foldM ?S ?F] => set (BODY := F) end.
  assert (Hloop : forall l, (forall nv, In nv l -> entry_left_alone X h nv) -> forall d,
            py_foldM BODY (map v_item l) (h, d) = Ok (h, d)).
  { induction l as [|[n v] t IH]; intros Hl d; [reflexivity|].
    cbn [map py_foldM]. unfold BODY at 1. unfold v_item at 1. cbn [fst snd]. unfold py_unpack. cbn [py_iter_items bind length Nat.eqb].
    name_set_display. cbn [bind]. rewrite deref_set, in_set. cbn [py_not bind].
    match goal with |- context [str_in n ?L] => replace (str_in n L) with (str_in n special_attrs) by (apply str_in_ext; intro x; vm_compute; tauto) end.
    assert (Ht : forall nv, In nv t -> entry_left_alone X h nv) by (intros nv Hnv; apply Hl; right; exact Hnv).
    destruct (Hl (n, v) (or_introl eq_refl)) as [H|[H|[[H1 H2]|[H1 [[l' [H2 H3]] H4]]]]]; cbn [fst snd] in *.
    - rewrite H. cbn [negb bind]. apply IH. exact Ht.
    - destruct (str_in n special_attrs); cbn [negb bind]; [apply IH; exact Ht|]. rewrite H. cbn [py_not bind negb]. apply IH. exact Ht.
    - destruct (str_in n special_attrs); cbn [negb bind]; [apply IH; exact Ht|]. rewrite H1. cbn [py_not bind negb].
      cbn [dv_startswith]. rewrite <- starts_with_eq, H2. cbn [py_not negb bind]. apply IH. exact Ht.
    - destruct (str_in n special_attrs); cbn [negb bind]; [apply IH; exact Ht|]. rewrite H1. cbn [py_not bind negb].
      cbn [dv_startswith]. destruct (PyOpsFields.str_prefix (s2p "__") n); cbn [py_not negb bind]; [apply IH; exact Ht|].
      rewrite H2. cbn [bind]. rewrite deref_list. cbn [dv_in py_in_dyn]. unfold py_in_lit. rewrite H3. cbn [bind].
      rewrite H4. cbn [bind]. rewrite unchanged_refl. cbn [bind py_truthy]. apply IH. exact Ht. }
  unfold dv_foldM. rewrite Hloop by exact Hall. reflexivity.
Qed.

(* ================================================================== the hypotheses are satisfiable; concrete runs *)

Definition nm := s2p.
Definition T : N -> pystr -> bool := fun _ _ => true.
Definition X0 : ext_oracle := fun _ _ _ => Raise Unmodelled.
Definition ex_f_int : field := FNumber KInteger SAny no_numc.
Definition ex_stmt (name : string) (bases : list pystr) (ms : list (pystr * mstmt)) (req : option (list pystr)) : classstmt :=
  {| s_name := nm name; s_bases := bases; s_members := ms; s_required := req; s_optional := None;
     s_additional := None; s_ignore_none := None; s_attrs := []; s_keys_of := [] |}.

(* class A(Structure): x = Integer(); y = Integer(); _required = ["y"]     class M: pass (a mix-in) *)
Definition ex_A : classstmt :=
  ex_stmt "A" [n_Structure] [(nm "x", SDecl ex_f_int false None None); (nm "y", SDecl ex_f_int false None None)] (Some [nm "y"]).
Definition ex_gA : genv :=
  Eval vm_compute in match define T [] default_guards genv0 ex_A with Ok a => mixin (nm "M") :: a :: genv0 | Raise _ => [] end.

Definition ex_gI : genv :=
  Eval vm_compute in match define T [] default_guards genv0 (ex_stmt "I" [n_Immutable] [(nm "a", SDecl ex_f_int false None None)] None) with
                     | Ok i => i :: genv0 | Raise _ => [] end.

(* make_signature: a class body with fields a (required), b (default), x (overriding the base's optional x),
   over the parameters of A *)
Example ex_make_signature :
  sig_inputs_ok [nm "a"; nm "b"; nm "x"] [(nm "y", true); (nm "x", false)] = true /\
  DefineSrc.make_signature (fun l => l) X0 (fun _ _ => None) (v_names [nm "a"; nm "b"; nm "x"]) (v_names [nm "a"; nm "x"])
    (PBool true) (v_params [(nm "y", true); (nm "x", false)]) (v_names [nm "y"]) (v_keys []) =
  Ok (v_sig [nm "y"; nm "x"; nm "a"] [nm "b"] true) /\
  Define.make_signature [nm "a"; nm "b"; nm "x"] [nm "a"; nm "x"] [(nm "y", true); (nm "x", false)] [] =
  Ok {| sg_req := [nm "y"; nm "x"; nm "a"]; sg_opt := [nm "b"] |} /\
  (* a field with a default that a base requires: duplicate parameter *)
  DefineSrc.make_signature (fun l => l) X0 (fun _ _ => None) (v_names [nm "y"]) (v_names [])
    (PBool true) (v_params [(nm "y", true)]) (v_names [nm "y"]) (v_keys []) = Raise ValueError.
Proof. repeat split; vm_compute; reflexivity. Qed.

(* get_base_info / _check_for_final_violations on the environment {Structure..., A, M} *)
Example ex_get_base_info :
  bases_ok ex_gA (fun _ => []) [nm "M"; nm "A"] = true /\
  base_info default_guards ex_gA [nm "M"; nm "A"] [] false = Ok [(nm "y", true); (nm "x", false)] /\
  DefineSrc.get_base_info (fun l => l) X0 (genv_heap default_guards ex_gA (fun _ => [])) (PTuple (v_refs [nm "M"; nm "A"])) =
  Ok (PTuple [v_params [(nm "y", true); (nm "x", false)]; v_names [nm "y"]]) /\
  DefineSrc.check_for_final_violations (fun l => l) X0 (genv_heap default_guards ex_gA (fun _ => []))
    (PList (v_refs [nm "B"; nm "A"; n_Structure])) = Ok PNone /\
  (* class I(ImmutableStructure); class J(I): refused *)
  DefineSrc.check_for_final_violations (fun l => l) X0 (genv_heap default_guards ex_gI (fun _ => []))
    (PList (v_refs [nm "J"; nm "I"; n_Immutable; n_Structure])) = Raise TypeError /\
  DefineSrc.check_for_final_violations (fun l => l) X0 (genv_heap default_guards ex_gI (fun _ => []))
    (PList (v_refs [nm "I"; n_Immutable; n_Structure])) = Ok PNone /\
  mro_plain ex_gA [nm "A"; n_Structure] = true /\
  DefineSrc.get_all_fields_by_name (fun l => l) X0 (genv_heap default_guards ex_gA (fun _ => [])) (ref (nm "A")) =
  Ok (PDict (skeys [(nm "x", ref (member_obj (nm "A") (nm "x"))); (nm "y", ref (member_obj (nm "A") (nm "y")))])).
Proof. repeat split; vm_compute; reflexivity. Qed.

(* _block_invalid_consts: `flag = True` is refused, an annotated name and a known attribute are not *)
Example ex_block_invalid_consts :
  let ents := [(nm "__annotations__", PDict (skeys [(nm "a", PStr (nm "Integer"))]));
               (nm "a", PBool true); (nm "_required", PList []); (nm "flag", PBool true)] in
  annotations_are (fun _ _ => None) ents [(nm "a", PStr (nm "Integer"))] /\
  DefineSrc.block_invalid_consts (fun l => l) X0 (fun _ _ => None) (PDict (skeys ents)) = Raise ValueError /\
  DefineSrc.block_invalid_consts (fun l => l) X0 (fun _ _ => None) (PDict (skeys (firstn 3 ents))) = Ok PNone.
Proof. repeat split; vm_compute; reflexivity. Qed.

(* _apply_default_and_update_required_...: `a: Integer = 5`, `b: Integer` with _required absent *)
Definition ex_pre : members :=
  [(nm "a", MField {| fo_field := ex_f_int; fo_immutable := false; fo_default := None |});
   (nm "b", MField {| fo_field := ex_f_int; fo_immutable := false; fo_default := None |})].
Definition ex_defs : list (pystr * defval) := [(nm "a", DLit (PNum (NInt 5)))].
Definition ex_ents : list (pystr * pyval) := [(nm "a", fld_ref (nm "a")); (nm "b", fld_ref (nm "b"))].
Definition ex_X : ext_oracle :=
  fun name hh args =>
    match args with
    | [r; v] => match vset T [] ex_f_int v with Ok _ => Ok (hh, PNone, args) | Raise x => Raise x end
    | _ => Raise Unmodelled
    end.

Example ex_apply_default :
  defaults_normal ex_pre = true /\ forallb (member_ok ex_defs) ex_pre = true /\
  forallb (fun nd => eqd_plain (snd nd)) ex_defs = true /\
  (exists h',
     DefineSrc.apply_default_and_update_required (fun l => l) ex_X (members_heap (fun _ _ => None) ex_pre)
       (PDict (skeys ex_ents)) (v_defs ex_defs) (v_names [nm "a"; nm "b"]) =
     Ok (h', PNone, PDict (skeys (ex_ents ++ [(nm "_required", v_names [nm "b"])]))) /\
     h' (fobj (nm "a")) n__default = Some (PNum (NInt 5))) /\
  own_required (ex_stmt "C" [n_Structure] [] None)
    [(nm "a", MField {| fo_field := ex_f_int; fo_immutable := false; fo_default := Some (DLit (PNum (NInt 5))) |});
     (nm "b", MField {| fo_field := ex_f_int; fo_immutable := false; fo_default := None |})] = [nm "b"].
Proof.
  split; [reflexivity|]. split; [reflexivity|]. split; [reflexivity|]. split; [|reflexivity].
  eexists. split; [vm_compute; reflexivity|]. vm_compute. reflexivity.
Qed.

(* the oracle hypothesis of apply_default_src holds for this oracle *)
Example ex_apply_default_oracle : forall hh n fo v, alist_get ex_pre n = Some (MField fo) ->
  ex_X (s2p "._try_default_value") hh [fld_ref n; v] =
  match vset T [] (fo_field fo) v with Ok _ => Ok (hh, PNone, [fld_ref n; v]) | Raise x => Raise x end.
Proof.
  intros hh n fo v H. unfold ex_pre in H. cbn [alist_get] in H.
  destruct (pystr_eqb (nm "a") n); [inversion H; subst; reflexivity|].
  destruct (pystr_eqb (nm "b") n); [inversion H; subst; reflexivity|discriminate].
Qed.

(* StructMeta.__new__, statement by statement *)
Example ex_new_statements :
  StructMeta_new__for_f (fun l => l) X0 (fun _ _ => None) (v_names [nm "y"]) (v_names [nm "b"]) (v_names [nm "y"]) = Raise ValueError /\
  StructMeta_new__for_f (fun l => l) X0 (fun _ _ => None) (v_names [nm "y"]) (v_names [nm "b"]) (v_names [nm "a"]) = Ok tt /\
  (match StructMeta_new__for_field_name (fun l => l) X0 (fun _ _ => None) (PDict (skeys ex_ents)) (v_names [nm "a"; nm "_b"]) with
   | Raise ValueError => true | _ => false end) = true.
Proof. repeat split; vm_compute; reflexivity. Qed.

(* ------------------------------------------------------------------ assumptions *)
Print Assumptions make_signature_src.
Print Assumptions check_final_src.
Print Assumptions get_base_info_src.
Print Assumptions block_invalid_consts_gen.
Print Assumptions block_invalid_consts_src.
Print Assumptions apply_default_src.
Print Assumptions build_members_two_phases.
Print Assumptions get_all_fields_by_name_src.
Print Assumptions fields_of_mro_fold.
Print Assumptions mro_fold_map.
Print Assumptions fields_of_mro_names.
Print Assumptions instantiate_frame_src.
Print Assumptions new_field_names_src.
Print Assumptions new_optional_check_src.
Print Assumptions new_required_attr_src.
Print Assumptions new_required_src.
