(* The tie between the GENERATED translation of the class-definition code of typedpy/structures/structures.py
   (Gen/DefineSrc.v: what make_signature, get_base_info, _check_for_final_violations, _block_invalid_consts,
   _get_all_fields_by_name, _apply_default_and_update_required_not_to_include_fields_with_defaults say NOW) and the
   hand-written model on which the C14 / C13 / C16 theorems are proved: Struct/Define.v.

   Every theorem is about EVERY model-level input.  How a model-level description is seen as the Python-level
   arguments is said by the [v_...] definitions in front of each theorem:
     a list of names               the list  [PStr n; ...]                                    [v_names]
     the parameters of the bases   the dict  name -> inspect.Parameter(name, POSITIONAL_OR_KEYWORD[, default=None])
                                                                                               [v_params]
     a class environment [genv]    a heap in which class c is the object "c" with __mro__, __signature__,
                                   __dict__, isinstance(c, StructMeta)                         [genv_heap]
   The iteration order of a set is an oracle [so]; the theorems hold for every oracle that permutes ([so_ok]),
   and say how the result depends on it (a permutation of the required parameters). *)
From Coq Require Import ZArith NArith String Ascii Bool Lia List Permutation.
Import ListNotations.
From TP Require Import Base.PyVal Base.PyEq Base.PyOps Base.PyOps2 Base.PyObj Base.PyOpsDerive Base.PyOpsDefine
     Fields.FieldAst Fields.SetChain Struct.Define Struct.DefineProofs Gen.DefineSrc.
From TP Require Base.PyOpsFields Base.PyOpsVersioned.

Definition so_ok (so : set_order) : Prop := forall l, Permutation (so l) l.

Lemma so_ok_id : so_ok (fun l => l).
Proof. intro l. apply Permutation_refl. Qed.

(* ------------------------------------------------------------------ lists of names as Python lists of str *)

Definition v_names (l : list pystr) : pyval := PList (map PStr l).
Definition v_strs (l : list pystr) : list pyval := map PStr l.

Lemma py_eq_str a b : py_eq (PStr a) (PStr b) = pystr_eqb a b.
Proof. reflexivity. Qed.

Lemma hashable_strs l : forallb py_hashable' (v_strs l) = true.
Proof. induction l as [|x t IH]; [reflexivity|]. cbn [v_strs map forallb py_hashable' andb]. exact IH. Qed.

Lemma py_in_strs n l : py_in (PStr n) (v_strs l) = str_in n l.
Proof.
  unfold py_in, str_in, v_strs. induction l as [|x t IH]; [reflexivity|].
  cbn [map existsb]. rewrite py_eq_str, IH. reflexivity.
Qed.

Lemma filter_ext_in' {A} (f g : A -> bool) l : (forall x, In x l -> f x = g x) -> filter f l = filter g l.
Proof.
  induction l as [|x t IH]; intro H; [reflexivity|]. cbn [filter].
  rewrite (H x (or_introl eq_refl)). rewrite IH; [reflexivity|]. intros y Hy. apply H. right. exact Hy.
Qed.

Lemma filter_strs (p : pystr -> bool) (q : pyval -> bool) l :
  (forall n, q (PStr n) = p n) -> filter q (v_strs l) = v_strs (filter p l).
Proof.
  intro H. unfold v_strs. induction l as [|x t IH]; [reflexivity|].
  cbn [map filter]. rewrite H. destruct (p x); cbn [map]; [f_equal|]; exact IH.
Qed.

Lemma filter_filter {A} (p q : A -> bool) l : filter p (filter q l) = filter (fun x => q x && p x) l.
Proof.
  induction l as [|x t IH]; [reflexivity|]. cbn [filter]. destruct (q x); cbn [filter andb].
  - destruct (p x); [f_equal|]; exact IH.
  - exact IH.
Qed.

Lemma filter_dedup_str p l : filter p (dedup_str l) = dedup_str (filter p l).
Proof.
  induction l as [|x t IH]; [reflexivity|]. cbn [dedup_str filter].
  destruct (p x) eqn:Hp; cbn [dedup_str].
  - f_equal. rewrite <- IH, !filter_filter. apply filter_ext. intro y. apply andb_comm.
  - rewrite <- IH, filter_filter. apply filter_ext. intro y.
    destruct (pystr_eqb y x) eqn:E; cbn [negb andb]; [|reflexivity].
    apply pystr_eqb_spec in E; subst. symmetry; exact Hp.
Qed.

(* order-preserving de-duplication of a list of str *)
Lemma py_dedup_aux_strs l : forall seen,
  py_dedup_aux (v_strs seen) (v_strs l) =
  v_strs (rev seen ++ dedup_str (filter (fun n => negb (str_in n seen)) l)).
Proof.
  induction l as [|x t IH]; intro seen.
  - cbn [v_strs map py_dedup_aux filter dedup_str]. rewrite app_nil_r. unfold v_strs. rewrite map_rev. reflexivity.
  - cbn [v_strs map py_dedup_aux filter]. fold (v_strs seen). fold (v_strs t). rewrite py_in_strs.
    destruct (str_in x seen) eqn:Hx; cbn [negb].
    + apply IH.
    + change (PStr x :: v_strs seen) with (v_strs (x :: seen)). rewrite IH.
      cbn [rev dedup_str]. rewrite <- app_assoc. cbn [app]. do 3 f_equal.
      rewrite filter_dedup_str, filter_filter. f_equal. apply filter_ext. intro y.
      cbn [str_in existsb]. fold (str_in y seen). rewrite negb_orb. apply andb_comm.
Qed.

Lemma py_dedup_strs l : py_dedup (v_strs l) = v_strs (dedup_str l).
Proof.
  unfold py_dedup. change (@nil pyval) with (v_strs []). rewrite py_dedup_aux_strs.
  cbn [rev app]. f_equal. f_equal. induction l as [|x t IH]; [reflexivity|]. cbn [filter str_in existsb negb]. f_equal. exact IH.
Qed.

Lemma str_in_dedup n l : str_in n (dedup_str l) = str_in n l.
Proof.
  destruct (str_in n l) eqn:E.
  - apply str_in_In. apply (proj2 (In_dedup_str n l)). apply str_in_In. exact E.
  - apply str_in_false. intro H. apply (proj1 (In_dedup_str n l)) in H. exact (proj1 (str_in_false n l) E H).
Qed.

Lemma Permutation_filter {A} (p : A -> bool) l l' : Permutation l l' -> Permutation (filter p l) (filter p l').
Proof.
  induction 1 as [|x l l' _ IH|x y l|l l' l'' _ IH1 _ IH2]; cbn [filter].
  - constructor.
  - destruct (p x); [constructor|]; exact IH.
  - destruct (p x), (p y); try apply perm_swap; try apply Permutation_refl.
  - eapply Permutation_trans; eassumption.
Qed.

Lemma str_in_perm n l l' : Permutation l l' -> str_in n l = str_in n l'.
Proof.
  intro H. destruct (str_in n l') eqn:E.
  - apply str_in_In. apply str_in_In in E. eapply Permutation_in; [apply Permutation_sym; exact H|exact E].
  - apply str_in_false. intro Hin. apply (proj1 (str_in_false n l') E). eapply Permutation_in; eassumption.
Qed.

(* what the oracle does to a list of str *)
Lemma so_strs so l : so_ok so -> exists l', so (v_strs l) = v_strs l' /\ Permutation l' l.
Proof.
  intro H. pose proof (H (v_strs l)) as P. unfold v_strs in P at 2.
  apply Permutation_map_inv in P. destruct P as [l' [E P]].
  exists l'. split; [exact E|apply Permutation_sym; exact P].
Qed.

(* ------------------------------------------------------------------ dicts with str keys *)

Definition skeys (l : list (pystr * pyval)) : list (pyval * pyval) := map (fun p => (PStr (fst p), snd p)) l.

Lemma dict_get_skeys l n : dict_get (skeys l) (PStr n) = alist_get l n.
Proof.
  induction l as [|[k v] t IH]; [reflexivity|].
  cbn [skeys map fst snd dict_get alist_get]. rewrite py_eq_str. destruct (pystr_eqb k n); [reflexivity|exact IH].
Qed.

Lemma dict_has_skeys l n : dict_has (skeys l) (PStr n) = alist_has l n.
Proof. unfold dict_has, alist_has. rewrite dict_get_skeys. reflexivity. Qed.

Lemma dict_set_skeys l n v : dict_set (skeys l) (PStr n) v = skeys (alist_set l n v).
Proof.
  induction l as [|[k x] t IH]; [reflexivity|].
  cbn [skeys map fst snd dict_set alist_set]. rewrite py_eq_str.
  destruct (pystr_eqb k n); [reflexivity|]. cbn [map fst snd]. f_equal. exact IH.
Qed.

Lemma skeys_app a b : skeys (a ++ b) = skeys a ++ skeys b.
Proof. apply map_app. Qed.

Lemma alist_has_str_in {A} (l : list (pystr * A)) n : alist_has l n = str_in n (map fst l).
Proof.
  unfold alist_has. induction l as [|[k v] t IH]; [reflexivity|].
  cbn [alist_get map fst str_in existsb]. rewrite (pystr_eqb_sym n k). destruct (pystr_eqb k n); [reflexivity|exact IH].
Qed.

Lemma alist_set_keys {A} (l : list (pystr * A)) n v : map fst (alist_set l n v) = add_str n (map fst l).
Proof.
  unfold add_str. induction l as [|[k y] t IH]; [reflexivity|].
  cbn [alist_set map fst str_in existsb]. rewrite (pystr_eqb_sym n k).
  destruct (pystr_eqb k n) eqn:E; cbn [orb map fst]; [reflexivity|].
  rewrite IH. fold (str_in n (map fst t)). destruct (str_in n (map fst t)); reflexivity.
Qed.

(* {**a, **b} on association lists *)
Definition alist_merge {A} (a b : list (pystr * A)) : list (pystr * A) :=
  fold_left (fun acc p => alist_set acc (fst p) (snd p)) b a.

Lemma alist_merge_keys {A} (a b : list (pystr * A)) :
  map fst (alist_merge a b) = merge_names (map fst a) (map fst b).
Proof.
  unfold alist_merge, merge_names. revert a. induction b as [|[k v] t IH]; intro a; [reflexivity|].
  cbn [fold_left map fst snd]. rewrite IH, alist_set_keys. reflexivity.
Qed.

Lemma alist_merge_get {A} (a b : list (pystr * A)) n :
  NoDup (map fst b) ->
  alist_get (alist_merge a b) n = match alist_get b n with Some v => Some v | None => alist_get a n end.
Proof.
  unfold alist_merge. revert a. induction b as [|[k v] t IH]; intros a Hnd; [reflexivity|].
  cbn [map fst] in Hnd. inversion Hnd as [|? ? Hk Hd]; subst.
  cbn [fold_left fst snd alist_get]. rewrite (IH _ Hd).
  destruct (pystr_eqb k n) eqn:E.
  - apply pystr_eqb_spec in E; subst.
    assert (Ht : alist_get t n = None) by (apply alist_get_None_notin; exact Hk).
    rewrite Ht. apply alist_get_set_same.
  - destruct (alist_get t n); [reflexivity|]. apply alist_get_set_other. intro; subst. rewrite pystr_eqb_refl in E. discriminate.
Qed.

Lemma alist_merge_NoDup {A} (a b : list (pystr * A)) : NoDup (map fst a) -> NoDup (map fst (alist_merge a b)).
Proof.
  unfold alist_merge. revert a. induction b as [|[k v] t IH]; intros a H; [exact H|].
  cbn [fold_left]. apply IH. apply alist_set_NoDup. exact H.
Qed.

(* an association list with distinct keys is determined by its keys and its lookup function *)
Lemma alist_rebuild {A} (l : list (pystr * A)) (F : pystr -> A) :
  NoDup (map fst l) -> (forall n, In n (map fst l) -> alist_get l n = Some (F n)) ->
  l = map (fun n => (n, F n)) (map fst l).
Proof.
  induction l as [|[k v] t IH]; intros Hnd H; [reflexivity|].
  cbn [map fst] in *. inversion Hnd as [|? ? Hk Hd]; subst.
  pose proof (H k (or_introl eq_refl)) as Hkv. cbn [alist_get] in Hkv. rewrite pystr_eqb_refl in Hkv.
  inversion Hkv; subst. f_equal. apply IH; [exact Hd|].
  intros n Hn. specialize (H n (or_intror Hn)). cbn [alist_get] in H.
  destruct (pystr_eqb k n) eqn:E; [|exact H]. apply pystr_eqb_spec in E; subst. contradiction.
Qed.

Lemma alist_get_uniform {A} (F : pystr -> A) l n :
  alist_get (map (fun x => (x, F x)) l) n = if str_in n l then Some (F n) else None.
Proof.
  induction l as [|x t IH]; [reflexivity|]. cbn [map alist_get str_in existsb].
  rewrite (pystr_eqb_sym n x). destruct (pystr_eqb x n) eqn:E; cbn [orb]; [|exact IH].
  apply pystr_eqb_spec in E; subst. reflexivity.
Qed.

Lemma map_fst_uniform {A} (F : pystr -> A) l : map fst (map (fun x => (x, F x)) l) = l.
Proof. rewrite map_map. cbn [fst]. apply map_id. Qed.

Lemma merge_names_app a b : NoDup b -> merge_names a b = a ++ filter (fun n => negb (str_in n a)) b.
Proof.
  unfold merge_names. revert a. induction b as [|x t IH]; intros a Hnd; cbn [fold_left filter].
  - rewrite app_nil_r. reflexivity.
  - inversion Hnd as [|? ? Hx Hd]; subst. rewrite (IH _ Hd). unfold add_str.
    destruct (str_in x a) eqn:E; cbn [negb].
    + reflexivity.
    + rewrite <- app_assoc. cbn [app]. do 2 f_equal. apply filter_ext_in'. intros y Hy.
      unfold str_in. rewrite existsb_app. cbn [existsb]. fold (str_in y a).
      destruct (pystr_eqb y x) eqn:E2; [|rewrite !orb_false_r; reflexivity].
      apply pystr_eqb_spec in E2; subst. contradiction.
Qed.

Lemma In_merge_names x a b : In x (merge_names a b) <-> In x a \/ In x b.
Proof.
  unfold merge_names. revert a. induction b as [|y t IH]; intro a; cbn [fold_left In]; [tauto|].
  rewrite IH, In_add_str. intuition (subst; auto).
Qed.

Lemma NoDup_add_str n l : NoDup l -> NoDup (add_str n l).
Proof.
  intro H. unfold add_str. destruct (str_in n l) eqn:E; [exact H|].
  apply NoDup_rev in H. rewrite <- (rev_involutive (l ++ [n])). apply NoDup_rev. rewrite rev_app_distr. cbn [rev app].
  constructor; [|exact H]. intro Hin. apply in_rev in Hin. exact (proj1 (str_in_false n l) E Hin).
Qed.

Lemma NoDup_merge_names a b : NoDup a -> NoDup (merge_names a b).
Proof.
  unfold merge_names. revert a. induction b as [|y t IH]; intros a H; [exact H|]. cbn [fold_left]. apply IH.
  apply NoDup_add_str. exact H.
Qed.

Lemma NoDup_fst_filter {A} (p : pystr * A -> bool) l : NoDup (map fst l) -> NoDup (map fst (filter p l)).
Proof.
  induction l as [|[k v] t IH]; intro H; [constructor|].
  cbn [map fst] in H. inversion H as [|? ? Hk Hd]; subst. cbn [filter]. destruct (p (k, v)); [|apply IH; exact Hd].
  cbn [map fst]. constructor; [|apply IH; exact Hd]. intro Hin. apply Hk. apply in_map_iff in Hin as [[k' v'] [E Hin]].
  cbn [fst] in E; subst. apply filter_In in Hin as [Hin _]. apply in_map_iff. exists (k, v'). split; [reflexivity|exact Hin].
Qed.

(* ------------------------------------------------------------------ the operators on these views *)

Lemma deref_list h l : deref h (PList l) = PList l. Proof. reflexivity. Qed.
Lemma deref_tuple h l : deref h (PTuple l) = PTuple l. Proof. reflexivity. Qed.
Lemma deref_set h f l : deref h (PSet f l) = PSet f l. Proof. reflexivity. Qed.
Lemma deref_dict h kv : deref h (PDict kv) = PDict kv. Proof. reflexivity. Qed.
Lemma deref_struct h c a : deref h (PStruct c a) = PStruct c a. Proof. reflexivity. Qed.
Lemma deref_bool h b : deref h (PBool b) = PBool b. Proof. reflexivity. Qed.
Lemma deref_str h s : deref h (PStr s) = PStr s. Proof. reflexivity. Qed.
Lemma deref_none h : deref h PNone = PNone. Proof. reflexivity. Qed.
Lemma deref_view h t l : deref h (mk_view t l) = mk_view t l. Proof. reflexivity. Qed.

Lemma bind_Ok {A B} (a : A) (f : A -> res B) : bind (Ok a) f = f a.
Proof. reflexivity. Qed.

Lemma set_of_list so l : dv_set_of so (PList (v_strs l)) = Ok (PSet false (v_strs (dedup_str l))).
Proof. unfold dv_set_of. cbn [dv_iter bind]. rewrite hashable_strs, py_dedup_strs. reflexivity. Qed.

Definition v_keys (l : list pystr) : pyval := mk_view dict_keys_tag (v_strs l).

Lemma iter_keys so l : dv_iter so (v_keys l) = Ok (v_strs l).
Proof. reflexivity. Qed.

Lemma set_of_keys so l : dv_set_of so (v_keys l) = Ok (PSet false (v_strs (dedup_str l))).
Proof. unfold dv_set_of. rewrite iter_keys. cbn [bind]. rewrite hashable_strs, py_dedup_strs. reflexivity. Qed.

Lemma keys_skeys al : dv_keys (PDict (skeys al)) = Ok (v_keys (map fst al)).
Proof. unfold dv_keys. cbn [dict_kv bind]. unfold v_keys, v_strs, skeys. rewrite !map_map. reflexivity. Qed.

Lemma bitor_strs f a b :
  dv_bitor (PSet f (v_strs a)) (PSet false (v_strs b)) =
  Ok (PSet f (v_strs (a ++ filter (fun n => negb (str_in n a)) b))).
Proof.
  unfold dv_bitor. cbn [as_setlike left_frozen]. do 2 f_equal.
  transitivity (v_strs a ++ v_strs (filter (fun n => negb (str_in n a)) b)); [|unfold v_strs; rewrite map_app; reflexivity].
  f_equal. apply filter_strs. intro n. rewrite py_in_strs. reflexivity.
Qed.

Lemma minus_strs f a c :
  dv_minus (PSet f (v_strs a)) (PSet false (v_strs c)) =
  Ok (PSet f (v_strs (filter (fun n => negb (str_in n c)) a))).
Proof.
  unfold dv_minus. cbn [as_setlike left_frozen]. do 2 f_equal.
  apply filter_strs. intro n. rewrite py_in_strs. reflexivity.
Qed.

Lemma in_list n l : dv_in (PStr n) (PList (v_strs l)) = Ok (str_in n l).
Proof. cbn [dv_in py_in_dyn]. unfold py_in_lit. rewrite py_in_strs. reflexivity. Qed.

Lemma in_set n f l : dv_in (PStr n) (PSet f (v_strs l)) = Ok (str_in n l).
Proof. cbn [dv_in py_in_dyn]. unfold py_in_hashed. cbn [py_hashable']. rewrite py_in_strs. reflexivity. Qed.

Lemma in_keys n l : dv_in (PStr n) (v_keys l) = Ok (str_in n l).
Proof.
  unfold dv_in, v_keys, mk_view. cbn [as_view]. rewrite !pystr_eqb_refl. cbn [andb orb].
  unfold py_in_hashed. cbn [py_hashable']. rewrite py_in_strs. reflexivity.
Qed.

Lemma in_skeys n al : dv_in (PStr n) (PDict (skeys al)) = Ok (alist_has al n).
Proof. cbn [dv_in py_in_dyn py_hashable']. rewrite dict_has_skeys. reflexivity. Qed.

(* comprehensions over a list of str / over the items of a dict with str keys *)
Lemma comp_strs (f : pyval -> res (option pyval)) (p : pystr -> bool) (g : pystr -> pyval) l :
  (forall n, In n l -> f (PStr n) = Ok (if p n then Some (g n) else None)) ->
  dv_comp f (v_strs l) = Ok (map g (filter p l)).
Proof.
  unfold dv_comp, v_strs. induction l as [|x t IH]; intro H; [reflexivity|].
  cbn [map PyOpsFields.filterM filter]. rewrite (H x (or_introl eq_refl)). cbn [bind].
  rewrite IH by (intros n Hn; apply H; right; exact Hn). cbn [bind]. destruct (p x); reflexivity.
Qed.

Definition v_item (p : pystr * pyval) : pyval := PTuple [PStr (fst p); snd p].

Lemma comp_items (f : pyval -> res (option pyval)) (p : pystr * pyval -> bool) (g : pystr * pyval -> pyval) al :
  (forall x, In x al -> f (v_item x) = Ok (if p x then Some (g x) else None)) ->
  dv_comp f (map v_item al) = Ok (map g (filter p al)).
Proof.
  unfold dv_comp. induction al as [|x t IH]; intro H; [reflexivity|].
  cbn [map PyOpsFields.filterM filter]. rewrite (H x (or_introl eq_refl)). cbn [bind].
  rewrite IH by (intros n Hn; apply H; right; exact Hn). cbn [bind]. destruct (p x); reflexivity.
Qed.

Lemma items_skeys al : dv_items (PDict (skeys al)) = Ok (mk_view dict_items_tag (map v_item al)).
Proof. unfold dv_items. cbn [dict_kv bind]. unfold skeys. rewrite map_map. reflexivity. Qed.

Lemma iter_items_view so l : dv_iter so (mk_view dict_items_tag l) = Ok l.
Proof. reflexivity. Qed.

Lemma values_skeys al : dv_values (PDict (skeys al)) = Ok (mk_view dict_values_tag (map snd al)).
Proof. unfold dv_values. cbn [dict_kv bind]. unfold skeys. rewrite map_map. reflexivity. Qed.

Lemma list_of_values so l : dv_list_of so (mk_view dict_values_tag l) = Ok (PList l).
Proof. reflexivity. Qed.

(* dict(pairs) for pairs with distinct str keys *)
Lemma dict_build_skeys al : forall acc,
  NoDup (map fst (acc ++ al)) ->
  PyOpsFields.dict_build (skeys acc) (skeys al) = Ok (skeys (acc ++ al)).
Proof.
  induction al as [|[k v] t IH]; intros acc Hnd.
  - cbn [skeys map PyOpsFields.dict_build]. rewrite app_nil_r. reflexivity.
  - cbn [skeys map fst snd PyOpsFields.dict_build py_hashable']. fold (skeys t). fold (skeys acc).
    rewrite dict_set_skeys. rewrite alist_set_absent.
    + rewrite IH; rewrite <- app_assoc; [reflexivity|exact Hnd].
    + rewrite map_app in Hnd. cbn [map fst] in Hnd. apply NoDup_remove_2 in Hnd.
      intro Hin. apply Hnd. apply in_or_app. left. exact Hin.
Qed.

Lemma dict_of_items so al :
  NoDup (map fst al) -> dv_dict_of so (PList (map v_item al)) = Ok (PDict (skeys al)).
Proof.
  intro Hnd. unfold dv_dict_of. cbn [dv_iter bind].
  assert (E : mapM (fun it => p <- py_unpack 2 false it ;; match p with [k; x] => Ok (k, x) | _ => Raise Unmodelled end)
                   (map v_item al) = Ok (skeys al)).
  { clear Hnd. induction al as [|[k v] t IH]; [reflexivity|].
    cbn [map mapM v_item fst snd]. unfold py_unpack at 1. cbn [py_iter_items bind length Nat.eqb].
    rewrite IH. reflexivity. }
  rewrite E. cbn [bind]. unfold PyOpsFields.py_dict_of. change (@nil (pyval * pyval)) with (skeys []).
  rewrite dict_build_skeys by exact Hnd. reflexivity.
Qed.

Lemma dict_merge_skeys a b :
  dv_dict_merge (PDict (skeys a)) (PDict (skeys b)) = Ok (PDict (skeys (alist_merge a b))).
Proof.
  unfold dv_dict_merge, PyOpsFields.py_dict_merge, alist_merge. do 2 f_equal.
  revert a. induction b as [|[k v] t IH]; intro a; [reflexivity|].
  cbn [skeys map fold_left fst snd]. fold (skeys t). rewrite dict_set_skeys. apply IH.
Qed.

Lemma add_lists a b : dv_add (PList a) (PList b) = Ok (PList (a ++ b)).
Proof. reflexivity. Qed.

(* ------------------------------------------------------------------ inspect.Parameter / inspect.Signature *)

Definition K_POK : pyval := param_kind (s2p "POSITIONAL_OR_KEYWORD") 1.
Definition K_VKW : pyval := param_kind (s2p "VAR_KEYWORD") 4.
Definition n_kwargs : pystr := s2p "kwargs".

(* Parameter(n, POSITIONAL_OR_KEYWORD)  /  Parameter(n, POSITIONAL_OR_KEYWORD, default=None) *)
Definition v_param (n : pystr) (req : bool) : pyval :=
  PStruct param_tag [(n_name, PStr n); (n_kind, K_POK); (n_default, if req then param_empty else PNone)].
(* Parameter("kwargs", VAR_KEYWORD) *)
Definition v_kwargs_param : pyval :=
  PStruct param_tag [(n_name, PStr n_kwargs); (n_kind, K_VKW); (n_default, param_empty)].

Lemma attr_POK : inspect_attr (s2p "Parameter") (s2p "POSITIONAL_OR_KEYWORD") = Ok K_POK.
Proof. reflexivity. Qed.
Lemma attr_VKW : inspect_attr (s2p "Parameter") (s2p "VAR_KEYWORD") = Ok K_VKW.
Proof. reflexivity. Qed.
Lemma kind_index_POK : kind_index K_POK = Some 1%Z. Proof. reflexivity. Qed.
Lemma kind_index_VKW : kind_index K_VKW = Some 4%Z. Proof. reflexivity. Qed.

Lemma alnum_ascii c : ch_alnum c = true -> N.ltb c 128 = true.
Proof.
  unfold ch_alnum, ch_alpha. intro H. apply N.ltb_lt.
  repeat (apply orb_true_iff in H; destruct H as [H|H]);
    try (apply andb_true_iff in H; destruct H as [_ H]; apply N.leb_le in H; lia).
  apply N.eqb_eq in H. lia.
Qed.

Lemma ident_shape s : ascii_identifier s = true ->
  is_ascii s = true /\ match s with c :: _ => N.eqb c 46 = false | [] => False end.
Proof.
  destruct s as [|c t]; [discriminate|]. cbn [ascii_identifier]. intro H.
  apply andb_true_iff in H as [H1 H2]. split.
  - cbn [is_ascii forallb]. rewrite (alnum_ascii c) by (unfold ch_alnum; rewrite H1; reflexivity). cbn [andb].
    induction t as [|x t IH]; [reflexivity|]. cbn [forallb] in *. apply andb_true_iff in H2 as [H2 H3].
    rewrite (alnum_ascii x H2). cbn [andb]. apply IH. exact H3.
  - unfold ch_alpha in H1. destruct (N.eqb_spec c 46) as [->|]; [vm_compute in H1; discriminate|reflexivity].
Qed.

Lemma Parameter_POK n d : valid_param_name n = true ->
  dv_Parameter (PStr n) K_POK d =
  Ok (PStruct param_tag [(n_name, PStr n); (n_kind, K_POK); (n_default, match d with Some x => x | None => param_empty end)]).
Proof.
  intro H. unfold dv_Parameter. rewrite kind_index_POK.
  replace (match d with Some _ => (1 =? 2)%Z || (1 =? 4)%Z | None => false end) with false by (destruct d; reflexivity).
  pose proof H as Hv. unfold valid_param_name in H. apply andb_true_iff in H as [H _].
  destruct (ident_shape n H) as [Ha Hc]. destruct n as [|c t]; [contradiction|].
  rewrite Ha, Hc, Hv. reflexivity.
Qed.

Lemma Parameter_req n : valid_param_name n = true -> dv_Parameter (PStr n) K_POK None = Ok (v_param n true).
Proof. apply Parameter_POK. Qed.
Lemma Parameter_opt n : valid_param_name n = true -> dv_Parameter (PStr n) K_POK (Some PNone) = Ok (v_param n false).
Proof. apply Parameter_POK. Qed.
Lemma Parameter_kwargs : dv_Parameter (PStr (s2p "kwargs")) K_VKW None = Ok v_kwargs_param.
Proof. reflexivity. Qed.

Lemma param_fields_v n r : param_fields (v_param n r) = Some (n, 1%Z, if r then param_empty else PNone).
Proof. unfold param_fields, v_param. rewrite !pystr_eqb_refl. cbn [andb]. rewrite kind_index_POK. reflexivity. Qed.

Lemma param_fields_kw : param_fields v_kwargs_param = Some (n_kwargs, 4%Z, param_empty).
Proof. reflexivity. Qed.

(* adding parameters one after the other, None on a duplicate name *)
Fixpoint add_all (acc l : list (pystr * pyval)) : option (list (pystr * pyval)) :=
  match l with
  | [] => Some acc
  | (n, v) :: t => if alist_has acc n then None else add_all (acc ++ [(n, v)]) t
  end.

Lemma add_all_app acc l1 l2 :
  add_all acc (l1 ++ l2) = match add_all acc l1 with Some a => add_all a l2 | None => None end.
Proof.
  revert acc. induction l1 as [|[n v] t IH]; intro acc; [reflexivity|].
  cbn [app add_all]. destruct (alist_has acc n); [reflexivity|apply IH].
Qed.

Lemma add_all_spec l : forall acc, NoDup (map fst acc) ->
  add_all acc l = if has_dup_str (map fst acc ++ map fst l) then None else Some (acc ++ l).
Proof.
  induction l as [|[n v] t IH]; intros acc Hnd.
  - cbn [add_all map]. rewrite !app_nil_r. rewrite (NoDup_has_dup_false _ Hnd). reflexivity.
  - cbn [add_all map fst]. destruct (alist_has acc n) eqn:E.
    + assert (Hd : has_dup_str (map fst acc ++ n :: map fst t) = true).
      { destruct (has_dup_str (map fst acc ++ n :: map fst t)) eqn:E2; [reflexivity|].
        apply has_dup_false_NoDup in E2. apply NoDup_remove_2 in E2. exfalso. apply E2.
        apply in_or_app. left. apply alist_has_In. exact E. }
      rewrite Hd. reflexivity.
    + assert (Hn : ~ In n (map fst acc)) by (intro Hin; apply alist_has_In in Hin; congruence).
      rewrite IH.
      * rewrite map_app. cbn [map fst]. rewrite <- !app_assoc. reflexivity.
      * rewrite map_app. cbn [map fst]. apply NoDup_rev in Hnd.
        rewrite <- (rev_involutive (map fst acc ++ [n])). apply NoDup_rev. rewrite rev_app_distr. cbn [rev app].
        constructor; [|exact Hnd]. intro Hin. apply in_rev in Hin. contradiction.
Qed.

Definition uni (r : bool) (l : list pystr) : list (pystr * pyval) := map (fun n => (n, v_param n r)) l.
Definition top_after (top : Z) (l : list pystr) : Z := match l with [] => top | _ => 1%Z end.

Lemma skeys_snoc acc n v : skeys (acc ++ [(n, v)]) = skeys acc ++ [(PStr n, v)].
Proof. rewrite skeys_app. reflexivity. Qed.

Lemma sig_build_req rest : forall nd acc top, (top <= 1)%Z ->
  sig_build (map (fun n => v_param n true) nd ++ rest) top false (skeys acc) =
  match add_all acc (uni true nd) with
  | None => Raise ValueError
  | Some acc' => sig_build rest (top_after top nd) false (skeys acc')
  end.
Proof.
  induction nd as [|n t IH]; intros acc top Htop; [reflexivity|].
  cbn [map app sig_build uni add_all]. rewrite param_fields_v.
  replace (1 <? top)%Z with false by (symmetry; apply Z.ltb_ge; lia).
  cbn [Z.eqb orb andb is_param_empty]. replace (is_param_empty param_empty) with true by reflexivity.
  cbn [andb negb]. rewrite dict_has_skeys. destruct (alist_has acc n); [reflexivity|].
  rewrite <- skeys_snoc. replace (Z.max top 1) with 1%Z by lia.
  fold (uni true t). rewrite IH by lia. destruct t; reflexivity.
Qed.

Lemma sig_build_opt rest : forall d acc top sd, (top <= 1)%Z ->
  sig_build (map (fun n => v_param n false) d ++ rest) top sd (skeys acc) =
  match add_all acc (uni false d) with
  | None => Raise ValueError
  | Some acc' => sig_build rest (top_after top d) (match d with [] => sd | _ => true end) (skeys acc')
  end.
Proof.
  induction d as [|n t IH]; intros acc top sd Htop; [reflexivity|].
  cbn [map app sig_build uni add_all]. rewrite param_fields_v.
  replace (1 <? top)%Z with false by (symmetry; apply Z.ltb_ge; lia).
  cbn [Z.eqb orb andb is_param_empty negb]. rewrite dict_has_skeys. destruct (alist_has acc n); [reflexivity|].
  rewrite <- skeys_snoc. replace (Z.max top 1) with 1%Z by lia.
  fold (uni false t). rewrite IH by lia. destruct t; reflexivity.
Qed.

Definition kw_entry (kw : bool) : list (pystr * pyval) := if kw then [(n_kwargs, v_kwargs_param)] else [].

Lemma sig_build_kw kw acc top sd : (top <= 1)%Z ->
  sig_build (map snd (kw_entry kw)) top sd (skeys acc) =
  match add_all acc (kw_entry kw) with None => Raise ValueError | Some acc' => Ok (skeys acc') end.
Proof.
  intro Htop. destruct kw; [|reflexivity].
  cbn [kw_entry map snd sig_build add_all]. rewrite param_fields_kw.
  replace (4 <? top)%Z with false by (symmetry; apply Z.ltb_ge; lia).
  cbn [Z.eqb orb andb]. rewrite dict_has_skeys. destruct (alist_has acc n_kwargs); [reflexivity|].
  rewrite <- skeys_snoc. reflexivity.
Qed.

Lemma NoDup_fst_unique {A} (l : list (pystr * A)) k v v' :
  NoDup (map fst l) -> In (k, v) l -> In (k, v') l -> v = v'.
Proof.
  intros Hnd H1 H2. apply (In_alist_get_NoDup _ _ _ Hnd) in H1. apply (In_alist_get_NoDup _ _ _ Hnd) in H2. congruence.
Qed.

Lemma map_snd_uni r l : map snd (uni r l) = map (fun n => v_param n r) l.
Proof. unfold uni. rewrite map_map. reflexivity. Qed.

(* {**bases, **class} when every surviving entry is the parameter its name determines *)
Lemma merge_uniform r (a : list (pystr * pyval)) c :
  NoDup (map fst a) -> NoDup c -> (forall n v, In (n, v) a -> ~ In n c -> v = v_param n r) ->
  alist_merge a (uni r c) = uni r (merge_names (map fst a) c).
Proof.
  intros Ha Hc Hv.
  assert (Hk : map fst (alist_merge a (uni r c)) = merge_names (map fst a) c).
  { rewrite alist_merge_keys. unfold uni. rewrite map_fst_uniform. reflexivity. }
  rewrite <- Hk. apply alist_rebuild; [apply alist_merge_NoDup; exact Ha|].
  intros n Hn. rewrite alist_merge_get by (unfold uni; rewrite map_fst_uniform; exact Hc).
  unfold uni at 1. rewrite alist_get_uniform. destruct (str_in n c) eqn:E; [reflexivity|].
  rewrite Hk in Hn. apply In_merge_names in Hn as [Hn|Hn]; [|apply str_in_In in Hn; congruence].
  apply in_map_iff in Hn as [[n' v] [E2 Hin]]. cbn [fst] in E2; subst n'.
  rewrite (In_alist_get_NoDup _ _ _ Ha Hin). f_equal. apply (Hv n v Hin). exact (proj1 (str_in_false n c) E).
Qed.

Lemma filter_map_fst {A} (p : pystr -> bool) (l : list (pystr * A)) :
  map fst (filter (fun nm => p (fst nm)) l) = filter p (map fst l).
Proof.
  induction l as [|[n m] t IH]; [reflexivity|]. cbn [filter map fst]. destruct (p n); cbn [map fst]; [f_equal|]; exact IH.
Qed.

Lemma has_dup_perm l l' : Permutation l l' -> has_dup_str l = has_dup_str l'.
Proof.
  intro H. destruct (has_dup_str l') eqn:E'.
  - destruct (has_dup_str l) eqn:E; [reflexivity|]. apply has_dup_false_NoDup in E.
    apply (Permutation_NoDup H) in E. apply NoDup_has_dup_false in E. congruence.
  - apply has_dup_false_NoDup in E'. apply NoDup_has_dup_false. apply (Permutation_NoDup (Permutation_sym H)). exact E'.
Qed.

Lemma has_dup_snoc x l : ~ In x l -> has_dup_str (l ++ [x]) = has_dup_str l.
Proof.
  intro H. rewrite (has_dup_perm (l ++ [x]) (x :: l)) by (apply Permutation_sym, Permutation_cons_append).
  cbn [has_dup_str]. rewrite (proj2 (str_in_false x l) H). reflexivity.
Qed.

Lemma NoDup_app_remove_r {A} (a b : list A) : NoDup (a ++ b) -> NoDup a.
Proof.
  induction a as [|x t IH]; cbn [app]; intro H; [constructor|].
  inversion H as [|? ? Hx Hd]; subst. constructor; [|apply IH; exact Hd].
  intro Hin. apply Hx. apply in_or_app. left. exact Hin.
Qed.

(* Signature(required parameters + optional parameters + [**kwargs]) *)
Definition v_sig (req opt : list pystr) (kw : bool) : pyval :=
  PStruct signature_tag [(n_parameters, PDict (skeys (uni true req ++ uni false opt ++ kw_entry kw)))].

Lemma Signature_params so req opt kw :
  dv_Signature so (PList (map (fun n => v_param n true) req ++ map (fun n => v_param n false) opt ++ map snd (kw_entry kw))) =
  if has_dup_str (req ++ opt ++ map fst (kw_entry kw)) then Raise ValueError else Ok (v_sig req opt kw).
Proof.
  unfold dv_Signature. cbn [dv_iter bind]. change (@nil (pyval * pyval)) with (skeys []).
  rewrite sig_build_req by lia.
  rewrite (add_all_spec (uni true req) []) by constructor. cbn [map app]. unfold uni at 1. rewrite map_fst_uniform.
  destruct (has_dup_str req) eqn:E1.
  - assert (Hd : has_dup_str (req ++ opt ++ map fst (kw_entry kw)) = true).
    { destruct (has_dup_str (req ++ opt ++ map fst (kw_entry kw))) eqn:E2; [reflexivity|].
      apply has_dup_false_NoDup in E2. apply NoDup_app_remove_r in E2. apply NoDup_has_dup_false in E2. congruence. }
    rewrite Hd. reflexivity.
  - rewrite sig_build_opt by (destruct req; cbn [top_after]; lia).
    assert (Hr : NoDup (map fst (uni true req))) by (unfold uni; rewrite map_fst_uniform; apply has_dup_false_NoDup; exact E1).
    rewrite (add_all_spec (uni false opt) _ Hr). unfold uni at 1 2. rewrite !map_fst_uniform.
    destruct (has_dup_str (req ++ opt)) eqn:E2.
    + assert (Hd : has_dup_str (req ++ opt ++ map fst (kw_entry kw)) = true).
      { destruct (has_dup_str (req ++ opt ++ map fst (kw_entry kw))) eqn:E3; [reflexivity|].
        apply has_dup_false_NoDup in E3. rewrite app_assoc in E3. apply NoDup_app_remove_r in E3.
        apply NoDup_has_dup_false in E3. congruence. }
      rewrite Hd. reflexivity.
    + rewrite sig_build_kw by (destruct req, opt; cbn [top_after]; lia).
      assert (Hro : NoDup (map fst (uni true req ++ uni false opt))).
      { rewrite map_app. unfold uni. rewrite !map_fst_uniform. apply has_dup_false_NoDup. exact E2. }
      rewrite (add_all_spec (kw_entry kw) _ Hro). rewrite map_app. unfold uni at 1 2. rewrite !map_fst_uniform.
      rewrite <- app_assoc. destruct (has_dup_str (req ++ opt ++ map fst (kw_entry kw))); [reflexivity|].
      cbn [bind]. unfold v_sig. rewrite <- app_assoc. reflexivity.
Qed.

(* ================================================================== make_signature *)

(* How the model-level arguments of [Define.make_signature names required bp consts] are seen in Python:
     names                   v_names names              clsobj._fields, a list of str
     required                v_names required           a list of str (only tested with `in`)
     additional_properties   PBool addl
     bases_params_by_name    v_params bp                name -> Parameter(name, POSITIONAL_OR_KEYWORD[, default=None]),
                                                        without default iff the flag of the name in bp is true
     bases_required          v_names (bases_required bp)
     constants               v_keys consts              clsobj._constants.keys()
   The result is read as: the parameters without default, in order, then those with default None, then **kwargs
   iff additional_properties ([v_sig req opt kw]).  The order of the parameters the class itself requires comes
   from the iteration of a set: the generated function and the model agree up to a permutation of the
   parameters without default; the optional ones and **kwargs agree exactly; ValueError (duplicate parameter)
   is raised by both or by none. *)
Definition v_params (bp : list (pystr * bool)) : pyval :=
  PDict (skeys (map (fun p => (fst p, v_param (fst p) (snd p))) bp)).

Definition sig_agrees (addl : bool) (gen : res pyval) (hand : res sigt) : Prop :=
  match hand with
  | Ok s => exists req, Permutation req (sg_req s) /\ gen = Ok (v_sig req (sg_opt s) addl)
  | Raise x => gen = Raise x
  end.

Definition sig_inputs_ok (names : list pystr) (bp : list (pystr * bool)) : bool :=
  negb (has_dup_str names) && negb (has_dup_str (map fst bp)) &&
  forallb valid_param_name (names ++ map fst bp) && negb (str_in n_kwargs (names ++ map fst bp)).

Theorem make_signature_src so X h names required addl bp consts :
  so_ok so -> sig_inputs_ok names bp = true ->
  sig_agrees addl
    (DefineSrc.make_signature so X h (v_names names) (v_names required) (PBool addl) (v_params bp)
                              (v_names (bases_required bp)) (v_keys consts))
    (Define.make_signature names required bp consts).
Proof.
  intros Hso Hok. unfold sig_inputs_ok in Hok.
  apply andb_true_iff in Hok as [Hok Hkw]. apply andb_true_iff in Hok as [Hok Hval].
  apply andb_true_iff in Hok as [HN HB]. apply negb_true_iff in HN, HB, Hkw.
  pose proof (has_dup_false_NoDup _ HN) as HNd. pose proof (has_dup_false_NoDup _ HB) as HBd.
  unfold DefineSrc.make_signature, v_names, v_params.
  rewrite !deref_list, !deref_dict, !deref_bool.
  rewrite set_of_list. cbn [bind]. rewrite keys_skeys. cbn [bind].
  rewrite (dedup_str_NoDup_id names HNd).
  replace (map fst (map (fun p : pystr * bool => (fst p, v_param (fst p) (snd p))) bp)) with (map fst bp)
    by (rewrite map_map; reflexivity).
  set (B := map fst bp) in *.
  unfold v_keys at 1. rewrite deref_view. fold (v_keys B). rewrite set_of_keys. cbn [bind].
  rewrite (dedup_str_NoDup_id B HBd). rewrite !deref_set. rewrite bitor_strs. cbn [bind].
  unfold v_keys at 1. rewrite deref_view. fold (v_keys consts). rewrite set_of_keys. cbn [bind].
  rewrite !deref_set. rewrite minus_strs. cbn [bind]. rewrite deref_set. cbn [dv_iter bind].
  set (A0 := names ++ filter (fun n => negb (str_in n names)) B).
  set (A1 := filter (fun n => negb (str_in n (dedup_str consts))) A0).
  destruct (so_strs so A1 Hso) as [A1' [Eso Hperm]]. rewrite Eso.
  assert (HA0 : NoDup A0).
  { unfold A0. rewrite <- (merge_names_app names B HBd). apply NoDup_merge_names. exact HNd. }
  assert (HA1 : NoDup A1) by (apply NoDup_filter; exact HA0).
  assert (HA1' : NoDup A1') by (eapply Permutation_NoDup; [apply Permutation_sym; exact Hperm|exact HA1]).
  assert (HinA0 : forall n, In n A0 <-> In n names \/ In n B).
  { intro n. unfold A0. rewrite in_app_iff, filter_In. split; [tauto|].
    intros [H|H]; [tauto|]. destruct (str_in n names) eqn:E; [left; apply str_in_In; exact E|right; split; [exact H|reflexivity]]. }
  assert (HvalA : forall n, In n A1' -> valid_param_name n = true).
  { intros n Hn. apply (Permutation_in _ Hperm) in Hn. unfold A1 in Hn. apply filter_In in Hn as [Hn _].
    apply HinA0 in Hn. rewrite forallb_forall in Hval. apply Hval. apply in_or_app. exact Hn. }
  rewrite (comp_strs _ (fun n => str_in n required) (fun n => v_item (n, v_param n true))).
  2:{ intros n Hn. fold (v_strs required). rewrite in_list. cbn [bind]. destruct (str_in n required); [|reflexivity].
      rewrite attr_POK. cbn [bind]. rewrite Parameter_req by (apply HvalA; exact Hn). reflexivity. }
  cbn [bind]. rewrite deref_list.
  rewrite <- (map_map (fun n => (n, v_param n true)) v_item). fold (uni true (filter (fun n => str_in n required) A1')).
  set (ndc := filter (fun n => str_in n required) A1').
  rewrite dict_of_items by (unfold uni; rewrite map_fst_uniform; apply NoDup_filter; exact HA1').
  cbn [bind]. rewrite items_skeys. cbn [bind]. rewrite deref_view, iter_items_view. cbn [bind].
  set (al := map (fun p : pystr * bool => (fst p, v_param (fst p) (snd p))) bp).
  set (breq := bases_required bp).
  assert (Hal : map fst al = B) by (unfold al, B; rewrite map_map; reflexivity).
  set (pnd := fun x : pystr * pyval => (str_in (fst x) required || str_in (fst x) breq) && negb (str_in (fst x) consts)).
  rewrite (comp_items _ pnd v_item).
  2:{ intros [k v] _. unfold v_item at 1. cbn [fst snd]. unfold py_unpack. cbn [py_iter_items bind length Nat.eqb].
      fold (v_strs required). fold (v_strs breq). rewrite !in_list. unfold v_keys at 1. rewrite deref_view. fold (v_keys consts).
      rewrite in_keys. unfold pnd. cbn [fst snd py_and py_or py_not bind].
      destruct (str_in k required); cbn [orb bind]; [|destruct (str_in k breq); cbn [bind]];
        try (destruct (str_in k consts); reflexivity). }
  cbn [bind]. rewrite deref_list.
  assert (Hndb : NoDup (map fst (filter pnd al))).
  { apply NoDup_fst_filter. rewrite Hal. exact HBd. }
  rewrite dict_of_items by exact Hndb. cbn [bind]. rewrite dict_merge_skeys. cbn [bind].
  rewrite deref_dict, values_skeys. cbn [bind]. rewrite deref_view, list_of_values. cbn [bind].
  fold (v_strs names).
  rewrite (comp_strs _ (fun n => negb (str_in n required) && negb (str_in n consts)) (fun n => v_item (n, v_param n false))).
  2:{ intros n Hn. fold (v_strs required). rewrite in_list. unfold v_keys at 1. rewrite deref_view. fold (v_keys consts).
      rewrite in_keys. cbn [py_and py_not bind]. destruct (str_in n required); cbn [negb andb bind]; [reflexivity|].
      destruct (str_in n consts); cbn [negb bind]; [reflexivity|].
      rewrite attr_POK. cbn [bind]. rewrite Parameter_opt; [reflexivity|].
      rewrite forallb_forall in Hval. apply Hval. apply in_or_app. left. exact Hn. }
  cbn [bind]. rewrite deref_list.
  set (dc := filter (fun n => negb (str_in n required) && negb (str_in n consts)) names).
  rewrite <- (map_map (fun n => (n, v_param n false)) v_item). fold (uni false dc).
  rewrite dict_of_items by (unfold uni; rewrite map_fst_uniform; apply NoDup_filter; exact HNd).
  cbn [bind].
  set (pd := fun x : pystr * pyval => negb (str_in (fst x) required) && negb (str_in (fst x) breq) && negb (str_in (fst x) consts)).
  rewrite (comp_items _ pd v_item).
  2:{ intros [k v] Hin. unfold al in Hin. apply in_map_iff in Hin as [[k' fl] [E _]]. cbn [fst snd] in E. inversion E; subst k v.
      unfold v_item at 1. cbn [fst snd]. unfold py_unpack. cbn [py_iter_items bind length Nat.eqb].
      fold (v_strs required). fold (v_strs breq). rewrite !in_list. unfold v_keys at 1. rewrite deref_view. fold (v_keys consts).
      rewrite in_keys. unfold pd. cbn [fst snd py_and py_or py_not bind].
      destruct (str_in k' required); cbn [negb andb bind]; [reflexivity|].
      destruct (str_in k' breq); cbn [negb andb bind]; [reflexivity|].
      destruct (str_in k' consts); cbn [negb andb bind]; [reflexivity|].
      destruct addl; cbn [py_truthy bind]; reflexivity. }
  cbn [bind]. rewrite deref_list.
  rewrite dict_of_items by (apply NoDup_fst_filter; rewrite Hal; exact HBd). cbn [bind]. rewrite dict_merge_skeys. cbn [bind].
  rewrite deref_dict, values_skeys. cbn [bind]. rewrite deref_view, list_of_values. cbn [bind].
  (* every entry of the bases' dict is the parameter its name and flag determine *)
  assert (Hal_in : forall n v, In (n, v) al -> exists fl, In (n, fl) bp /\ v = v_param n fl).
  { intros n v Hin. unfold al in Hin. apply in_map_iff in Hin as [[k fl] [E Hin]]. cbn [fst snd] in E. inversion E; subst.
    exists fl. split; [exact Hin|reflexivity]. }
  assert (Hbreq : forall n fl, In (n, fl) bp -> str_in n breq = fl).
  { intros n fl Hin. destruct fl.
    - apply str_in_In. unfold breq, bases_required. apply in_map_iff. exists (n, true). split; [reflexivity|].
      apply filter_In. split; [exact Hin|reflexivity].
    - apply str_in_false. intro Hb. unfold breq, bases_required in Hb. apply in_map_iff in Hb as [[n' fl'] [E Hb]].
      cbn [fst] in E; subst n'. apply filter_In in Hb as [Hb Hfl]. cbn [snd] in Hfl; subst fl'.
      pose proof (NoDup_fst_unique bp n true false HBd Hb Hin). discriminate. }
  rewrite (merge_uniform true (filter pnd al) ndc).
  2:{ apply NoDup_fst_filter. rewrite Hal. exact HBd. }
  2:{ apply NoDup_filter. exact HA1'. }
  2:{ intros n v Hin Hnc. apply filter_In in Hin as [Hin Hp]. destruct (Hal_in n v Hin) as [fl [Hbp ->]]. f_equal.
      rewrite <- (Hbreq n fl Hbp). unfold pnd in Hp. cbn [fst] in Hp. apply andb_true_iff in Hp as [Hp1 Hp2].
      apply negb_true_iff in Hp2.
      destruct (str_in n required) eqn:ER; [|cbn [orb] in Hp1; exact Hp1].
      exfalso. apply Hnc. unfold ndc. apply filter_In. split; [|exact ER].
      apply (Permutation_in _ (Permutation_sym Hperm)). unfold A1. apply filter_In. split.
      - apply HinA0. right. unfold B. apply in_map_iff. exists (n, fl). split; [reflexivity|exact Hbp].
      - rewrite str_in_dedup, Hp2. reflexivity. }
  rewrite (merge_uniform false (filter pd al) dc).
  2:{ apply NoDup_fst_filter. rewrite Hal. exact HBd. }
  2:{ apply NoDup_filter. exact HNd. }
  2:{ intros n v Hin _. apply filter_In in Hin as [Hin Hp]. destruct (Hal_in n v Hin) as [fl [Hbp ->]]. f_equal.
      rewrite <- (Hbreq n fl Hbp). unfold pd in Hp. cbn [fst] in Hp. apply andb_true_iff in Hp as [Hp _].
      apply andb_true_iff in Hp as [_ Hp]. apply negb_true_iff in Hp. exact Hp. }
  rewrite !map_snd_uni.
  assert (Ekw : (if py_truthy (PBool addl)
                 then t53 <- inspect_attr (s2p "Parameter") (s2p "VAR_KEYWORD");;
                      t54 <- dv_Parameter (PStr (s2p "kwargs")) t53 None;; Ok (PList [t54])
                 else Ok (PList [])) = Ok (PList (map snd (kw_entry addl)))) by (destruct addl; reflexivity).
  rewrite Ekw. cbn [bind]. rewrite add_lists. cbn [bind]. rewrite !deref_list, add_lists. cbn [bind]. rewrite deref_list.
  rewrite <- app_assoc, Signature_params.
  set (qnd := fun n => (str_in n required || str_in n breq) && negb (str_in n consts)).
  set (qd := fun n => negb (str_in n required) && negb (str_in n breq) && negb (str_in n consts)).
  assert (Endb : map fst (filter pnd al) = filter qnd B) by (rewrite <- Hal; apply (filter_map_fst qnd)).
  assert (Edb : map fst (filter pd al) = filter qd B) by (rewrite <- Hal; apply (filter_map_fst qd)).
  rewrite Endb, Edb.
  unfold Define.make_signature. cbv zeta. fold B. fold breq. fold qnd. fold qd. fold dc.
  rewrite (merge_names_app names B HBd). fold A0.
  set (ndc_h := filter (fun n => negb (str_in n consts) && str_in n required) A0).
  assert (Hpc : Permutation ndc ndc_h).
  { unfold ndc, ndc_h. replace (filter (fun n => negb (str_in n consts) && str_in n required) A0)
      with (filter (fun n => str_in n required) A1).
    - apply Permutation_filter. exact Hperm.
    - unfold A1. rewrite filter_filter. apply filter_ext. intro n. rewrite str_in_dedup. reflexivity. }
  assert (Hndc_h : NoDup ndc_h) by (apply NoDup_filter; exact HA0).
  assert (Hndc : NoDup ndc) by (apply NoDup_filter; exact HA1').
  assert (Hpn : Permutation (merge_names (filter qnd B) ndc) (merge_names (filter qnd B) ndc_h)).
  { rewrite !merge_names_app by assumption. apply Permutation_app_head. apply Permutation_filter. exact Hpc. }
  set (nd' := merge_names (filter qnd B) ndc) in *. set (nd := merge_names (filter qnd B) ndc_h) in *.
  set (d := merge_names (filter qd B) dc).
  assert (Hsub : forall n, In n (nd' ++ d) -> In n (names ++ B)).
  { intros n Hn. apply in_or_app. apply in_app_or in Hn as [Hn|Hn]; apply In_merge_names in Hn as [Hn|Hn].
    - right. apply filter_In in Hn as [Hn _]. exact Hn.
    - apply filter_In in Hn as [Hn _]. apply (Permutation_in _ Hperm) in Hn. apply filter_In in Hn as [Hn _].
      apply HinA0. exact Hn.
    - right. apply filter_In in Hn as [Hn _]. exact Hn.
    - left. apply filter_In in Hn as [Hn _]. exact Hn. }
  assert (Hdup : has_dup_str (nd' ++ d ++ map fst (kw_entry addl)) = has_dup_str (nd ++ d)).
  { transitivity (has_dup_str (nd' ++ d)).
    - destruct addl; cbn [kw_entry map fst]; [|rewrite app_nil_r; reflexivity].
      rewrite app_assoc. apply has_dup_snoc. intro Hin. apply Hsub in Hin. apply str_in_In in Hin. congruence.
    - apply has_dup_perm. apply Permutation_app_tail. exact Hpn. }
  rewrite Hdup. destruct (has_dup_str (nd ++ d)); cbn [bind sig_agrees]; [reflexivity|].
  exists nd'. split; [exact Hpn|reflexivity].
Qed.

(* ================================================================== the class environment as a heap *)

(* Class c of the environment is the object "c" (the four classes of typedpy have their own names: "Structure",
   "FinalStructure", ...):
     isinstance(c, StructMeta)   k_is_struct
     isinstance(c, FieldMeta)    False (no attribute)
     c.__mro__ / c.mro()         the classes of k_mro (object and UniqueMixin, which no test looks for, left out)
     c.__signature__             Signature(required parameters, optional parameters = None[, **kwargs])
     c.__dict__                  "_additional_properties" when the class body set it, and whatever else [extra c]
                                 lists (never the two spellings of that key)
   TypedPyDefaults is the object "TypedPyDefaults" with the settings of [guards]. *)
Definition n_TypedPyDefaults : pystr := s2p "TypedPyDefaults".
Definition n_addl : pystr := s2p "_additional_properties".
Definition n_addl_old : pystr := s2p "_additionalProperties".

Definition v_refs (l : list pystr) : list pyval := map ref l.

Definition class_dict (k : klass) (extra : list (pystr * pyval)) : list (pystr * pyval) :=
  match k_additional k with Some b => [(n_addl, PBool b)] | None => [] end ++ extra.

Definition extra_ok (extra : list (pystr * pyval)) : bool :=
  negb (alist_has extra n_addl) && negb (alist_has extra n_addl_old).

Definition class_attr (k : klass) (extra : list (pystr * pyval)) (a : pystr) : option pyval :=
  if pystr_eqb a (isinstance_attr (s2p "StructMeta")) then Some (PBool (k_is_struct k))
  else if pystr_eqb a n_mro then Some (PTuple (v_refs (k_mro k)))
  else if pystr_eqb a (s2p "mro()") then Some (PList (v_refs (k_mro k)))
  else if pystr_eqb a (s2p "__signature__") then Some (v_sig (k_sig_req k) (k_sig_opt k) (k_sig_kwargs k))
  else if pystr_eqb a (s2p "__dict__") then Some (PDict (skeys (class_dict k extra)))
  else None.

Definition defaults_attr (gd : guards) (a : pystr) : option pyval :=
  if pystr_eqb a (s2p "additional_properties_default") then Some (PBool (gd_additional_default gd))
  else if pystr_eqb a (s2p "block_unknown_consts") then Some (PBool (gd_block_unknown_consts gd))
  else None.

Definition genv_heap (gd : guards) (g : genv) (extra : pystr -> list (pystr * pyval)) : heap :=
  fun o a =>
    match find_klass g o with
    | Some k => class_attr k (extra o) a
    | None => if pystr_eqb o n_TypedPyDefaults then defaults_attr gd a else None
    end.

Section EnvHeap.
  Variable gd : guards.
  Variable g : genv.
  Variable extra : pystr -> list (pystr * pyval).
  Notation hp := (genv_heap gd g extra).

  Lemma heap_isinstance_struct c :
    obj_isinstance hp (ref c) (s2p "StructMeta") = Ok (match find_klass g c with Some k => k_is_struct k | None => false end).
  Proof.
    unfold obj_isinstance, ref. rewrite pystr_eqb_refl. unfold genv_heap.
    destruct (find_klass g c) as [k|].
    - unfold class_attr. rewrite pystr_eqb_refl. destruct (k_is_struct k); reflexivity.
    - destruct (pystr_eqb c n_TypedPyDefaults); reflexivity.
  Qed.

  Lemma heap_isinstance_fieldmeta c : obj_isinstance hp (ref c) (s2p "FieldMeta") = Ok false.
  Proof.
    unfold obj_isinstance, ref. rewrite pystr_eqb_refl. unfold genv_heap.
    destruct (find_klass g c) as [k|]; [reflexivity|]. destruct (pystr_eqb c n_TypedPyDefaults); reflexivity.
  Qed.

  Lemma existsb_refs r l :
    existsb (fun x => match is_ref x with Some xn => pystr_eqb xn r | None => false end) (v_refs l) = str_in r l.
  Proof.
    unfold str_in, v_refs. induction l as [|x t IH]; [reflexivity|]. cbn [map existsb].
    replace (is_ref (ref x)) with (Some x) by (unfold is_ref, ref; rewrite pystr_eqb_refl; reflexivity).
    rewrite (pystr_eqb_sym x r), IH. reflexivity.
  Qed.

  Lemma is_ref_ref n : is_ref (ref n) = Some n.
  Proof. unfold is_ref, ref. rewrite pystr_eqb_refl. reflexivity. Qed.

  Lemma heap_issubclass c k r : find_klass g c = Some k ->
    obj_issubclass hp (ref c) (ref r) = Ok (str_in r (k_mro k)).
  Proof.
    intro Hk. unfold obj_issubclass. rewrite !is_ref_ref. unfold genv_heap. rewrite Hk.
    replace (class_attr k (extra c) n_mro) with (Some (PTuple (v_refs (k_mro k)))) by reflexivity.
    rewrite existsb_refs. reflexivity.
  Qed.

  Lemma ne_refs a b : py_ne (ref a) (ref b) = Ok (negb (pystr_eqb a b)).
  Proof. unfold py_ne, ref. cbn [py_eq]. rewrite pystr_eqb_refl. reflexivity. Qed.
End EnvHeap.

Lemma foldM_check (f : unit -> pyval -> res unit) (bad : pystr -> bool) x l :
  (forall c, f tt (ref c) = if bad c then Raise x else Ok tt) ->
  dv_foldM f (v_refs l) tt = if existsb bad l then Raise x else Ok tt.
Proof.
  intro H. unfold dv_foldM, v_refs. induction l as [|c t IH]; [reflexivity|].
  cbn [map py_foldM existsb]. rewrite H. destruct (bad c); cbn [bind orb]; [reflexivity|exact IH].
Qed.

(* ================================================================== _check_for_final_violations *)

Lemma globals_Final : dv_in_globals module_globals (PStr (s2p "FinalStructure")) = Ok true.
Proof. reflexivity. Qed.
Lemma globals_Immutable : dv_in_globals module_globals (PStr (s2p "ImmutableStructure")) = Ok true.
Proof. reflexivity. Qed.
Lemma globals_FieldMeta : dv_in_globals module_globals (PStr (s2p "FieldMeta")) = Ok true.
Proof. reflexivity. Qed.
Lemma globals_Structure : dv_in_globals module_globals (PStr (s2p "Structure")) = Ok true.
Proof. reflexivity. Qed.

(* _check_for_final_violations(clsobj.mro()) for a class whose MRO is name :: mro_tail: TypeError exactly when the
   model's [final_violation] holds, None otherwise -- for every environment and every MRO *)
Theorem check_final_src so X gd g extra name mro_tail :
  DefineSrc.check_for_final_violations so X (genv_heap gd g extra) (PList (v_refs (name :: mro_tail))) =
  if final_violation g mro_tail then Raise TypeError else Ok PNone.
Proof.
  unfold DefineSrc.check_for_final_violations. cbv zeta.
  unfold py_unpack. cbn [v_refs map py_iter_items bind length Nat.leb firstn skipn app].
  rewrite deref_list. cbn [dv_iter bind]. fold (v_refs mro_tail).
  rewrite (foldM_check _ (fun c => strict_sub g c n_Final || strict_sub g c n_Immutable) TypeError).
  - unfold final_violation. destruct (existsb _ mro_tail); reflexivity.
  - intro c. cbn [bind]. rewrite globals_Final, globals_Immutable, globals_FieldMeta.
    rewrite heap_isinstance_struct, heap_isinstance_fieldmeta. unfold strict_sub.
    cbn [py_and bind]. destruct (find_klass g c) as [k|] eqn:Hk.
    2:{ rewrite !andb_false_r. reflexivity. }
    destruct (k_is_struct k); cbn [andb].
    2:{ rewrite !andb_false_r. reflexivity. }
    rewrite !(heap_issubclass gd g extra c k _ Hk), !ne_refs. cbn [bind py_and].
    change (s2p "FinalStructure") with n_Final. change (s2p "ImmutableStructure") with n_Immutable.
    destruct (str_in n_Final (k_mro k)); cbn [bind deref py_truthy andb];
      destruct (pystr_eqb c n_Final); cbn [negb andb orb bind deref py_truthy];
      destruct (str_in n_Immutable (k_mro k)); cbn [bind deref py_truthy andb];
      destruct (pystr_eqb c n_Immutable); reflexivity.
Qed.
