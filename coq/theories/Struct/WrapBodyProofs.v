(* Proofs about the statement-level model of the wrapper methods (Struct/WrapBody.v):
   a body that [classify] accepts as copy-mutate-reassign behaves, at the instance level, exactly like the
   coarse [mstep] of Struct/Instance.v for the shape [CopyMutateReassign g] -- whatever the base type's methods
   do (oracles), whether or not the handle is the live wrapper, and however many base operations are applied to
   the copy (induction over the body) -- hence it is validated and failure-atomic under the conditions of
   C03_step_safe; and an in-place body is not atomic when the base method fails half way. *)
From Coq Require Import ZArith NArith String List Bool Lia.
Import ListNotations.
From TP Require Import Base.PyVal Fields.FieldAst Fields.SetChain Fields.Doc Struct.Shapes Struct.Instance
  Struct.Mutate Struct.MutateProofs Struct.WrapBody.

Lemma strip_guard_eq b :
  b = if fst (strip_guard b) then SGuard :: snd (strip_guard b) else snd (strip_guard b).
Proof. destruct b as [|s t]; [reflexivity|]. destruct s; reflexivity. Qed.

Lemma skip_applies_incl s t : In s (skip_applies t) -> In s t.
Proof.
  induction t as [|x t IH]; cbn [skip_applies]; intro H; [exact H|].
  destruct x; try exact H. right. exact (IH H).
Qed.

Lemma empty_not_none k : is_none_val (empty_of k) = false.
Proof. unfold empty_of. destruct k as [|p]; [reflexivity|]. destruct p; reflexivity. Qed.

Section Proofs.
  Variable re_match : N -> pystr -> bool.
  Variable e : env.
  Variable base_of : pystr -> pyval -> res pyval.
  Variable partial_of : pystr -> pyval -> pyval.
  Variable c : classdef.
  Variable n : pystr.

  Notation wstep := (wstep re_match e base_of partial_of c n).
  Notation wexec := (wexec re_match e base_of partial_of c n).
  Notation reassign := (reassign re_match e c n).
  Notation apply_all := (apply_all base_of).
  Notation cmr_base := (cmr_base base_of).
  Notation cmr_base_core := (cmr_base_core base_of).

  (* the base type's methods return containers, never None *)
  Definition results_not_none : Prop := forall m v nv, base_of m v = Ok nv -> is_none_val nv = false.

  (* the base operations a body applies to the wrapper object itself (after the re-assignment) do not raise:
     list.append / deque.append / dict.__setitem__ with a key that was just used on the copy *)
  Definition self_ops_total (b : wbody) : Prop :=
    forall m v, In (SApplySelf m) b -> is_ok (base_of m v) = true.

  Lemma apply_all_not_none ms : forall v nv,
      results_not_none -> is_none_val v = false -> apply_all ms v = Ok nv -> is_none_val nv = false.
  Proof.
    induction ms as [|m ms IH]; intros v nv Hc Hv H; cbn [WrapBody.apply_all] in H.
    - inversion H; subst; exact Hv.
    - destruct (base_of m v) as [v1|x] eqn:Eb; [|discriminate].
      exact (IH v1 nv Hc (Hc _ _ _ Eb) H).
  Qed.

  (* statements after the re-assignment act on a wrapper the instance no longer refers to *)
  Lemma tail_inert : forall rest st,
      forallb tail_stmt_ok rest = true -> w_live st = false -> self_ops_total rest ->
      w_inst (fst (wexec st rest)) = w_inst st /\ snd (wexec st rest) = Done.
  Proof.
    induction rest as [|s rest IH]; intros st Hok Hl Ht.
    - split; reflexivity.
    - cbn [forallb] in Hok. apply andb_true_iff in Hok as [Hs Hr].
      assert (Ht' : self_ops_total rest) by (intros m v Hin; apply Ht; right; exact Hin).
      destruct s; cbn [tail_stmt_ok] in Hs; try discriminate.
      + (* SApplySelf *)
        cbn [WrapBody.wexec WrapBody.wstep].
        pose proof (Ht m (w_handle st) (or_introl eq_refl)) as Htot.
        destruct (base_of m (w_handle st)) as [nv|x] eqn:Eb; [|discriminate].
        destruct (IH (set_handle n st nv) Hr) as [H1 H2]; [cbn; exact Hl | exact Ht' |].
        rewrite H1, H2. split; [|reflexivity]. unfold set_handle. cbn [w_inst]. rewrite Hl. reflexivity.
      + (* SReturn *)
        split; reflexivity.
  Qed.

  Definition with_copy (st : wst) (v : pyval) : wst :=
    {| w_inst := w_inst st; w_handle := w_handle st; w_live := w_live st; w_copy := Some v |}.

  Lemma with_copy_same st cv : w_copy st = Some cv -> with_copy st cv = st.
  Proof. destruct st as [i h l cp]; cbn; intro H; subst; reflexivity. Qed.

  (* the base operations applied to the local copy, one after the other (induction over the body) *)
  Lemma exec_applies : forall t st cv,
      w_copy st = Some cv ->
      match apply_all (applies_of t) cv with
      | Raise x => w_inst (fst (wexec st t)) = w_inst st /\ snd (wexec st t) = Raised x
      | Ok nv => wexec st t = wexec (with_copy st nv) (skip_applies t)
      end.
  Proof.
    induction t as [|s t IH]; intros st cv Hc.
    - cbn. rewrite (with_copy_same _ _ Hc). reflexivity.
    - destruct s; try (cbn [applies_of skip_applies WrapBody.apply_all]; rewrite (with_copy_same _ _ Hc); reflexivity).
      cbn [applies_of skip_applies WrapBody.apply_all WrapBody.wexec WrapBody.wstep]. rewrite Hc.
      destruct (base_of m cv) as [nv|x] eqn:Eb.
      + specialize (IH (with_copy st nv) nv eq_refl). fold (with_copy st nv).
        destruct (apply_all (applies_of t) nv) as [nv2|x2].
        * rewrite IH. reflexivity.
        * exact IH.
      + split; reflexivity.
  Qed.

  Lemma skips_store_not_none v : is_none_val v = false -> skips_store c n v = false.
  Proof. intro H. unfold skips_store. rewrite H, andb_false_r. reflexivity. Qed.

  Lemma reassign_then_tail st v rest :
      is_none_val v = false -> forallb tail_stmt_ok rest = true -> self_ops_total rest ->
      (let r := match reassign st v with
                | (st', Some o) => (st', o)
                | (st', None) => wexec st' rest
                end in (w_inst (fst r), snd r))
      = setattr re_match e c true (w_inst st) n v.
  Proof.
    intros Hv Hok Ht. unfold WrapBody.reassign.
    destruct (setattr re_match e c true (w_inst st) n v) as [a' o] eqn:Es. cbn [fst snd].
    destruct o as [|x].
    - rewrite (skips_store_not_none _ Hv).
      match goal with |- context [wexec ?S rest] => destruct (tail_inert rest S Hok eq_refl Ht) as [H1 H2] end.
      cbn zeta. rewrite H1, H2. reflexivity.
    - reflexivity.
  Qed.

  (* the core: a body (after its guard) classified copy-mutate-reassign hands [cmr_base_core] to setattr, and
     nothing else it does reaches the instance *)
  Lemma cmr_core_sound kind m g0 b1 g st :
      classify_core kind m g0 b1 = CopyMutateReassign g ->
      w_copy st = None -> is_none_val (w_handle st) = false -> results_not_none -> self_ops_total b1 ->
      g = g0 /\
      (w_inst (fst (wexec st b1)), snd (wexec st b1)) =
        match cmr_base_core b1 (w_handle st) with
        | Raise x => (w_inst st, Raised x)
        | Ok nv => setattr re_match e c true (w_inst st) n nv
        end.
  Proof.
    intros Hcl Hcp Hh Hc Ht.
    destruct b1 as [|s t]; cbn [classify_core] in Hcl; [discriminate|].
    destruct s; try discriminate.
    - (* SCopy *)
      destruct (skip_applies t) as [|s2 rest] eqn:Esk; [discriminate|].
      destruct s2; try discriminate.
      destruct (cond_ok c0 && forallb tail_stmt_ok rest) eqn:Ec; [|discriminate].
      apply andb_true_iff in Ec as [Hco Hta]. inversion Hcl; subst g. split; [reflexivity|].
      assert (Ht' : self_ops_total rest).
      { intros m' v Hin. apply Ht. right. apply skip_applies_incl. rewrite Esk. right. exact Hin. }
      cbn [WrapBody.wexec WrapBody.wstep WrapBody.cmr_base_core].
      fold (with_copy st (w_handle st)).
      pose proof (exec_applies t (with_copy st (w_handle st)) (w_handle st) eq_refl) as Ha.
      destruct (apply_all (applies_of t) (w_handle st)) as [nv|x] eqn:Eap.
      + rewrite Ha, Esk. cbn [WrapBody.wexec WrapBody.wstep]. rewrite Hco. cbn [with_copy w_copy].
        pose proof (apply_all_not_none _ _ _ Hc Hh Eap) as Hnv.
        exact (reassign_then_tail (with_copy (with_copy st (w_handle st)) nv) nv rest Hnv Hta Ht').
      + destruct Ha as [H1 H2]. rewrite H1, H2. reflexivity.
    - (* SReassignEmpty *)
      destruct (N.eqb kind0 kind && pystr_eqb m clear_name && forallb tail_stmt_ok t) eqn:Ec; [|discriminate].
      apply andb_true_iff in Ec as [_ Hta]. inversion Hcl; subst g. split; [reflexivity|].
      assert (Ht' : self_ops_total t) by (intros m' v Hin; apply Ht; right; exact Hin).
      cbn [WrapBody.wexec WrapBody.wstep WrapBody.cmr_base_core].
      exact (reassign_then_tail st (empty_of kind0) t (empty_not_none kind0) Hta Ht').
    - (* SApplySelf: never copy-mutate-reassign *)
      destruct t; [destruct (g0 && pystr_eqb m m0)|]; discriminate.
  Qed.

  (* ---------------------------------------------------------------- main theorem *)

  Theorem cmr_body_sound : forall kind m b g a hv live,
      classify kind m b = CopyMutateReassign g ->
      is_none_val hv = false -> results_not_none -> self_ops_total b ->
      (w_inst (fst (wexec (wstart a hv live) b)), snd (wexec (wstart a hv live) b))
      = mstep re_match e c a (WrapMut n (CopyMutateReassign g) (cmr_base b hv)).
  Proof.
    intros kind m b g a hv live Hcl Hh Hc Ht. unfold classify in Hcl. unfold WrapBody.cmr_base.
    pose proof (strip_guard_eq b) as Hb.
    destruct (strip_guard b) as [g0 b1]. cbn [fst snd] in *.
    assert (Ht1 : self_ops_total b1).
    { intros m' v Hin. apply Ht. rewrite Hb. destruct g0; [right|]; exact Hin. }
    destruct (cmr_core_sound kind m g0 b1 g (wstart a hv live) Hcl eq_refl Hh Hc Ht1) as [Hg Hcore].
    subst g. cbn [wstart w_inst w_handle] in Hcore.
    cbn [mstep]. fold (frozen c n).
    destruct g0; subst b.
    - cbn [WrapBody.wexec WrapBody.wstep andb].
      destruct (frozen c n); [reflexivity|]. rewrite Hcore.
      destruct (cmr_base_core b1 hv); reflexivity.
    - cbn [andb]. rewrite Hcore. destruct (cmr_base_core b1 hv); reflexivity.
  Qed.

  (* ... hence validated and failure-atomic under the conditions of C03_step_safe *)
  Theorem cmr_body_step_good : forall kind m b g a hv live,
      classify kind m b = CopyMutateReassign g ->
      is_none_val hv = false -> results_not_none -> self_ops_total b ->
      hook_wf c = true -> struct_ok re_match e c a = true ->
      value_safe re_match e c a (WrapMut n (CopyMutateReassign g) (cmr_base b hv)) = true ->
      step_good re_match e c a (w_inst (fst (wexec (wstart a hv live) b))) (snd (wexec (wstart a hv live) b)).
  Proof.
    intros kind m b g a hv live Hcl Hh Hc Ht Hwf Hok Hvs.
    pose proof (cmr_body_sound kind m b g a hv live Hcl Hh Hc Ht) as Hs.
    assert (Hsafe : step_safe re_match e c a (WrapMut n (CopyMutateReassign g) (cmr_base b hv)) = true).
    { rewrite step_safe_split. cbn [op_shape_safe shape_safe andb]. exact Hvs. }
    pose proof (step_safe_good re_match e c a _ Hwf Hok Hsafe) as G.
    rewrite <- Hs in G. cbn [fst snd] in G. exact G.
  Qed.

  (* ---------------------------------------------------------------- in-place bodies *)

  (* guard; super().m(...) on the LIVE wrapper when the base method fails: the instance is left holding whatever
     the base method left behind -- not atomic unless the base method is *)
  Theorem inplace_failure_exposes_partial : forall m a hv x,
      frozen c n = false -> base_of m hv = Raise x ->
      wexec (wstart a hv true) [SGuard; SApplySelf m]
      = ({| w_inst := alist_set a n (partial_of m hv); w_handle := partial_of m hv; w_live := true; w_copy := None |},
         Raised x).
  Proof.
    intros m a hv x Hf Hb. cbn [WrapBody.wexec WrapBody.wstep]. rewrite Hf.
    cbn [wstart w_handle]. rewrite Hb. reflexivity.
  Qed.

  (* the same body on a wrapper the instance no longer refers to never touches the instance *)
  Theorem stale_inplace_inert : forall m a hv,
      w_inst (fst (wexec (wstart a hv false) [SGuard; SApplySelf m])) = a.
  Proof.
    intros m a hv. cbn [WrapBody.wexec WrapBody.wstep]. destruct (frozen c n); [reflexivity|].
    cbn [wstart w_handle]. destruct (base_of m hv); reflexivity.
  Qed.
End Proofs.

(* ------------------------------------------------------------------ histories of wrapper calls *)

Section CallHistories.
  Variable re_match : N -> pystr -> bool.
  Variable e : env.
  Variable c : classdef.

  (* side conditions on the oracles of one call (see [results_not_none], [self_ops_total]) *)
  Definition call_wf (k : wcall) : Prop :=
    is_none_val (wc_handle k) = false /\ results_not_none (wc_base k) /\ self_ops_total (wc_base k) (wc_body k).

  Lemma call_refines_mstep a k :
    call_shape_safe k = true -> call_wf k ->
    (w_inst (fst (call_exec re_match e c a k)), snd (call_exec re_match e c a k)) = mstep re_match e c a (call_mop k).
  Proof.
    intros Hs [Hh [Hc Ht]]. unfold call_shape_safe in Hs. unfold call_mop, call_exec.
    destruct (classify (wc_kind k) (wc_meth k) (wc_body k)) as [g| | |] eqn:Ecl; try discriminate.
    exact (cmr_body_sound re_match e (wc_base k) (wc_partial k) c (wc_field k)
             (wc_kind k) (wc_meth k) (wc_body k) g a (wc_handle k) (wc_live k) Ecl Hh Hc Ht).
  Qed.

  (* a whole history of calls through recognised bodies IS the history of the corresponding coarse operations *)
  Theorem calls_refine_ops : forall ks a,
      Forall (fun k => call_shape_safe k = true /\ call_wf k) ks ->
      run_calls re_match e c a ks = run_ops re_match e c a (map call_mop ks).
  Proof.
    induction ks as [|k ks IH]; intros a HF; [reflexivity|].
    inversion HF as [|k' ks' [Hs Hw] HF']; subst.
    unfold run_calls, run_ops in *. cbn [fold_left map].
    pose proof (call_refines_mstep a k Hs Hw) as H1.
    assert (Hi : w_inst (fst (call_exec re_match e c a k)) = fst (mstep re_match e c a (call_mop k))).
    { rewrite <- H1. reflexivity. }
    rewrite Hi. apply IH. exact HF'.
  Qed.

  (* ... so the history theorem of C03 applies to it: any sequence of calls of methods whose bodies are classified
     copy-mutate-reassign, with acceptable would-be-stored values, keeps the instance valid -- failed calls included *)
  Theorem call_history_valid : forall ks a,
      hook_wf c = true -> struct_ok re_match e c a = true ->
      Forall (fun k => call_shape_safe k = true /\ call_wf k) ks ->
      hist_safe re_match e c a (map call_mop ks) = true ->
      struct_ok re_match e c (run_calls re_match e c a ks) = true.
  Proof.
    intros ks a Hwf Hok HF Hs. rewrite (calls_refine_ops ks a HF).
    exact (proj1 (history_safe re_match e c Hwf (map call_mop ks) a Hok Hs)).
  Qed.
End CallHistories.
