(* The hypotheses of [new_is_define] (Struct/DefineNewProofs.v) are satisfiable: a class statement with a Field, a
   Constant and a plain attribute, a heap that describes the objects of its class body, and an oracle that does what
   the contracts say (for the model: type.__new__ computes the MRO with [mro_of], _try_default_value validates with
   [vset], ...).  The theorem then gives the class description [define] computes. *)
From Coq Require Import ZArith NArith String Ascii Bool Lia List Permutation.
Import ListNotations.
From TP Require Import Base.PyVal Base.PyEq Base.PyOps Base.PyOps2 Base.PyObj Base.PyOpsDerive Base.PyOpsDefine
     Fields.FieldAst Fields.SetChain Struct.Define Struct.DefineProofs Gen.DefineSrc Struct.DefineSrcProofs Struct.DefineNewProofs.

Definition x_gd : guards := default_guards.
Definition x_extra : pystr -> list (pystr * pyval) := fun _ => [].
(* class C(Structure): a = Integer(); k = Constant(3); limit = 7 *)
Definition x_s : classstmt :=
  {| s_name := nm "C"; s_bases := [n_Structure];
     s_members := [(nm "a", SDecl ex_f_int false None None); (nm "k", SConst (PNum (NInt 3)))];
     s_required := None; s_optional := None; s_additional := None; s_ignore_none := None;
     s_attrs := [(nm "limit", UInt)]; s_keys_of := [] |}.
Definition x_pre : members :=
  [(nm "a", MField {| fo_field := ex_f_int; fo_immutable := false; fo_default := None |}); (nm "k", MConst (PNum (NInt 3)))].
Definition x_ents : list (pystr * pyval) :=
  [(nm "__module__", PStr (nm "m")); (nm "__qualname__", PStr (nm "C")); (nm "a", ref (mobj x_s (nm "a")));
   (nm "k", ref (mobj x_s (nm "k"))); (nm "limit", PNum (NInt 7)); (nm "_defaults", v_defs [])].
Definition x_ann : list (pystr * pyval) := [].
Definition x_cd0 : pyval := PDict (skeys x_ents).
Definition x_cls : pyval := ref (nm "StructMeta").

Definition x_member_cell (m : member) (a : pystr) : option pyval :=
  if pystr_eqb a (ia "Field") then Some (PBool (negb (is_const m)))
  else if pystr_eqb a (ia "Constant") then Some (PBool (is_const m))
  else if pystr_eqb a (s2p "_val") then match m with MConst v => Some v | MField _ => None end
  else if pystr_eqb a n__default then match m with MField fo => Some (default_attr (fo_default fo)) | MConst _ => None end
  else None.

Definition x_h0 : heap :=
  fun o a =>
    match strip_prefix (mobj x_s []) o with
    | Some n => match alist_get x_pre n with Some m => x_member_cell m a | None => None end
    | None =>
        match strip_prefix (s2p ":type:") o with
        | Some _ => if pystr_eqb a (ia "type") then Some (PBool true) else None
        | None =>
            if pystr_eqb o annobj then (if pystr_eqb a n_dict_content then Some (PDict (skeys x_ann)) else None)
            else if pystr_eqb o n_Structure && pystr_eqb a (n_blocked) then Some (PBool (gd_block_non_typedpy x_gd))
            else if pystr_eqb o n_TypedPyDefaults && pystr_eqb a (s2p "block_unknown_consts") then Some (PBool (gd_block_unknown_consts x_gd))
            else genv_heap x_gd genv0 x_extra o a
        end
    end.

(* the oracle of the model *)
Definition x_X : ext_oracle :=
  fun name hh args =>
    if pystr_eqb name (s2p "is_function_returning_field") || pystr_eqb name (s2p "type_is_generic") then Ok (hh, PBool false, args)
    else if pystr_eqb name (s2p "currentframe") then Ok (hh, PStruct (s2p "frame") [(s2p "f_back", PNone)], args)
    else if pystr_eqb name (s2p "add_annotations_to_class_dict") then
      match args with [_; kw] => Ok (hh, PNone, [PDict (skeys x_ents); kw]) | _ => Raise Unmodelled end
    else if pystr_eqb name (s2p "._try_default_value") then
      match args with
      | [_; v] => match vset T [] ex_f_int v with Ok _ => Ok (hh, PNone, args) | Raise x => Raise x end
      | _ => Raise Unmodelled
      end
    else if pystr_eqb name (s2p "super().__new__") then
      match mro_of genv0 (s_name x_s) (s_bases x_s) with
      | Ok mro => Ok (created genv0 x_s x_pre x_ann None hh mro, ref (s_name x_s), args)
      | Raise x => Raise x
      end
    else Raise Unmodelled.

Example x_domain : new_domain T [] x_gd genv0 x_extra x_s x_pre x_ann = true.
Proof. vm_compute. reflexivity. Qed.

Example x_init : mapM (init_member T []) (s_members x_s) = Ok x_pre.
Proof. vm_compute. reflexivity. Qed.

Example x_dict_view : dict_view x_s x_pre x_ents x_ann.
Proof.
  constructor.
  - intros k v Hin. unfold x_ents in Hin. cbn [In] in Hin.
    destruct Hin as [E|[E|[E|[E|[E|[E|[]]]]]]]; inversion E; subst.
    + apply EK_special; [cbn; intuition discriminate|reflexivity|exact I].
    + apply EK_special; [cbn; intuition discriminate|reflexivity|exact I].
    + apply EK_member; [cbn; tauto|reflexivity].
    + apply EK_member; [cbn; tauto|reflexivity].
    + apply (EK_attr x_s x_pre _ _ UInt); [cbn; intuition discriminate|cbn; tauto|reflexivity].
    + apply EK_special; [cbn; intuition discriminate|reflexivity|exact I].
  - apply has_dup_false_NoDup. reflexivity.
  - reflexivity.
  - intros n u Hin. cbn [x_s s_attrs In] in Hin. destruct Hin as [E|[]]. inversion E; subst.
    exists (PNum (NInt 7)). split; [cbn; tauto|reflexivity].
  - apply has_dup_false_NoDup. reflexivity.
  - intros n u Hin. cbn [x_s s_attrs In] in Hin. destruct Hin as [E|[]]. inversion E; subst. reflexivity.
  - reflexivity.
  - reflexivity.
  - reflexivity.
  - reflexivity.
  - reflexivity.
  - reflexivity.
Qed.

Lemma x_builtin_own x kx : find_klass genv0 x = Some kx -> k_own kx = [].
Proof.
  unfold genv0. cbn [find_klass builtin k_name]. repeat (match goal with |- context [pystr_eqb ?a x] => destruct (pystr_eqb a x) end; [intro H; inversion H; reflexivity|]).
  discriminate.
Qed.

Lemma x_not_class o : match o with ch :: _ => negb (N.eqb ch 65 || N.eqb ch 70 || N.eqb ch 73 || N.eqb ch 83 || N.eqb ch 84) | [] => true end = true ->
  forall a, genv_heap x_gd genv0 x_extra o a = None.
Proof.
  intros Ho a. unfold genv_heap, genv0. cbn [find_klass builtin k_name].
  destruct o as [|ch t]; [reflexivity|]. apply negb_true_iff in Ho. repeat (apply orb_false_iff in Ho; destruct Ho as [Ho ?H]).
  unfold n_Abstract, n_Final, n_Immutable, n_Structure, n_TypedPyDefaults.
  change (s2p "AbstractStructure") with (65%N :: s2p "bstractStructure"). change (s2p "FinalStructure") with (70%N :: s2p "inalStructure").
  change (s2p "ImmutableStructure") with (73%N :: s2p "mmutableStructure"). change (s2p "Structure") with (83%N :: s2p "tructure").
  change (s2p "TypedPyDefaults") with (84%N :: s2p "ypedPyDefaults").
  cbn [pystr_eqb]. rewrite ?(N.eqb_sym 65 ch), ?(N.eqb_sym 70 ch), ?(N.eqb_sym 73 ch), ?(N.eqb_sym 83 ch), ?(N.eqb_sym 84 ch).
  rewrite ?Ho, ?H, ?H0, ?H1, ?H2. reflexivity.
Qed.

Example x_heap : mheap x_gd genv0 x_s genv0 x_extra x_ann x_h0 x_pre /\ x_h0 (constsobj x_s) n_dict_content = None.
Proof.
  assert (Hm : forall n a, x_h0 (mobj x_s n) a = match alist_get x_pre n with Some m => x_member_cell m a | None => None end).
  { intros n a. unfold x_h0. replace (mobj x_s n) with (mobj x_s [] ++ n) by (symmetry; apply mobj_app). rewrite strip_prefix_app. reflexivity. }
  assert (Ht : forall n a, x_h0 (tyobj n) a = if pystr_eqb a (ia "type") then Some (PBool true) else None).
  { intros n a. unfold x_h0, tyobj. replace (strip_prefix (mobj x_s []) (s2p ":type:" ++ n)) with (@None pystr) by reflexivity.
    rewrite strip_prefix_app. reflexivity. }
  assert (Hother : forall o a, strip_prefix (mobj x_s []) o = None -> strip_prefix (s2p ":type:") o = None -> pystr_eqb o annobj = false ->
            pystr_eqb a n_blocked = false -> pystr_eqb a (s2p "block_unknown_consts") = false -> x_h0 o a = genv_heap x_gd genv0 x_extra o a).
  { intros o a H1 H2 H3 H4 H5. unfold x_h0. rewrite H1, H2, H3, H4, H5, !andb_false_r. reflexivity. }
  split; [|reflexivity].
  constructor.
  - constructor.
    + intros o a Ha. unfold x_h0.
      destruct (strip_prefix (mobj x_s []) o) as [n|] eqn:E1.
      { apply strip_prefix_inv in E1. subst o. rewrite x_not_class by reflexivity.
        destruct (alist_get x_pre n); [|reflexivity]. unfold x_member_cell.
        apply str_in_In in Ha. unfold env_list in Ha. cbn [In] in Ha. repeat (destruct Ha as [<-|Ha]; [reflexivity|]). destruct Ha. }
      destruct (strip_prefix (s2p ":type:") o) as [n|] eqn:E2.
      { apply strip_prefix_inv in E2. subst o. rewrite x_not_class by reflexivity.
        apply str_in_In in Ha. unfold env_list in Ha. cbn [In] in Ha. repeat (destruct Ha as [<-|Ha]; [reflexivity|]). destruct Ha. }
      destruct (pystr_eqb o annobj) eqn:E3.
      { apply pystr_eqb_spec in E3. subst o. apply str_in_In in Ha. unfold env_list in Ha. cbn [In] in Ha. repeat (destruct Ha as [<-|Ha]; [reflexivity|]). destruct Ha. }
      apply str_in_In in Ha. unfold env_list in Ha. cbn [In] in Ha.
      repeat (destruct Ha as [<-|Ha]; [rewrite !andb_false_r; reflexivity|]). destruct Ha.
    + reflexivity.
    + intros x kx n Hk Hn. rewrite (x_builtin_own x kx Hk) in Hn. destruct Hn.
  - intros n m Hg. rewrite Hm, Hg. reflexivity.
  - intros n m Hg. rewrite Hm, Hg. reflexivity.
  - intros n v Hg. rewrite Hm, Hg. reflexivity.
  - intro n. rewrite Hm. destruct (alist_get x_pre n) as [[fo|v]|]; reflexivity.
  - intros n a Ha. rewrite Hm. destruct (alist_get x_pre n) as [m|]; [|reflexivity]. cbn [In] in Ha.
    repeat (destruct Ha as [<-|Ha]; [reflexivity|]). destruct Ha.
  - intro n. split; [rewrite Ht; reflexivity|]. intros a Ha. rewrite Ht. cbn [In] in Ha. repeat (destruct Ha as [<-|Ha]; [reflexivity|]). destruct Ha.
  - split; [reflexivity|]. intros a Ha. cbn [In] in Ha. repeat (destruct Ha as [<-|Ha]; [reflexivity|]). destruct Ha.
  - reflexivity.
  - reflexivity.
  - intros x kx n m Hk Hin. unfold own_of in Hin. rewrite Hk in Hin. rewrite (x_builtin_own x kx Hk) in Hin. destruct (k_is_struct kx); destruct Hin.
Qed.

Example x_contracts : new_contracts T [] x_gd genv0 x_extra (fun l => l) x_X x_s x_pre x_ents x_ann x_cd0 x_cls None.
Proof.
  constructor.
  - intros; reflexivity.
  - intros; reflexivity.
  - intros; reflexivity.
  - intros; reflexivity.
  - intros hh n fo v Hg. unfold x_pre in Hg. cbn [alist_get] in Hg.
    destruct (pystr_eqb (nm "a") n); [inversion Hg; subst; reflexivity|].
    destruct (pystr_eqb (nm "k") n); discriminate.
  - intros; reflexivity.
  - intros mro ms an h C Hs Hna Han. exists h, an.
    split; [apply (annotations_completed_none x_gd genv0 x_extra _ x_X x_s x_ann mro ms an h eq_refl C)|].
    split; [exact C|]. split; [intros; reflexivity|]. split; [exact Hna|exact Han].
Qed.

(* the theorem, on this class statement: the model defines the class ... *)
Example x_define :
  define T [] x_gd genv0 x_s =
  Ok {| k_name := nm "C"; k_is_struct := true; k_bases := [n_Structure]; k_mro := [nm "C"; n_Structure];
        k_own := x_pre; k_all := x_pre; k_required := [nm "a"; nm "k"]; k_sig_req := [nm "a"]; k_sig_opt := []; k_sig_kwargs := true;
        k_additional := None; k_ignore_none := None; k_constants := [(nm "k", PNum (NInt 3))] |}.
Proof. vm_compute. reflexivity. Qed.

(* ... and StructMeta.__new__ yields a class object that is that description *)
Example x_new_is_define :
  exists h' cd',
    StructMeta_new (fun l => l) x_X x_h0 x_cls (PStr (nm "C")) (PTuple (v_refs [n_Structure])) x_cd0 = Ok (h', ref (nm "C"), cd') /\
    exists k, define T [] x_gd genv0 x_s = Ok k /\ klass_cells x_s h' k.
Proof.
  destruct x_heap as [M Hfree].
  destruct (new_is_define T [] x_gd genv0 x_extra (fun l => l) x_X x_s x_pre x_ents x_ann x_cd0 x_cls None x_h0
              x_domain so_ok_id x_dict_view x_contracts x_init M Hfree) as [H1 [H2 _]].
  destruct (define_new T [] x_gd genv0 x_s x_pre) as [k|x] eqn:Ek.
  - destruct H1 as [h' [cd' [Hr Hk]]]. exists h', cd'. split; [exact Hr|]. exists k. split; [exact (proj2 (H2 k) eq_refl)|exact Hk].
  - exfalso. pose proof (proj1 (H2 _) x_define) as Hn. discriminate.
Qed.

(* the two orders of checks differ on a statement with two faults: `a: Integer = []` (a mutable default: ValueError
   in the model) together with `b = int` (a non-typedpy assignment: TypeError, which the source reports first) *)
Definition x_two_faults : classstmt :=
  {| s_name := nm "D"; s_bases := [n_Structure];
     s_members := [(nm "a", SDecl ex_f_int false None (Some (DLit (PList []))))];
     s_required := None; s_optional := None; s_additional := None; s_ignore_none := None;
     s_attrs := [(nm "b", UType)]; s_keys_of := [] |}.
Example x_order_differs :
  define T [] x_gd genv0 x_two_faults = Raise ValueError /\
  define_new T [] x_gd genv0 x_two_faults [(nm "a", MField {| fo_field := ex_f_int; fo_immutable := false; fo_default := None |})] = Raise TypeError /\
  order_ok T [] x_gd genv0 x_two_faults [(nm "a", MField {| fo_field := ex_f_int; fo_immutable := false; fo_default := None |})] = false.
Proof. repeat split; vm_compute; reflexivity. Qed.

Print Assumptions x_new_is_define.
