(* Lemmas about the class-definition model (Struct/Define.v). *)
From Coq Require Import ZArith NArith String Ascii Bool Lia List.
Import ListNotations.
From TP Require Import Base.PyVal Fields.FieldAst Fields.SetChain Struct.Define.

(* ------------------------------------------------------------------ names *)

Lemma str_in_In n l : str_in n l = true <-> In n l.
Proof.
  unfold str_in. rewrite existsb_exists. split.
  - intros [x [Hin He]]. apply pystr_eqb_spec in He. subst. exact Hin.
  - intro H. exists n. split; [exact H | apply pystr_eqb_refl].
Qed.

Lemma str_in_false n l : str_in n l = false <-> ~ In n l.
Proof.
  split; intro H.
  - intro Hin. apply str_in_In in Hin. congruence.
  - destruct (str_in n l) eqn:E; [apply str_in_In in E; contradiction | reflexivity].
Qed.

Lemma has_dup_false_NoDup l : has_dup_str l = false -> NoDup l.
Proof.
  induction l as [|x t IH]; cbn [has_dup_str]; intro H; [constructor|].
  apply orb_false_iff in H as [H1 H2]. constructor; [apply str_in_false; exact H1 | auto].
Qed.

Lemma NoDup_has_dup_false l : NoDup l -> has_dup_str l = false.
Proof.
  induction 1 as [|x t Hn Hd IH]; cbn [has_dup_str]; [reflexivity|].
  apply orb_false_iff; split; [apply str_in_false; exact Hn | exact IH].
Qed.

Lemma pystr_eqb_sym a b : pystr_eqb a b = pystr_eqb b a.
Proof.
  destruct (pystr_eqb a b) eqn:E.
  - apply pystr_eqb_spec in E; subst. symmetry; apply pystr_eqb_refl.
  - destruct (pystr_eqb b a) eqn:E'; [|reflexivity].
    apply pystr_eqb_spec in E'; subst. rewrite pystr_eqb_refl in E. discriminate.
Qed.

Lemma In_remove_str x n l : In x (remove_str n l) <-> In x l /\ x <> n.
Proof.
  unfold remove_str. rewrite filter_In. split; intros [H1 H2]; split; auto.
  - apply negb_true_iff in H2. apply pystr_eqb_neq in H2. exact H2.
  - apply negb_true_iff. apply pystr_eqb_neq. exact H2.
Qed.

Lemma In_add_str x n l : In x (add_str n l) <-> In x l \/ x = n.
Proof.
  unfold add_str. destruct (str_in n l) eqn:E.
  - apply str_in_In in E. split; [auto | intros [H|H]; subst; auto].
  - rewrite in_app_iff. cbn. split; intros [H|H]; auto.
    + destruct H as [H|[]]; auto.
Qed.

Lemma NoDup_filter {A} (f : A -> bool) l : NoDup l -> NoDup (filter f l).
Proof.
  induction 1 as [|x t Hn Hd IH]; cbn; [constructor|].
  destruct (f x); [constructor; [rewrite filter_In; tauto | exact IH] | exact IH].
Qed.

Lemma In_dedup_str x l : In x (dedup_str l) <-> In x l.
Proof.
  induction l as [|y t IH]; cbn [dedup_str]; [tauto|].
  cbn [In]. rewrite filter_In, IH. split.
  - intros [H|[H _]]; auto.
  - intros [H|H]; auto.
    destruct (pystr_eqb x y) eqn:E.
    + apply pystr_eqb_spec in E. auto.
    + right. split; [exact H | reflexivity].
Qed.

Lemma NoDup_dedup_str l : NoDup (dedup_str l).
Proof.
  induction l as [|y t IH]; cbn [dedup_str]; constructor.
  - rewrite filter_In. intros [_ H]. rewrite pystr_eqb_refl in H. discriminate.
  - apply NoDup_filter. exact IH.
Qed.

Lemma dedup_str_NoDup_id l : NoDup l -> dedup_str l = l.
Proof.
  induction 1 as [|x t Hn Hd IH]; cbn [dedup_str]; [reflexivity|].
  rewrite IH. f_equal. clear IH Hd. induction t as [|y t IH]; [reflexivity|].
  cbn [filter]. destruct (pystr_eqb y x) eqn:E.
  - apply pystr_eqb_spec in E; subst. exfalso; apply Hn; left; reflexivity.
  - cbn [negb]. f_equal. apply IH. intro H; apply Hn; right; exact H.
Qed.

(* ------------------------------------------------------------------ association lists *)

Lemma alist_get_In_fst {A} (l : list (pystr * A)) n v : alist_get l n = Some v -> In n (map fst l).
Proof.
  induction l as [|[k x] t IH]; cbn [alist_get map fst]; [discriminate|].
  destruct (pystr_eqb k n) eqn:E.
  - apply pystr_eqb_spec in E. intros _. left. exact E.
  - intro H. right. apply IH. exact H.
Qed.

Lemma alist_get_None_notin {A} (l : list (pystr * A)) n : alist_get l n = None <-> ~ In n (map fst l).
Proof.
  induction l as [|[k x] t IH]; cbn [alist_get map fst In]; [tauto|].
  destruct (pystr_eqb k n) eqn:E.
  - apply pystr_eqb_spec in E. split; [discriminate | intro H; exfalso; apply H; left; exact E].
  - apply pystr_eqb_neq in E. rewrite IH. tauto.
Qed.

Lemma alist_has_In {A} (l : list (pystr * A)) n : alist_has l n = true <-> In n (map fst l).
Proof.
  unfold alist_has. destruct (alist_get l n) eqn:E.
  - split; [intros _; eapply alist_get_In_fst; exact E | reflexivity].
  - split; [discriminate | intro H; apply alist_get_None_notin in E; contradiction].
Qed.

Lemma alist_get_In {A} (l : list (pystr * A)) n v : alist_get l n = Some v -> In (n, v) l.
Proof.
  induction l as [|[k x] t IH]; cbn [alist_get]; [discriminate|].
  destruct (pystr_eqb k n) eqn:E.
  - apply pystr_eqb_spec in E. intro H; inversion H; subst. left; reflexivity.
  - intro H; right; auto.
Qed.

Lemma In_alist_get_NoDup {A} (l : list (pystr * A)) n v :
  NoDup (map fst l) -> In (n, v) l -> alist_get l n = Some v.
Proof.
  induction l as [|[k x] t IH]; cbn [map fst alist_get]; intros Hnd Hin; [destruct Hin|].
  inversion Hnd as [|? ? Hnotin Hnd']; subst.
  destruct Hin as [Hin|Hin].
  - inversion Hin; subst. rewrite pystr_eqb_refl. reflexivity.
  - destruct (pystr_eqb k n) eqn:E.
    + apply pystr_eqb_spec in E; subst. exfalso. apply Hnotin. apply in_map_iff. exists (n, v). auto.
    + apply IH; assumption.
Qed.

Lemma alist_set_absent {A} (l : list (pystr * A)) n v :
  ~ In n (map fst l) -> alist_set l n v = l ++ [(n, v)].
Proof.
  induction l as [|[k x] t IH]; cbn [alist_set map fst In app]; intro H; [reflexivity|].
  destruct (pystr_eqb k n) eqn:E.
  - apply pystr_eqb_spec in E. exfalso; apply H; left; exact E.
  - f_equal. apply IH. intro; apply H; right; assumption.
Qed.

Lemma alist_set_names {A} (l : list (pystr * A)) n v x :
  In x (map fst (alist_set l n v)) <-> In x (map fst l) \/ x = n.
Proof.
  induction l as [|[k y] t IH]; cbn [alist_set map fst In].
  - split; [intros [H|[]]; auto | intros [[]|H]; auto].
  - destruct (pystr_eqb k n) eqn:E.
    + apply pystr_eqb_spec in E; subst. cbn [map fst In]. split; [tauto | intros [H|H]; subst; auto].
    + cbn [map fst In]. rewrite IH. tauto.
Qed.

Lemma alist_get_set_same {A} (l : list (pystr * A)) n v : alist_get (alist_set l n v) n = Some v.
Proof.
  induction l as [|[k y] t IH]; cbn [alist_set alist_get].
  - rewrite pystr_eqb_refl. reflexivity.
  - destruct (pystr_eqb k n) eqn:E; cbn [alist_get]; rewrite E; [reflexivity | exact IH].
Qed.

Lemma alist_get_set_other {A} (l : list (pystr * A)) n v x :
  x <> n -> alist_get (alist_set l n v) x = alist_get l x.
Proof.
  intro Hne. induction l as [|[k y] t IH]; cbn [alist_set alist_get].
  - destruct (pystr_eqb n x) eqn:E; [apply pystr_eqb_spec in E; congruence | reflexivity].
  - destruct (pystr_eqb k n) eqn:E; cbn [alist_get].
    + apply pystr_eqb_spec in E; subst.
      destruct (pystr_eqb n x) eqn:E2; [apply pystr_eqb_spec in E2; congruence | reflexivity].
    + destruct (pystr_eqb k x); [reflexivity | exact IH].
Qed.

Lemma alist_set_NoDup {A} (l : list (pystr * A)) n v : NoDup (map fst l) -> NoDup (map fst (alist_set l n v)).
Proof.
  induction l as [|[k y] t IH]; cbn [alist_set map fst]; intro H.
  - constructor; [intros [] | constructor].
  - inversion H as [|? ? Hn Hd]; subst.
    destruct (pystr_eqb k n) eqn:E; cbn [map fst].
    + constructor; assumption.
    + constructor; [|auto]. intro Hin. apply alist_set_names in Hin as [Hin|Hin]; [contradiction|].
      subst. rewrite pystr_eqb_refl in E. discriminate.
Qed.

(* ------------------------------------------------------------------ update_members *)

Lemma update_members_names acc own x :
  In x (map fst (update_members acc own)) <-> In x (map fst acc) \/ In x (map fst own).
Proof.
  unfold update_members. revert acc. induction own as [|[n m] t IH]; intro acc; cbn [fold_left map fst In].
  - tauto.
  - rewrite IH, alist_set_names. cbn [fst snd]. split; intros H; intuition.
Qed.

Lemma update_members_NoDup acc own : NoDup (map fst acc) -> NoDup (map fst (update_members acc own)).
Proof.
  unfold update_members. revert acc. induction own as [|[n m] t IH]; intros acc H; cbn [fold_left]; [exact H|].
  apply IH. apply alist_set_NoDup. exact H.
Qed.

Lemma update_members_get_own acc own n :
  NoDup (map fst own) ->
  alist_get (update_members acc own) n =
  match alist_get own n with Some m => Some m | None => alist_get acc n end.
Proof.
  unfold update_members. revert acc. induction own as [|[k m] t IH]; intros acc Hnd; cbn [fold_left alist_get fst snd].
  - reflexivity.
  - inversion Hnd as [|? ? Hn Hd]; subst. rewrite IH by exact Hd.
    destruct (pystr_eqb k n) eqn:E.
    + apply pystr_eqb_spec in E; subst.
      assert (Hnone : alist_get t n = None) by (apply alist_get_None_notin; exact Hn).
      rewrite Hnone. apply alist_get_set_same.
    + destruct (alist_get t n); [reflexivity|].
      apply alist_get_set_other. apply pystr_eqb_neq in E. congruence.
Qed.

Lemma update_members_nil own : NoDup (map fst own) -> update_members [] own = own.
Proof.
  intro Hnd. unfold update_members.
  assert (G : forall acc, NoDup (map fst (acc ++ own)) ->
                          fold_left (fun a nm => alist_set a (fst nm) (snd nm)) own acc = acc ++ own).
  { clear Hnd. induction own as [|[n m] t IH]; intros acc H; cbn [fold_left fst snd].
    - rewrite app_nil_r. reflexivity.
    - rewrite alist_set_absent.
      + replace (acc ++ (n, m) :: t) with ((acc ++ [(n, m)]) ++ t) by (rewrite <- app_assoc; reflexivity).
        apply IH. rewrite <- app_assoc. exact H.
      + rewrite map_app in H. cbn [map fst] in H. apply NoDup_remove_2 in H.
        intro Hin. apply H. apply in_or_app. left. exact Hin. }
  apply (G []). exact Hnd.
Qed.

(* ------------------------------------------------------------------ fields_of_mro *)

Lemma fields_of_mro_names g mro x :
  In x (map fst (fields_of_mro g mro)) <-> exists c, In c mro /\ In x (map fst (own_of g c)).
Proof.
  unfold fields_of_mro.
  assert (G : forall l acc, In x (map fst (fold_left (fun a c => update_members a (own_of g c)) l acc)) <->
                            In x (map fst acc) \/ exists c, In c l /\ In x (map fst (own_of g c))).
  { induction l as [|c t IH]; intro acc; cbn [fold_left].
    - split; [auto | intros [H|[c [[] _]]]; exact H].
    - rewrite IH, update_members_names. split.
      + intros [[H|H]|[c' [H1 H2]]]; [auto | right; exists c; split; [left; reflexivity | exact H] |
                                        right; exists c'; split; [right; exact H1 | exact H2]].
      + intros [H|[c' [[H1|H1] H2]]]; [auto | subst; auto | right; exists c'; auto]. }
  rewrite G. cbn [map In]. split.
  - intros [[]|[c [H1 H2]]]. exists c. split; [apply in_rev; exact H1 | exact H2].
  - intros [c [H1 H2]]. right. exists c. split; [apply in_rev in H1; exact H1 | exact H2].
Qed.

Lemma fields_of_mro_NoDup g mro : NoDup (map fst (fields_of_mro g mro)).
Proof.
  unfold fields_of_mro. generalize (rev mro) as l.
  assert (G : forall l acc, NoDup (map fst acc) ->
                            NoDup (map fst (fold_left (fun a c => update_members a (own_of g c)) l acc))).
  { induction l as [|c t IH]; intros acc H; cbn [fold_left]; [exact H|].
    apply IH. apply update_members_NoDup. exact H. }
  intro l. apply G. constructor.
Qed.

(* ------------------------------------------------------------------ results *)

Lemma check_ok b x u : check b x = Ok u -> b = false.
Proof. unfold check. destruct b; [discriminate | reflexivity]. Qed.

Lemma check_true b x : b = true -> check b x = Raise x.
Proof. intros ->. reflexivity. Qed.

Lemma bind_ok {A B} (r : res A) (f : A -> res B) b : bind r f = Ok b -> exists a, r = Ok a /\ f a = Ok b.
Proof. destruct r; cbn [bind]; [eauto | discriminate]. Qed.

Lemma bind_raise {A B} (r : res A) (f : A -> res B) x : r = Raise x -> bind r f = Raise x.
Proof. intros ->. reflexivity. Qed.

Lemma is_ok_bind_false {A B} (r : res A) (f : A -> res B) :
  (forall a, r = Ok a -> is_ok (f a) = false) -> is_ok (bind r f) = false.
Proof. destruct r; cbn [bind is_ok]; [intro H; apply H; reflexivity | reflexivity]. Qed.

Section DefineProofs.
  Variable re_match : N -> pystr -> bool.
  Variable e : env.
  Variable gd : guards.

  Notation define := (define re_match e gd).
  Notation build_members := (build_members re_match e).
  Notation build_member := (build_member re_match e).
  Notation base_info := (base_info gd).

  (* what a successful class statement established *)
  Record defined (g : genv) (s : classstmt) (k : klass) : Prop := {
    df_nodup : has_dup_str (map fst (s_members s)) = false;
    df_own : build_members (s_members s) = Ok (k_own k);
    df_bp : exists bp, base_info g (s_bases s) [] false = Ok bp /\
              k_required k = dedup_str (bases_required bp ++ own_required s (k_own k)) /\
              existsb (fun f => str_in f (own_required s (k_own k)) || str_in f (bases_required bp))
                      (opt_list (s_optional s)) = false /\
              make_signature (map fst (s_members s)) (own_required s (k_own k)) bp (map fst (k_constants k))
              = Ok {| sg_req := k_sig_req k; sg_opt := k_sig_opt k |};
    df_names : existsb bad_field_name (map fst (s_members s)) = false;
    df_guard_t : gd_block_non_typedpy gd && existsb non_typedpy_assignment (s_attrs s) = false;
    df_mro : mro_of g (s_name s) (s_bases s) = Ok (k_mro k);
    df_final : final_violation g (tl_str (k_mro k)) = false;
    df_all : k_all k = all_fields g (tl_str (k_mro k)) (k_own k);
    df_consts : k_constants k = constants_of (k_all k);
    df_const_ok : forallb (fun nv => const_type_ok (snd nv)) (k_constants k) = true;
    df_guard_c : gd_block_unknown_consts gd && existsb invalid_const (s_attrs s) = false;
    df_keys : forallb (fun ns => forallb (fun n => alist_has (k_all k) n) ns) (s_keys_of s) = true;
    df_name : k_name k = s_name s;
    df_bases : k_bases k = s_bases s;
    df_struct : k_is_struct k = true;
    df_ign : k_ignore_none k = s_ignore_none s;
    df_addl : k_additional k = s_additional s }.

  Lemma define_inv g s k : define g s = Ok k -> defined g s k.
  Proof.
    unfold Define.define. intro H.
    apply bind_ok in H as [u1 [H1 H]]. apply check_ok in H1.
    apply bind_ok in H as [own [Hown H]].
    apply bind_ok in H as [bp [Hbp H]].
    apply bind_ok in H as [u2 [H2 H]]. apply check_ok in H2.
    apply bind_ok in H as [u3 [H3 H]]. apply check_ok in H3.
    apply bind_ok in H as [mro [Hmro H]].
    apply bind_ok in H as [u4 [H4 H]]. apply check_ok in H4.
    apply bind_ok in H as [u5 [H5 H]]. apply check_ok in H5. apply negb_false_iff in H5.
    apply bind_ok in H as [u6 [H6 H]]. apply check_ok in H6.
    apply bind_ok in H as [u7 [H7 H]]. apply check_ok in H7.
    apply bind_ok in H as [sg [Hsg H]].
    apply bind_ok in H as [u8 [H8 H]]. apply check_ok in H8. apply negb_false_iff in H8.
    inversion H; subst k; clear H.
    constructor; cbn; try assumption; try reflexivity.
    exists bp. repeat split; try assumption. destruct sg; exact Hsg.
  Qed.

  Lemma build_members_objs ms : build_members (map (fun nm => (fst nm, SObj (snd nm))) ms) = Ok ms.
  Proof.
    induction ms as [|[n m] t IH]; cbn [map Define.build_members Define.build_member fst snd bind]; [reflexivity|].
    rewrite IH. reflexivity.
  Qed.

  Lemma build_members_names l own : build_members l = Ok own -> map fst own = map fst l.
  Proof.
    revert own. induction l as [|[n ms] t IH]; cbn [Define.build_members]; intros own H.
    - inversion H. reflexivity.
    - apply bind_ok in H as [m [_ H]]. apply bind_ok in H as [r [Hr H]]. inversion H; subst.
      cbn [map fst]. f_equal. apply IH. exact Hr.
  Qed.

  (* ---------------------------------------------------------------- own_required *)

  Lemma req_fold_predefined optional own r :
    fold_left (req_step true optional) own r =
    filter (fun x => negb (existsb (fun nm => pystr_eqb (fst nm) x && has_default (snd nm)) own)) r.
  Proof.
    revert r. induction own as [|[n m] t IH]; intro r; cbn [fold_left existsb].
    - cbn [negb]. induction r as [|x r IHr]; cbn [filter]; [reflexivity | f_equal; exact IHr].
    - rewrite IH. unfold req_step. cbn [fst snd]. destruct (has_default m).
      + unfold remove_str. induction r as [|x r IHr]; cbn [filter]; [reflexivity|].
        rewrite (pystr_eqb_sym n x). destruct (pystr_eqb x n); cbn [negb andb orb filter].
        * exact IHr.
        * destruct (negb _); [f_equal|]; exact IHr.
      + induction r as [|x r IHr]; cbn [filter]; [reflexivity|].
        rewrite andb_false_r. cbn [orb]. destruct (negb _); [f_equal|]; exact IHr.
  Qed.
End DefineProofs.
