(* The GENERATED constructor (Gen/InitSrc.v) against Errors/Collect.v: WHICH texts a rejected construction
   reports, in collect-all and in fail-fast mode (the model of C18 / C02: [construct_u]), and the
   `_trust_supplied_values` branch against Struct/EntrySites.v [trusted_instance].
   World: Struct/InitModel.v [oracle_world] - what setattr(self, n, v) raises is a function of (n, v). *)
From Coq Require Import ZArith QArith NArith String Ascii Bool Lia List.
Import ListNotations.
From TP Require Import Base.PyVal Base.PyOps Base.PyOps2 Base.PyObj Base.PyOpsInit
     Fields.FieldAst Fields.SetChain Struct.Shapes Struct.Instance Struct.EntrySites Struct.InitModel
     Struct.InstanceProofs Struct.InitSrcProofs Gen.InitSrc
     Errors.Template Errors.Render Errors.Parse Errors.Collect.
From TP Require Base.PyOpsVersioned Base.PyOpsFields Base.PyOpsDerive.
Local Open Scope Z_scope.

Definition te_ve : list xpat := [XP_class TypeError; XP_class ValueError].

Section Reports.
  Variable repr_str : pystr -> pystr.
  Variable dumps : list pystr -> pystr.
  Variable oracle : pystr -> pyval -> option pyexc.

  Definition OW (bound : kwargs) : world := oracle_world repr_str dumps oracle bound.
  Definition BH (cls : pystr) (ff : bool) : heap := init_heap (bare_class cls) ff.

  (* str(e) does not depend on the bound arguments *)
  Definition ostr (x : pyexc) : pystr := exc_str (OW []) x.

  (* the bound arguments as Errors/Collect.v sees them: the text of what setattr raises, and whether the
     collect-all loop (`except (TypeError, ValueError)`) catches it *)
  Definition uargs (l : kwargs) : list uarg :=
    map (fun p => (fst p, option_map (fun x => (ostr x, catches te_ve x)) (oracle (fst p) (snd p)))) l.

  (* names the message-level statements speak about: plain, and not "kwargs" (Signature.bind files the extras there) *)
  Definition msg_names (l : kwargs) : bool :=
    forallb (fun p => plain (fst p) && negb (pystr_eqb (fst p) n_kwargs)) l.

  (* ---------------------------------------------------------------- the collect-all loop *)
  Definition ca_body (w : world) : pyval * pyval -> list pyexc -> M (list pyexc) :=
    fun '(n, v) acc =>
      (r <~ tryM (_ <~ w_setattr w n v ;; (ret acc)) [XP_class TypeError; XP_class ValueError]
                 (fun x => (let acc' := (acc ++ [x])%list in (ret acc'))) ;;
       (ret r)).

  Fixpoint ocollect (l : kwargs) (acc : list pyexc) (s : istate) : istate * (list pyexc + pyexc) :=
    match l with
    | [] => (s, inl acc)
    | (n, v) :: t =>
        match oracle_setattr oracle (PStr n) v s with
        | (s', inl _) => ocollect t acc s'
        | (s', inr x) => if catches te_ve x then ocollect t (acc ++ [x]) s' else (s', inr x)
        end
    end.

  Lemma ca_loop b : forall l acc s, for_acc (ca_body (OW b)) (pairs l) acc s = ocollect l acc s.
  Proof.
    induction l as [|[n v] t IH]; intros acc s; [reflexivity|].
    cbn [pairs map for_acc fst snd ocollect]. fold (pairs t). unfold bindM at 1.
    unfold ca_body. unfold bindM at 1. unfold tryM. unfold bindM at 1.
    cbn [w_setattr OW oracle_world].
    destruct (oracle_setattr oracle (PStr n) v s) as [s1 [[]|x]].
    - cbn [ret]. apply IH.
    - unfold te_ve. destruct (catches [XP_class TypeError; XP_class ValueError] x); [cbn [ret]; apply IH | reflexivity].
  Qed.

  Lemma oracle_setattr_plain n v s :
    plain n = true ->
    oracle_setattr oracle (PStr n) v s =
    match oracle n v with None => (alist_set s n v, inl tt) | Some x => (s, inr x) end.
  Proof. intro Hn. unfold oracle_setattr. rewrite (plain_not_internal n Hn). reflexivity. Qed.

  Definition names_plain' (l : kwargs) : bool := forallb (fun p => plain (fst p)) l.

  (* the loop is Errors/Collect.v [collect_loop] on the texts; the __dict__ keeps holding plain names *)
  Lemma ocollect_spec : forall l acc s,
      names_plain' l = true -> keys_ok s = true ->
      keys_ok (fst (ocollect l acc s)) = true /\
      match collect_loop (uargs l) (map ostr acc) with
      | inr msgs => exists errs, snd (ocollect l acc s) = inl errs /\ map ostr errs = msgs
      | inl m => exists x, snd (ocollect l acc s) = inr x /\ ostr x = m /\ catches te_ve x = false /\
                           exists p, In p l /\ oracle (fst p) (snd p) = Some x
      end.
  Proof.
    induction l as [|[n v] t IH]; intros acc s Hl Hk.
    - cbn [ocollect uargs map collect_loop fst snd]. split; [exact Hk|]. exists acc. split; reflexivity.
    - cbn [names_plain' forallb fst] in Hl. apply andb_true_iff in Hl. destruct Hl as [Hn Ht].
      cbn [ocollect uargs map collect_loop fst snd]. fold (uargs t). rewrite (oracle_setattr_plain n v s Hn).
      destruct (oracle n v) as [x|] eqn:Eo; cbn [option_map].
      + destruct (catches te_ve x) eqn:Ec.
        * specialize (IH (acc ++ [x]) s Ht Hk). rewrite map_app in IH. cbn [map] in IH.
          destruct IH as [K IH]. split; [exact K|].
          destruct (collect_loop (uargs t) (map ostr acc ++ [ostr x])) as [m|msgs].
          -- destruct IH as [y [H1 [H2 [H3 [p [H4 H5]]]]]]. exists y. repeat split; auto. exists p. split; [right; exact H4|exact H5].
          -- exact IH.
        * cbn [fst snd]. split; [exact Hk|]. exists x. repeat split; auto. exists (n, v). split; [left; reflexivity|exact Eo].
      + assert (K1 : keys_ok (alist_set s n v) = true) by (apply keys_ok_set; [exact Hk | rewrite Hn; apply orb_true_r]).
        specialize (IH acc (alist_set s n v) Ht K1). destruct IH as [K IH]. split; [exact K|].
        destruct (collect_loop (uargs t) (map ostr acc)) as [m|msgs].
        * destruct IH as [y [H1 [H2 [H3 [p [H4 H5]]]]]]. exists y. repeat split; auto. exists p. split; [right; exact H4|exact H5].
        * exact IH.
  Qed.

  (* ---------------------------------------------------------------- commons.raise_errs_if_needed *)
  Lemma raise_errs_eval b cls ff errs s :
    src_raise_errs_if_needed (BH cls ff) (OW b) (ref (s2p "cls")) errs s =
    match errs with
    | [] => (s, inl tt)
    | _ => (s, inr (mk_exc InvalidStructureErr (dumps (map (fun x => with_class cls (ostr x)) errs))))
    end.
  Proof.
    unfold src_raise_errs_if_needed. destruct errs as [|x0 rest]; [reflexivity|].
    set (errs := x0 :: rest).
    rewrite (bindM_ok _ _ s s true eq_refl).
    rewrite (bindM_ok _ _ s s (PStr cls) eq_refl).
    assert (L : forall l s0,
               filterMM (fun v_e_3 => (t4 <~ lift (PyOpsDerive.py_format (PStr cls)) ;;
                                       ret (Some (t4 ++ (s2p ".") ++ (exc_str (OW b) v_e_3))%list))) l s0 =
               (s0, inl (map (fun x => with_class cls (ostr x)) l))).
    { induction l as [|y t IH]; intro s0; [reflexivity|].
      cbn [filterMM map]. rewrite (bindM_ok _ _ s0 s0 (Some (with_class cls (ostr y))) eq_refl).
      rewrite (bindM_ok _ _ _ _ _ (IH s0)). reflexivity. }
    rewrite (bindM_ok _ _ _ _ _ (L errs s)). reflexivity.
  Qed.

  (* ---------------------------------------------------------------- the constructor up to the assignment loop *)
  Definition s_none : istate := [(n_none_fields, PSet false [])].

  Lemma no_kwargs_key l : msg_names l = true -> alist_has l n_kwargs = false.
  Proof.
    unfold alist_has. induction l as [|[n v] t IH]; intro H; [reflexivity|].
    cbn [msg_names forallb fst] in H. apply andb_true_iff in H. destruct H as [H1 H2].
    apply andb_true_iff in H1. destruct H1 as [_ H1]. apply negb_true_iff in H1.
    cbn [alist_get]. rewrite H1. apply IH, H2.
  Qed.

  Lemma msg_names_plain l : msg_names l = true -> names_plain' l = true.
  Proof.
    unfold msg_names, names_plain'. intro H. apply forallb_forall. intros p Hp.
    pose proof (proj1 (forallb_forall _ _) H p Hp) as Hq. cbv beta in Hq. apply andb_true_iff in Hq. tauto.
  Qed.

  Definition collect_outcome (cls : pystr) (r : istate * (list pyexc + pyexc)) : istate * (unit + pyexc) :=
    match r with
    | (s', inr x) => (s', inr x)
    | (s', inl []) => (alist_set s' n_instantiated (PBool true), inl tt)
    | (s', inl errs) => (s', inr (mk_exc InvalidStructureErr (dumps (map (fun x => with_class cls (ostr x)) errs))))
    end.

  (* collect-all mode: the whole constructor is the collecting loop followed by raise_errs_if_needed *)
  Lemma init_collect_run cls bound :
    msg_names bound = true ->
    Structure__init (BH cls false) (OW bound) (PTuple []) (kw_dict bound) [] =
    collect_outcome cls (ocollect bound [] s_none).
  Proof.
    intro Hn.
    unfold Structure__init.
    rewrite (bindM_ok _ _ [] [] false eq_refl).
    rewrite (bindM_ok _ _ [] [] (kw_dict bound) eq_refl).
    change (kw_dict bound) with (PDict (pairs bound)).
    change (s2p "kwargs") with n_kwargs.
    rewrite bindM_assoc. rewrite in_pairs. rewrite (no_kwargs_key bound Hn).
    rewrite (bindM_ok _ _ [] [] false eq_refl). cbv beta iota.
    rewrite (bindM_ok _ _ [] [] (PDict (pairs bound)) eq_refl).
    rewrite (bindM_ok _ _ [] [] (PDict []) eq_refl).
    rewrite (bindM_ok _ _ [] [] (@nil (pyval * pyval)) eq_refl).
    rewrite (bindM_ok _ _ [] [] (@nil pyval) eq_refl).
    rewrite (bindM_ok _ _ [] s_none tt eq_refl).
    rewrite (bindM_ok _ _ s_none s_none (PDict []) eq_refl).
    rewrite (bindM_ok _ _ s_none s_none (@nil (pyval * pyval)) eq_refl).
    rewrite (bindM_ok _ _ s_none s_none tt eq_refl).
    rewrite (bindM_ok _ _ s_none s_none tt eq_refl).
    rewrite bindM_assoc. rewrite (bindM_ok _ _ s_none s_none false eq_refl). cbv beta iota.
    rewrite bindM_assoc. rewrite (bindM_ok _ _ s_none s_none (pairs bound) eq_refl).
    rewrite bindM_assoc. unfold bindM at 1.
    change (for_acc _ (pairs bound) [] s_none) with (for_acc (ca_body (OW bound)) (pairs bound) [] s_none).
    rewrite ca_loop.
    destruct (ocollect_spec bound [] s_none (msg_names_plain bound Hn) eq_refl) as [K _].
    destruct (ocollect bound [] s_none) as [s' [errs|x]]; cbn [fst] in K; [|reflexivity].
    rewrite bindM_assoc. unfold BH. rewrite (bindM_ok _ _ _ _ _ (self_class (bare_class cls) false s' K)).
    rewrite bindM_assoc. unfold bindM at 1. fold (BH cls false). rewrite raise_errs_eval.
    destruct errs as [|x0 rest]; [|reflexivity].
    rewrite (bindM_ok _ _ s' s' tt eq_refl).
    rewrite (bindM_ok _ _ s' s' PNone eq_refl).
    rewrite (bindM_ok _ _ s' (alist_set s' n_instantiated (PBool true)) tt eq_refl).
    rewrite (bindM_ok _ _ _ _ tt eq_refl).
    rewrite (bindM_ok _ _ _ _ PNone eq_refl).
    reflexivity.
  Qed.

  (* collect-all construction reports exactly what Errors/Collect.v [construct_u] says: accepted iff no bound argument
     is rejected; otherwise EVERY TypeError / ValueError, in the order of the bound arguments, each prefixed with the
     class name, as one InvalidStructureErr(json.dumps([...])) - for every rendering function [dumps], so the lists
     coincide -, unless some setattr raises another class, which leaves the loop at once, as it is *)
  Theorem generated_init_collect_all : forall cls bound,
      msg_names bound = true ->
      match construct_u dumps false cls (uargs bound) with
      | None => exists s, Structure__init (BH cls false) (OW bound) (PTuple []) (kw_dict bound) [] = (s, inl tt)
      | Some t =>
          exists s x, Structure__init (BH cls false) (OW bound) (PTuple []) (kw_dict bound) [] = (s, inr x) /\
                      exc_str (OW bound) x = x_raw t /\
                      match x_json t with
                      | Some msgs => x_cls x = InvalidStructureErr /\ x_raw t = dumps msgs
                      | None => catches te_ve x = false /\ exists p, In p bound /\ oracle (fst p) (snd p) = Some x
                      end
      end.
  Proof.
    intros cls bound Hn. rewrite (init_collect_run cls bound Hn).
    destruct (ocollect_spec bound [] s_none (msg_names_plain bound Hn) eq_refl) as [_ S].
    unfold construct_u. cbn [map] in S.
    destruct (collect_loop (uargs bound) []) as [m|msgs].
    - destruct S as [x [S1 [S2 [S3 S4]]]].
      destruct (ocollect bound [] s_none) as [s' r]. cbn [snd] in S1. subst r.
      exists s', x. cbn [collect_outcome plain_exn x_raw x_json]. repeat split; assumption.
    - destruct S as [errs [S1 S2]].
      destruct (ocollect bound [] s_none) as [s' r]. cbn [snd] in S1. subst r.
      destruct errs as [|x0 rest]; cbn [map] in S2; subst msgs.
      + eexists. reflexivity.
      + cbn [collect_outcome]. eexists. eexists. split; [reflexivity|].
        cbn [json_exn x_raw x_json]. rewrite <- (map_map ostr (with_class cls)).
        repeat split; reflexivity.
  Qed.

  (* ---------------------------------------------------------------- fail-fast mode *)
  Definition off_body (w : world) (h : heap) : pyval * pyval -> unit -> M unit :=
    fun '(n, v) (_ : unit) =>
      (_ <~ tryM (_ <~ (c0 <~ (ret (negb (is_global v (s2p "Undefined")))) ;;
                        if c0 then (_ <~ w_setattr w n v ;; (ret tt)) else (ret tt)) ;; (ret tt))
                 [XP_Exception]
                 (fun x => (c0 <~ (ret (exc_isinstance x (OtherExn (s2p "JSONDecodeError")))) ;;
                    if c0 then (raiseM x)
                    else (t52 <~ self_getattr h (s2p "__class__") ;;
                          t53 <~ lift (obj_getattr h t52 (s2p "__name__")) ;;
                          let cn := t53 in
                          (t55 <~ lift (PyOpsDerive.py_format cn) ;;
                           raiseM (mk_exc (x_cls x) (t55 ++ (s2p ".") ++ (exc_str w x))%list))))) ;;
       (ret tt)).

  (* what setattr raises is re-raised as the same class with "<Cls>." in front: requires an exception that
     `except Exception` catches, that is not a JSONDecodeError (re-raised as it is) and whose str() is its argument *)
  Definition rewrappable (x : pyexc) : bool :=
    negb (model_level (x_cls x)) && negb (exc_isinstance x (OtherExn (s2p "JSONDecodeError"))) &&
    negb (exn_eqb (x_cls x) KeyError).

  Definition ff_dom (l : kwargs) : bool :=
    forallb (fun p => negb (undefined_ref (snd p)) &&
                      match oracle (fst p) (snd p) with Some x => rewrappable x | None => true end) l.

  Lemma off_body_step b cls n v s :
    plain n = true -> undefined_ref v = false -> keys_ok s = true ->
    match oracle n v with Some x => rewrappable x | None => true end = true ->
    off_body (OW b) (BH cls true) (PStr n, v) tt s =
    match oracle n v with
    | None => (alist_set s n v, inl tt)
    | Some y => (s, inr (mk_exc (x_cls y) (with_class cls (ostr y))))
    end.
  Proof.
    intros Hn Hu Hk Hx. unfold undefined_ref in Hu.
    unfold off_body. unfold bindM at 1. unfold tryM. unfold bindM at 1. unfold bindM at 1.
    unfold ret at 1. rewrite Hu. cbn [negb]. unfold bindM at 1. cbn [w_setattr OW oracle_world].
    rewrite (oracle_setattr_plain n v s Hn).
    destruct (oracle n v) as [y|]; [|reflexivity].
    unfold rewrappable in Hx. apply andb_true_iff in Hx. destruct Hx as [Hx Hx3].
    apply andb_true_iff in Hx. destruct Hx as [Hx1 Hx2].
    apply negb_true_iff in Hx1. apply negb_true_iff in Hx2. apply negb_true_iff in Hx3.
    unfold catches. rewrite Hx1. cbn [negb existsb orb andb].
    unfold bindM at 1. unfold ret at 1. rewrite Hx2.
    unfold BH. rewrite (bindM_ok _ _ _ _ _ (self_class (bare_class cls) true s Hk)).
    rewrite (bindM_ok _ _ s s (PStr cls) eq_refl). cbv zeta.
    rewrite (bindM_ok _ _ s s cls eq_refl).
    unfold raiseM, with_class, ostr, exc_str. destruct (x_cls y); try reflexivity; try discriminate Hx3.
  Qed.

  Lemma off_loop b cls : forall l s,
      names_plain' l = true -> ff_dom l = true -> keys_ok s = true ->
      match errors_of (map forget (uargs l)) with
      | [] => exists s', for_acc (off_body (OW b) (BH cls true)) (pairs l) tt s = (s', inl tt) /\ keys_ok s' = true
      | (n, m) :: _ =>
          exists s' x y, for_acc (off_body (OW b) (BH cls true)) (pairs l) tt s = (s', inr x) /\
                         x_arg x = with_class cls m /\ x_cls x = x_cls y /\ rewrappable y = true /\
                         exists p, In p l /\ oracle (fst p) (snd p) = Some y
      end.
  Proof.
    induction l as [|[n v] t IH]; intros s Hl Hd Hk.
    - exists s. split; [reflexivity|exact Hk].
    - cbn [names_plain' forallb fst] in Hl. apply andb_true_iff in Hl. destruct Hl as [Hn Ht].
      cbn [ff_dom forallb fst snd] in Hd. apply andb_true_iff in Hd. destruct Hd as [Hd1 Hd2].
      apply andb_true_iff in Hd1. destruct Hd1 as [Hu Hx]. apply negb_true_iff in Hu.
      pose proof (off_body_step b cls n v s Hn Hu Hk Hx) as Hstep.
      cbn [uargs map forget errors_of fst snd pairs for_acc]. fold (uargs t). fold (pairs t).
      destruct (oracle n v) as [y|] eqn:Eo; cbn [option_map fst snd].
      + rewrite (bindM_raise _ _ _ _ _ Hstep).
        eexists. eexists. exists y. split; [reflexivity|]. cbn [x_arg x_cls].
        repeat split; auto. exists (n, v). split; [left; reflexivity | exact Eo].
      + rewrite (bindM_ok _ _ _ _ _ Hstep).
        assert (K1 : keys_ok (alist_set s n v) = true) by (apply keys_ok_set; [exact Hk | rewrite Hn; apply orb_true_r]).
        specialize (IH (alist_set s n v) Ht Hd2 K1).
        destruct (errors_of (map forget (uargs t))) as [|[n' m'] rest].
        * exact IH.
        * destruct IH as [s' [x [y [H1 [H2 [H3 [H4 [p [H5 H6]]]]]]]]].
          exists s', x, y. repeat split; auto. exists p. split; [right; exact H5 | exact H6].
  Qed.

  Lemma init_ff_run cls bound :
    msg_names bound = true ->
    Structure__init (BH cls true) (OW bound) (PTuple []) (kw_dict bound) [] =
    match for_acc (off_body (OW bound) (BH cls true)) (pairs bound) tt s_none with
    | (s', inl _) => (alist_set s' n_instantiated (PBool true), inl tt)
    | (s', inr x) => (s', inr x)
    end.
  Proof.
    intro Hn.
    unfold Structure__init.
    rewrite (bindM_ok _ _ [] [] false eq_refl).
    rewrite (bindM_ok _ _ [] [] (kw_dict bound) eq_refl).
    change (kw_dict bound) with (PDict (pairs bound)).
    change (s2p "kwargs") with n_kwargs.
    rewrite bindM_assoc. rewrite in_pairs. rewrite (no_kwargs_key bound Hn).
    rewrite (bindM_ok _ _ [] [] false eq_refl). cbv beta iota.
    rewrite (bindM_ok _ _ [] [] (PDict (pairs bound)) eq_refl).
    rewrite (bindM_ok _ _ [] [] (PDict []) eq_refl).
    rewrite (bindM_ok _ _ [] [] (@nil (pyval * pyval)) eq_refl).
    rewrite (bindM_ok _ _ [] [] (@nil pyval) eq_refl).
    rewrite (bindM_ok _ _ [] s_none tt eq_refl).
    rewrite (bindM_ok _ _ s_none s_none (PDict []) eq_refl).
    rewrite (bindM_ok _ _ s_none s_none (@nil (pyval * pyval)) eq_refl).
    rewrite (bindM_ok _ _ s_none s_none tt eq_refl).
    rewrite (bindM_ok _ _ s_none s_none tt eq_refl).
    rewrite bindM_assoc. rewrite (bindM_ok _ _ s_none s_none true eq_refl). cbv beta iota.
    rewrite bindM_assoc. rewrite (bindM_ok _ _ s_none s_none (pairs bound) eq_refl).
    rewrite bindM_assoc. unfold bindM at 1.
    change (for_acc _ (pairs bound) tt s_none) with (for_acc (off_body (OW bound) (BH cls true)) (pairs bound) tt s_none).
    destruct (for_acc (off_body (OW bound) (BH cls true)) (pairs bound) tt s_none) as [s' [[]|x]]; [|reflexivity].
    cbv beta iota.
    rewrite (bindM_ok _ _ s' s' tt eq_refl).
    rewrite (bindM_ok _ _ s' s' PNone eq_refl).
    rewrite (bindM_ok _ _ s' (alist_set s' n_instantiated (PBool true)) tt eq_refl).
    rewrite (bindM_ok _ _ _ _ tt eq_refl).
    rewrite (bindM_ok _ _ _ _ PNone eq_refl).
    reflexivity.
  Qed.

  (* fail-fast construction reports the FIRST rejected bound argument, as the same class, "<Cls>." prefixed:
     Errors/Collect.v [construct_u] in fail-fast mode *)
  Theorem generated_init_fail_fast_reports : forall cls bound,
      msg_names bound = true -> ff_dom bound = true ->
      match construct_u dumps true cls (uargs bound) with
      | None => exists s, Structure__init (BH cls true) (OW bound) (PTuple []) (kw_dict bound) [] = (s, inl tt)
      | Some t =>
          exists s x y, Structure__init (BH cls true) (OW bound) (PTuple []) (kw_dict bound) [] = (s, inr x) /\
                        x_arg x = x_raw t /\ x_json t = None /\ x_cls x = x_cls y /\
                        exists p, In p bound /\ oracle (fst p) (snd p) = Some y
      end.
  Proof.
    intros cls bound Hn Hd. rewrite (init_ff_run cls bound Hn).
    pose proof (off_loop bound cls bound s_none (msg_names_plain bound Hn) Hd eq_refl) as L.
    unfold construct_u, Collect.construct.
    destruct (errors_of (map forget (uargs bound))) as [|[n m] rest].
    - destruct L as [s' [L1 L2]]. rewrite L1. eexists. reflexivity.
    - destruct L as [s' [x [y [L1 [L2 [L3 [_ L5]]]]]]]. rewrite L1.
      exists s', x, y. cbn [plain_exn x_raw x_json]. repeat split; assumption.
  Qed.
End Reports.

(* ------------------------------------------------------------------ the `_trust_supplied_values` branch *)
From TP Require Ser.Trusted.

Definition s_trusted : istate := [(flag_trusted, PBool true)].

Definition trusted_dom (kw : kwargs) : bool :=
  negb (has_dup (map fst kw)) &&
  forallb (fun p => negb (internal (fst p)) && negb (pystr_eqb (fst p) flag_trusted)) kw.

Lemma alist_set_fresh {A} (s : list (pystr * A)) n v : alist_has s n = false -> alist_set s n v = s ++ [(n, v)].
Proof.
  unfold alist_has. induction s as [|[k x] t IH]; intro H; [reflexivity|].
  cbn [alist_get] in H. cbn [alist_set app]. destruct (pystr_eqb k n); [discriminate H|]. f_equal. apply IH, H.
Qed.

Lemma alist_has_app {A} (s t : list (pystr * A)) n : alist_has (s ++ t) n = alist_has s n || alist_has t n.
Proof.
  unfold alist_has. induction s as [|[k x] r IH]; [reflexivity|].
  cbn [app alist_get]. destruct (pystr_eqb k n); [reflexivity|exact IH].
Qed.

Lemma alist_has_keys' {A} (a : list (pystr * A)) n : alist_has a n = str_in n (map fst a).
Proof.
  unfold alist_has, str_in. induction a as [|[k x] t IH]; [reflexivity|].
  cbn [map fst existsb alist_get]. rewrite (peqb_sym n k). destruct (pystr_eqb k n); [reflexivity|exact IH].
Qed.

Lemma filter_public_id (l : kwargs) :
  (forall p, In p l -> internal (fst p) = false) -> filter (fun p => negb (internal (fst p))) l = l.
Proof.
  induction l as [|p t IH]; intro H; [reflexivity|]. cbn [filter]. rewrite (H p (or_introl eq_refl)). cbn [negb].
  f_equal. apply IH. intros q Hq. apply H. right. exact Hq.
Qed.

Section Trusted.
  Variable w : world.
  Hypothesis super_neutral : forall s, w_super w (s2p "__init__") [] s = (s, inl PNone).

  Definition tr_body (h : heap) (fbn : pyval) : pyval * pyval -> unit -> M unit :=
    fun '(k, v) (_ : unit) =>
      (v' <~ (c0 <~ (andM (t8 <~ lift (obj_getattr h (ref (s2p "TypedPyDefaults")) (s2p "safe_trusted_instantiation")) ;; ret (py_truthy t8))
                          (fun _ => (andM (lift (py_in_dyn k fbn))
                                          (fun _ => (t9 <~ lift (py_getitem_dyn fbn k) ;; lift (obj_hasattr h t9 (s2p "_from_trusted_value"))))))) ;;
              if c0 then (t10 <~ lift (py_getitem_dyn fbn k) ;;
                          t11 <~ w_invoke w t10 (s2p "_from_trusted_value") [v; (ref (s2p "self"))] ;;
                          let v2 := t11 in (ret v2))
              else (ret v)) ;;
       (_ <~ self_dict_set k v' ;; (ret tt))).

  Lemma tr_loop c ff : forall l s,
      for_acc (tr_body (init_heap c ff) (fields_map c)) (pairs l) tt s =
      (fold_left (fun st p => alist_set st (fst p) (snd p)) l s, inl tt).
  Proof.
    induction l as [|[n v] t IH]; intro s; [reflexivity|].
    cbn [pairs map for_acc fst snd fold_left]. fold (pairs t).
    rewrite (bindM_ok _ _ s (alist_set s n v) tt eq_refl). apply IH.
  Qed.

  Lemma fold_set_fresh : forall (l : kwargs) s,
      has_dup (map fst l) = false -> (forall p, In p l -> alist_has s (fst p) = false) ->
      fold_left (fun st p => alist_set st (fst p) (snd p)) l s = s ++ l.
  Proof.
    induction l as [|[n v] t IH]; intros s Hd Hs; [rewrite app_nil_r; reflexivity|].
    cbn [map fst has_dup] in Hd. apply orb_false_iff in Hd. destruct Hd as [Hd1 Hd2].
    cbn [fold_left fst snd]. rewrite alist_set_fresh by (apply (Hs (n, v)); left; reflexivity).
    rewrite IH; [rewrite <- app_assoc; reflexivity | exact Hd2 |].
    intros p Hp. rewrite alist_has_app. rewrite (Hs p (or_intror Hp)). cbn [orb].
    unfold alist_has. cbn [alist_get]. destruct (pystr_eqb n (fst p)) eqn:E; [|reflexivity].
    apply pystr_eqb_spec in E. subst n. exfalso.
    assert (str_in (fst p) (map fst t) = true) by (apply str_in_In, in_map, Hp). congruence.
  Qed.

  (* the trusted branch: every keyword goes into __dict__ as it is, then `_instantiated` and an empty `_none_fields`;
     no setattr, no __validate__ - whatever the world's setattr is, whatever the positional arguments are *)
  Theorem generated_init_trusted : forall c ff args kw,
      trusted_dom kw = true ->
      exists s,
        Structure__init (init_heap c ff) w args (kw_dict kw) s_trusted = (s, inl tt) /\
        s = s_trusted ++ kw ++ [(n_instantiated, PBool true); (n_none_fields, PSet false [])] /\
        PStruct (c_name c) (public s) = trusted_instance c kw /\
        PStruct (c_name c) (tl (public s)) = Ser.Trusted.from_trusted c kw.
  Proof.
    intros c ff args kw Hd. unfold trusted_dom in Hd. apply andb_true_iff in Hd. destruct Hd as [Hd Hn].
    apply negb_true_iff in Hd.
    assert (Hfresh : forall p, In p kw -> alist_has s_trusted (fst p) = false /\ internal (fst p) = false).
    { intros p Hp. pose proof (proj1 (forallb_forall _ _) Hn p Hp) as Hq. cbv beta in Hq.
      apply andb_true_iff in Hq. destruct Hq as [H1 H2]. apply negb_true_iff in H1. apply negb_true_iff in H2.
      split; [|exact H1]. unfold alist_has, s_trusted. cbn [alist_get]. rewrite (peqb_sym flag_trusted (fst p)), H2. reflexivity. }
    unfold Structure__init.
    rewrite (bindM_ok _ _ s_trusted s_trusted true eq_refl).
    rewrite (bindM_ok _ _ s_trusted s_trusted (ref (s2p "cls")) eq_refl).
    rewrite (bindM_ok _ _ s_trusted s_trusted (fields_map c) eq_refl). cbv zeta.
    rewrite (bindM_ok _ _ s_trusted s_trusted (pairs kw) eq_refl).
    unfold bindM at 1.
    change (for_acc _ (pairs kw) tt s_trusted) with (for_acc (tr_body (init_heap c ff) (fields_map c)) (pairs kw) tt s_trusted).
    rewrite tr_loop. rewrite fold_set_fresh; [|exact Hd|intros p Hp; apply (Hfresh p Hp)].
    set (s1 := s_trusted ++ kw).
    assert (H1 : alist_has s1 n_instantiated = false /\ alist_has s1 n_none_fields = false).
    { unfold s1. rewrite !alist_has_app. split.
      - change (alist_has s_trusted n_instantiated) with false. cbn [orb]. rewrite alist_has_keys'.
        destruct (str_in n_instantiated (map fst kw)) eqn:E; [|reflexivity].
        apply str_in_true in E. apply in_map_iff in E. destruct E as [p [E1 E2]].
        destruct (Hfresh p E2) as [_ Hi]. rewrite E1 in Hi. discriminate Hi.
      - change (alist_has s_trusted n_none_fields) with false. cbn [orb]. rewrite alist_has_keys'.
        destruct (str_in n_none_fields (map fst kw)) eqn:E; [|reflexivity].
        apply str_in_true in E. apply in_map_iff in E. destruct E as [p [E1 E2]].
        destruct (Hfresh p E2) as [_ Hi]. rewrite E1 in Hi. discriminate Hi. }
    destruct H1 as [H1 H2].
    rewrite (bindM_ok _ _ s1 (alist_set s1 n_instantiated (PBool true)) tt eq_refl).
    rewrite (alist_set_fresh s1 n_instantiated (PBool true) H1).
    set (s2 := s1 ++ [(n_instantiated, PBool true)]).
    assert (H3 : alist_has s2 n_none_fields = false).
    { unfold s2. rewrite alist_has_app, H2. reflexivity. }
    rewrite (bindM_ok _ _ s2 (alist_set s2 n_none_fields (PSet false [])) tt eq_refl).
    rewrite (alist_set_fresh s2 n_none_fields (PSet false []) H3).
    rewrite (bindM_ok _ _ _ _ PNone (super_neutral _)).
    eexists. split; [reflexivity|].
    assert (Hpub : public (s2 ++ [(n_none_fields, PSet false [])]) = s_trusted ++ kw).
    { unfold s2, s1, public. rewrite !filter_app. cbn [filter fst]. 
      change (negb (internal n_instantiated)) with false. change (negb (internal n_none_fields)) with false.
      change (negb (internal flag_trusted)) with true. cbv iota. rewrite !app_nil_r. cbn [app]. f_equal.
      apply filter_public_id. intros p Hp. apply (Hfresh p Hp). }
    split; [unfold s2, s1; rewrite <- !app_assoc; reflexivity|].
    rewrite Hpub. split; reflexivity.
  Qed.
End Trusted.

Print Assumptions generated_init_collect_all.
Print Assumptions generated_init_fail_fast_reports.
Print Assumptions generated_init_trusted.
