(* The GENERATED constructor against the hand model WITHOUT the side condition on the order of the keywords:
   for every ordering [sig_order] of the declared keywords (any permutation: the signature's parameter order),
   Structure.__init__ is [construct_sig] - Struct/Instance.v [construct] with the declared keywords assigned in
   THAT order -, and [construct_sig] is [construct] when the caller already wrote them in that order. *)
From Coq Require Import ZArith QArith NArith String Ascii Bool Lia List Permutation.
Import ListNotations.
From TP Require Import Base.PyVal Base.PyOps Base.PyOps2 Base.PyObj Base.PyOpsInit
     Fields.FieldAst Fields.SetChain Struct.Shapes Struct.Instance Struct.InitModel
     Struct.InstanceProofs Struct.InitSrcProofs Gen.InitSrc.
From TP Require Base.PyOpsVersioned Base.PyOpsFields Base.PyOpsDerive.
Local Open Scope Z_scope.

Lemma alist_has_perm {A} (a b : list (pystr * A)) n : Permutation a b -> alist_has a n = alist_has b n.
Proof.
  intro P.
  assert (H : forall l : list (pystr * A), alist_has l n = str_in n (map fst l)).
  { intro l. unfold alist_has, str_in. induction l as [|[k x] t IH]; [reflexivity|].
    cbn [map fst existsb alist_get]. rewrite (peqb_sym n k). destruct (pystr_eqb k n); [reflexivity|exact IH]. }
  rewrite !H. destruct (str_in n (map fst a)) eqn:Ea; destruct (str_in n (map fst b)) eqn:Eb; try reflexivity.
  - apply str_in_true in Ea. apply (Permutation_in _ (Permutation_map fst P)) in Ea. apply str_in_In in Ea. congruence.
  - apply str_in_true in Eb. apply (Permutation_in _ (Permutation_map fst (Permutation_sym P))) in Eb. apply str_in_In in Eb. congruence.
Qed.

Lemma forallb_perm {A} (f : A -> bool) a b : Permutation a b -> forallb f a = true -> forallb f b = true.
Proof.
  intros P H. apply forallb_forall. intros x Hx. apply (proj1 (forallb_forall _ _) H).
  apply (Permutation_in _ (Permutation_sym P)). exact Hx.
Qed.

Section Order.
  Variable re_match : N -> pystr -> bool.
  Variable e : env.
  Variable msg_of : pystr -> pyval -> exn -> pystr.
  Variable bind_msg hook_msg : pystr.
  Variable repr_str : pystr -> pystr.
  Variable dumps : list pystr -> pystr.
  Variable sig_order : kwargs -> kwargs.

  Definition WO (c : classdef) : world := MW re_match e msg_of bind_msg hook_msg repr_str dumps sig_order c.

  Definition sdict (c : classdef) (kw : kwargs) : pyval :=
    PDict (pairs (sig_order (bound_of c kw)) ++
           match extras_of c kw with [] => [] | _ => [(PStr n_kwargs, PDict (pairs (extras_of c kw)))] end).

  Lemma model_bind_sig c kw :
    model_bind bind_msg sig_order c (PTuple []) (kw_dict kw) [] =
    if has_dup (map fst kw) then ([], inr (mk_exc Unmodelled []))
    else if negb (bind_ok c kw) then ([], inr (mk_exc TypeError bind_msg))
    else ([], inl (sdict c kw)).
  Proof.
    unfold model_bind. change (kw_dict kw) with (PDict (pairs kw)). cbv beta iota. rewrite kwargs_of_pairs.
    destruct (has_dup (map fst kw)); [reflexivity|]. destruct (bind_ok c kw); cbn [negb]; [|reflexivity].
    unfold sdict. destruct (extras_of c kw) eqn:E; [|reflexivity].
    fold (pairs (sig_order (bound_of c kw))). rewrite app_nil_r. reflexivity.
  Qed.

  Lemma extras_phase_sig c (b ex : kwargs) :
    alist_has b n_kwargs = false ->
    let D := PDict (pairs b ++ match ex with [] => [] | _ => [(PStr n_kwargs, PDict (pairs ex))] end) in
    (c0 <~ lift (py_in_dyn (PStr (s2p "kwargs")) D) ;;
     (if c0
      then
        (t23 <~ lift (py_getitem_dyn D (PStr (s2p "kwargs"))) ;;
         t24 <~ lift (PyOpsVersioned.py_dict_items t23) ;;
         _ <~ for_acc (fun '(v_name_25, v_val_26) (_ : unit) => (_ <~ w_setattr (MW re_match e msg_of bind_msg hook_msg repr_str dumps sig_order c) v_name_25 v_val_26 ;; ret tt)) t24 tt ;;
         (t27 <~ lift (PyOpsVersioned.py_delitem D (PStr (s2p "kwargs"))) ;; ret t27))
      else ret D)) [] =
    match run_sets re_match e msg_of c ex [] with
    | (s1, inl _) => (s1, inl (PDict (pairs b)))
    | (s1, inr x) => (s1, inr x)
    end.
  Proof.
    intros Hb D. unfold D. change (s2p "kwargs") with n_kwargs.
    destruct ex as [|p ex].
    - rewrite app_nil_r. rewrite in_pairs, Hb. reflexivity.
    - set (E := p :: ex).
      assert (H1 : py_in_dyn (PStr n_kwargs) (PDict (pairs b ++ [(PStr n_kwargs, PDict (pairs E))])) = Ok true).
      { cbn [py_in_dyn py_hashable']. unfold dict_has. rewrite dict_get_app_last by exact Hb. reflexivity. }
      rewrite H1. rewrite (bindM_ok _ _ [] [] true eq_refl).
      assert (H2 : py_getitem_dyn (PDict (pairs b ++ [(PStr n_kwargs, PDict (pairs E))])) (PStr n_kwargs) = Ok (PDict (pairs E))).
      { unfold py_getitem_dyn, py_dict_getitem. cbn [py_hashable']. rewrite dict_get_app_last by exact Hb. reflexivity. }
      rewrite H2. rewrite (bindM_ok _ _ [] [] (PDict (pairs E)) eq_refl).
      rewrite (bindM_ok _ _ [] [] (pairs E) eq_refl).
      unfold bindM at 1. rewrite plain_loop.
      destruct (run_sets re_match e msg_of c E []) as [s1 [[]|x]]; [|reflexivity].
      assert (H3 : PyOpsVersioned.py_delitem (PDict (pairs b ++ [(PStr n_kwargs, PDict (pairs E))])) (PStr n_kwargs)
                   = Ok (PDict (pairs b))).
      { unfold PyOpsVersioned.py_delitem. cbn [py_hashable']. unfold dict_has.
        rewrite dict_get_app_last by exact Hb. rewrite dict_del_app_last by exact Hb. reflexivity. }
      rewrite H3. reflexivity.
  Qed.

  (* UNCONDITIONAL in the order: whatever permutation of the declared keywords the signature produces *)
  Theorem generated_init_is_construct_sig : forall c kw,
      init_dom c kw = true -> Permutation (bound_of c kw) (sig_order (bound_of c kw)) ->
      view c (Structure__init (init_heap c true) (WO c) (PTuple []) (kw_dict kw) []) = construct_sig re_match e sig_order c kw.
  Proof.
    intros c kw Hdom HP.
    unfold init_dom in Hdom. apply andb_true_iff in Hdom. destruct Hdom as [Hdom Hnd].
    apply andb_true_iff in Hdom. destruct Hdom as [Hkw Hfs]. apply negb_true_iff in Hnd.
    destruct (dom_names msg_of bind_msg repr_str sig_order c kw Hkw) as [Hex [Hbn0 Hbu0]].
    set (B := sig_order (bound_of c kw)) in *.
    assert (Hbn : names_plain B = true) by (exact (forallb_perm _ _ _ HP Hbn0)).
    assert (Hbu : no_undefined B = true) by (exact (forallb_perm _ _ _ HP Hbu0)).
    assert (FF : field_facts c) by (split; assumption).
    unfold Structure__init, construct_sig.
    rewrite (bindM_ok _ _ [] [] false eq_refl).
    unfold bindM at 1. unfold tryM at 1. unfold WO. rewrite bind_result. rewrite (model_bind_sig c kw).
    destruct (has_dup (map fst kw)); [reflexivity|].
    destruct (bind_ok c kw); cbn [negb]; [|reflexivity].
    assert (Hbk : alist_has B n_kwargs = false).
    { rewrite <- (alist_has_perm _ _ n_kwargs HP). apply bound_no_kwargs. apply forallb_forall. intros fd Hfd.
      pose proof (proj1 (forallb_forall _ _) Hfs fd Hfd) as Hq. cbv beta in Hq.
      apply andb_true_iff in Hq. destruct Hq as [Hq _]. apply andb_true_iff in Hq. tauto. }
    unfold bindM at 1. unfold sdict. fold B. rewrite (extras_phase_sig c B (extras_of c kw) Hbk).
    pose proof (run_sets_set_all re_match e msg_of bind_msg repr_str c (extras_of c kw) [] Hex eq_refl eq_refl) as R0.
    change (public []) with (@nil (pystr * pyval)) in R0.
    destruct (set_all re_match e c [] (extras_of c kw)) as [a0|x0].
    2:{ destruct R0 as [s1 [m R1]]. rewrite R1. reflexivity. }
    destruct R0 as [s1 [R1 [R2 [R3 [R4 _]]]]]. rewrite R1. cbv beta iota. cbn [bind].
    rewrite (bindM_ok _ _ _ _ _ (self_gafbn c true s1 R3)).
    rewrite (bindM_ok _ _ s1 s1 (fpairs (c_fields c)) eq_refl).
    assert (HD : forall fd, In fd (c_fields c) ->
              find_field (c_fields c) (fd_name fd) = Some fd /\ fd_default fd <> Some PNone /\
              py_in_dyn (PStr (fd_name fd)) (PDict (pairs B)) = Ok (alist_has kw (fd_name fd))).
    { intros fd Hfd. split; [apply find_field_in; assumption|]. split.
      - pose proof (proj1 (forallb_forall _ _) Hfs fd Hfd) as Hq. cbv beta in Hq.
        apply andb_true_iff in Hq. destruct Hq as [_ Hq]. intro E. rewrite E in Hq. discriminate Hq.
      - rewrite in_pairs. rewrite <- (alist_has_perm _ _ (fd_name fd) HP). rewrite has_bound, (str_in_field c fd Hfd). reflexivity. }
    rewrite (bindM_ok _ _ s1 s1 _ (comp_defaults c true kw (PDict (pairs B)) (c_fields c) s1 HD)).
    change (dflt kw (c_fields c)) with (defaults_of c kw).
    rewrite (bindM_ok _ _ _ _ _ (internal_store re_match e msg_of bind_msg hook_msg repr_str dumps sig_order c n_none_fields (PSet false []) s1 eq_refl R4)).
    set (s2 := alist_set s1 n_none_fields (PSet false [])).
    assert (K2 : keys_ok s2 = true) by (apply keys_ok_set; [exact R3 | reflexivity]).
    assert (I2 : instantiated s2 = false) by (unfold s2; rewrite instantiated_set; [exact R4 | reflexivity]).
    assert (P2 : public s2 = a0) by (unfold s2; rewrite public_set_internal; [exact R2 | reflexivity]).
    rewrite (bindM_ok _ _ _ _ _ (self_constants c true s2 K2)).
    rewrite (bindM_ok _ _ s2 s2 (@nil (pyval * pyval)) eq_refl).
    rewrite (bindM_ok _ _ s2 s2 tt eq_refl).
    unfold bindM at 1. rewrite set_defaults_run.
    2:{ intros p Hp. destruct (dflt_sound kw (c_fields c) p Hp) as [fd [H1 [H2 H3]]].
        exists fd. rewrite <- H2. split; [apply find_field_in; assumption | exact H3]. }
    pose proof (run_sets_set_all re_match e msg_of bind_msg repr_str c (defaults_of c kw) s2 (defaults_plain c kw FF) K2 I2) as RD. rewrite P2 in RD.
    destruct (set_all re_match e c a0 (defaults_of c kw)) as [a1|x1].
    2:{ destruct RD as [s3 [m RD1]]. rewrite RD1. reflexivity. }
    destruct RD as [s3 [RD1 [RD2 [RD3 [RD4 _]]]]]. rewrite RD1. cbv beta iota. cbn [bind].
    rewrite bindM_assoc. rewrite (bindM_ok _ _ s3 s3 true (ff_flag re_match e msg_of bind_msg hook_msg repr_str dumps sig_order c true s3)). cbv beta iota.
    rewrite bindM_assoc. rewrite (bindM_ok _ _ s3 s3 (pairs B) eq_refl).
    rewrite bindM_assoc. unfold bindM at 1.
    change (for_acc _ (pairs B) tt s3) with
        (for_acc (ff_body re_match e msg_of bind_msg hook_msg repr_str dumps sig_order c (init_heap c true)) (pairs B) tt s3).
    rewrite (ff_loop re_match e msg_of bind_msg hook_msg repr_str dumps sig_order c true B s3 Hbn Hbu (conj RD3 RD4)).
    pose proof (run_sets_set_all re_match e msg_of bind_msg repr_str c B s3 Hbn RD3 RD4) as RB. rewrite RD2 in RB.
    destruct (set_all re_match e c a1 B) as [a2|x2].
    2:{ destruct RB as [s4 [m RB1]]. rewrite RB1. cbv beta iota. cbn [view]. rewrite rewrap_cls. reflexivity. }
    destruct RB as [s4 [RB1 [RB2 [RB3 [RB4 _]]]]]. rewrite RB1. cbv beta iota. cbn [bind].
    rewrite (bindM_ok _ _ s4 s4 tt eq_refl).
    unfold bindM at 1. rewrite validate_step. rewrite RB2.
    destruct (hook_ok (c_hook c) a2); [|reflexivity].
    rewrite (bindM_ok _ _ _ _ _ (internal_store re_match e msg_of bind_msg hook_msg repr_str dumps sig_order c n_instantiated (PBool true) s4 eq_refl RB4)).
    rewrite (bindM_ok _ _ _ _ tt eq_refl).
    rewrite (bindM_ok _ _ _ _ PNone eq_refl).
    cbn [ret view]. rewrite public_set_internal by reflexivity. rewrite RB2. reflexivity.
  Qed.

  Theorem construct_sig_caller_order : forall c kw,
      sig_order (bound_of c kw) = bound_of c kw -> construct_sig re_match e sig_order c kw = Instance.construct re_match e c kw.
  Proof. intros c kw H. unfold construct_sig, Instance.construct. rewrite H. reflexivity. Qed.
End Order.

Print Assumptions generated_init_is_construct_sig.
Print Assumptions construct_sig_caller_order.
