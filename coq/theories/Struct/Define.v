(* Class-definition model: what a `class X(bases): ...` statement over typedpy Structures does.
   [define g s] transcribes StructMeta.__new__ (typedpy/structures/structures.py) together with the
   Field constructors that run in the class body, get_base_info, make_signature,
   _apply_default_and_update_required_not_to_include_fields_with_defaults, _check_for_final_violations,
   _block_invalid_consts, the non-typedpy assignment guard, the Constant type check, the keys_of
   decorator and AbstractStructure.__init__.
   A class object is a [klass] value; the process's classes are a name-keyed [genv] (the harness gives
   every class of a case its own name).  Executable; no proofs here. *)
From Coq Require Import ZArith QArith NArith String Ascii Bool Lia List.
Import ListNotations.
From TP Require Import Base.PyVal Fields.FieldAst Fields.SetChain.
Local Open Scope Z_scope.

(* ------------------------------------------------------------------ string helpers *)

Fixpoint starts_with (p s : pystr) : bool :=
  match p, s with
  | [], _ => true
  | x :: p', y :: s' => N.eqb x y && starts_with p' s'
  | _ :: _, [] => false
  end.

Definition us : N := 95%N.     (* "_" *)

(* typedpy.commons._is_sunder *)
Definition is_sunder (n : pystr) : bool :=
  match n with
  | a :: b :: _ :: _ => N.eqb a us && negb (N.eqb b us)
  | _ => false
  end.

(* typedpy.commons._is_dunder *)
Definition is_dunder (n : pystr) : bool :=
  (4 <? Z.of_nat (length n)) &&
  match n, rev n with
  | a :: b :: c :: _, x :: y :: z :: _ =>
      N.eqb a us && N.eqb b us && N.eqb x us && N.eqb y us && negb (N.eqb c us) && negb (N.eqb z us)
  | _, _ => false
  end.

Definition bad_field_name (n : pystr) : bool :=
  match n with a :: _ => N.eqb a us | [] => false end || pystr_eqb n (s2p "kwargs").

Fixpoint dedup_str (l : list pystr) : list pystr :=
  match l with
  | [] => []
  | x :: t => x :: filter (fun y => negb (pystr_eqb y x)) (dedup_str t)
  end.

Fixpoint has_dup_str (l : list pystr) : bool :=
  match l with
  | [] => false
  | x :: t => str_in x t || has_dup_str t
  end.

Definition remove_str (n : pystr) (l : list pystr) : list pystr := filter (fun y => negb (pystr_eqb y n)) l.
Definition add_str (n : pystr) (l : list pystr) : list pystr := if str_in n l then l else l ++ [n].
Definition subset_str (a b : list pystr) : bool := forallb (fun x => str_in x b) a.
Definition seteq_str (a b : list pystr) : bool := subset_str a b && subset_str b a.

(* ------------------------------------------------------------------ class objects *)

Inductive defval :=
| DLit (v : pyval)         (* a literal default *)
| DFactory (v : pyval).    (* a callable (list, dict, a lambda...) producing v *)

Definition defval_value (d : defval) : pyval := match d with DLit v | DFactory v => v end.
Definition defval_truthy (d : defval) : bool := match d with DLit v => py_truthy v | DFactory _ => true end.
(* isinstance(default, (list, dict, set)) *)
Definition defval_mutable (d : defval) : bool :=
  match d with DLit (PList _) | DLit (PDict _) | DLit (PSet false _) => true | _ => false end.
(* `_default = None` is "no default" *)
Definition norm_default (d : option defval) : option defval :=
  match d with Some (DLit PNone) => None | x => x end.

(* a Field object as it sits in a class dict *)
Record fobj := { fo_field : field; fo_immutable : bool; fo_default : option defval }.

Inductive member :=
| MField (f : fobj)
| MConst (v : pyval).     (* typedpy.commons.Constant *)

Definition members := list (pystr * member).

(* getattr(v, "_default", None) is not None *)
Definition has_default (m : member) : bool :=
  match m with
  | MField f => match fo_default f with Some _ => true | None => false end
  | MConst _ => false
  end.

Definition is_const (m : member) : bool := match m with MConst _ => true | MField _ => false end.

Record klass := {
  k_name : pystr;
  k_is_struct : bool;              (* isinstance(cls, StructMeta); false for a plain mix-in class *)
  k_bases : list pystr;            (* __bases__ *)
  k_mro : list pystr;              (* __mro__ without UniqueMixin/object, itself first *)
  k_own : members;                 (* _fields with their objects *)
  k_all : members;                 (* _field_by_name = get_all_fields_by_name() *)
  k_required : list pystr;         (* _required *)
  k_sig_req : list pystr;          (* __signature__: parameters without default *)
  k_sig_opt : list pystr;          (*                parameters with default None *)
  k_sig_kwargs : bool;             (*                **kwargs *)
  k_additional : option bool;      (* own __dict__['_additional_properties'] *)
  k_ignore_none : option bool;     (* own __dict__['_ignore_none'] *)
  k_constants : list (pystr * pyval) }.   (* _constants *)

Notation classdef' := klass (only parsing).

Definition genv := list klass.

Fixpoint find_klass (g : genv) (n : pystr) : option klass :=
  match g with
  | [] => None
  | k :: t => if pystr_eqb (k_name k) n then Some k else find_klass t n
  end.

Definition n_Structure := s2p "Structure".
Definition n_Immutable := s2p "ImmutableStructure".
Definition n_Final := s2p "FinalStructure".
Definition n_Abstract := s2p "AbstractStructure".

Definition builtin (name : pystr) : klass :=
  {| k_name := name; k_is_struct := true;
     k_bases := if pystr_eqb name n_Structure then [] else [n_Structure];
     k_mro := if pystr_eqb name n_Structure then [n_Structure] else [name; n_Structure];
     k_own := []; k_all := []; k_required := []; k_sig_req := []; k_sig_opt := []; k_sig_kwargs := true;
     k_additional := None; k_ignore_none := None; k_constants := [] |}.

(* a plain Python mix-in class (no typedpy metaclass, no attributes of interest) *)
Definition mixin (name : pystr) : klass :=
  {| k_name := name; k_is_struct := false; k_bases := []; k_mro := [name];
     k_own := []; k_all := []; k_required := []; k_sig_req := []; k_sig_opt := []; k_sig_kwargs := false;
     k_additional := None; k_ignore_none := None; k_constants := [] |}.

Definition genv0 : genv := [builtin n_Abstract; builtin n_Final; builtin n_Immutable; builtin n_Structure].

(* ------------------------------------------------------------------ class statements *)

Inductive uval := UBool | UList | UDict | UInt | UStr | UType.   (* kind of a non-field attribute value *)

Inductive mstmt :=
| SDecl (f : field) (imm : bool) (kwd eqd : option defval)
    (* a Field built by this statement: `n: F(..., default=kwd) = eqd` / `n = F(..., default=kwd)` *)
| SConst (v : pyval)                     (* n = Constant(v) *)
| SObj (m : member).                     (* an existing Field/Constant object put into the class dict
                                            (what the derivation operators do) *)

Record classstmt := {
  s_name : pystr;
  s_bases : list pystr;
  s_members : list (pystr * mstmt);
  s_required : option (list pystr);
  s_optional : option (list pystr);
  s_additional : option bool;
  s_ignore_none : option bool;
  s_attrs : list (pystr * uval);         (* other class attributes: name = <bool|list|dict|int|str|type> *)
  s_keys_of : list (list pystr) }.       (* @keys_of(E1, ...): member names of each enum class *)

Record guards := {
  gd_block_unknown_consts : bool;        (* TypedPyDefaults.block_unknown_consts *)
  gd_block_non_typedpy : bool;           (* Structure._block_non_typedpy_field_assignment *)
  gd_additional_default : bool }.        (* TypedPyDefaults.additional_properties_default *)

Definition default_guards : guards :=
  {| gd_block_unknown_consts := true; gd_block_non_typedpy := true; gd_additional_default := true |}.

Definition opt_list {A} (o : option (list A)) : list A := match o with Some l => l | None => [] end.
Definition is_some {A} (o : option A) : bool := match o with Some _ => true | None => false end.

(* ------------------------------------------------------------------ C3 linearisation *)

Definition tl_str (l : list pystr) : list pystr := match l with [] => [] | _ :: t => t end.

Fixpoint first_good (cands : list pystr) (seqs : list (list pystr)) : option pystr :=
  match cands with
  | [] => None
  | h :: t => if existsb (fun s => str_in h (tl_str s)) seqs then first_good t seqs else Some h
  end.

Definition heads (seqs : list (list pystr)) : list pystr :=
  flat_map (fun s => match s with [] => [] | h :: _ => [h] end) seqs.

Definition drop_head (h : pystr) (s : list pystr) : list pystr :=
  match s with
  | x :: t => if pystr_eqb x h then t else s
  | [] => []
  end.

Definition nonempty (s : list pystr) : bool := match s with [] => false | _ => true end.

Fixpoint c3_merge (fuel : nat) (seqs : list (list pystr)) : option (list pystr) :=
  match fuel with
  | O => None
  | S f =>
      let seqs := filter nonempty seqs in
      match seqs with
      | [] => Some []
      | _ =>
          match first_good (heads seqs) seqs with
          | None => None
          | Some h =>
              match c3_merge f (map (drop_head h) seqs) with
              | Some r => Some (h :: r)
              | None => None
              end
          end
      end
  end.

Definition total_len (seqs : list (list pystr)) : nat := fold_right (fun s n => (length s + n)%nat) 0%nat seqs.

Fixpoint mros_of (g : genv) (bases : list pystr) : res (list (list pystr)) :=
  match bases with
  | [] => Ok []
  | b :: t =>
      match find_klass g b with
      | None => Raise Unmodelled
      | Some kb => r <- mros_of g t ;; Ok (k_mro kb :: r)
      end
  end.

(* type.__new__: the MRO of the new class, TypeError when the bases are inconsistent or repeated *)
Definition mro_of (g : genv) (name : pystr) (bases : list pystr) : res (list pystr) :=
  if has_dup_str bases then Raise TypeError
  else
    ms <- mros_of g bases ;;
    let seqs := ms ++ [bases] in
    match c3_merge (S (total_len seqs)) seqs with
    | Some r => Ok (name :: r)
    | None => Raise TypeError
    end.

(* ------------------------------------------------------------------ _get_all_fields_by_name *)

Definition update_members (acc : members) (own : members) : members :=
  fold_left (fun a nm => alist_set a (fst nm) (snd nm)) own acc.

Definition own_of (g : genv) (c : pystr) : members :=
  match find_klass g c with
  | Some kc => if k_is_struct kc then k_own kc else []
  | None => []
  end.

(* reversed(mro), each class's own _fields overriding what is there *)
Definition fields_of_mro (g : genv) (mro : list pystr) : members :=
  fold_left (fun acc c => update_members acc (own_of g c)) (rev mro) [].

Definition all_fields (g : genv) (mro_tail : list pystr) (own : members) : members :=
  update_members (fields_of_mro g mro_tail) own.

Definition field_names (k : klass) : list pystr := map fst (k_all k).

(* getattr(cls, '_ignore_none', default) through the MRO *)
Fixpoint resolve_ignore_none (g : genv) (mro : list pystr) : bool :=
  match mro with
  | [] => false
  | c :: t =>
      match find_klass g c with
      | Some kc => match k_ignore_none kc with Some b => b | None => resolve_ignore_none g t end
      | None => resolve_ignore_none g t
      end
  end.

Definition is_immutable_class (k : klass) : bool := str_in n_Immutable (k_mro k).
Definition is_subclass (k b : klass) : bool := str_in (k_name b) (k_mro k).

(* ------------------------------------------------------------------ get_base_info *)

Definition sig_params (k : klass) : list (pystr * bool) :=
  map (fun n => (n, true)) (k_sig_req k) ++ map (fun n => (n, false)) (k_sig_opt k).

Definition merge_params (acc new : list (pystr * bool)) : list (pystr * bool) :=
  fold_left (fun a p => if alist_has a (fst p) then a else a ++ [p]) new acc.

Section Define.
  Variable re_match : N -> pystr -> bool.
  Variable e : env.                       (* for class references inside field declarations *)
  Variable gd : guards.

  (* parameters of the Structure bases' signatures (first base wins), `kw` = a 'kwargs' entry is present *)
  Fixpoint base_info (g : genv) (bases : list pystr) (acc : list (pystr * bool)) (kw : bool)
    : res (list (pystr * bool)) :=
    match bases with
    | [] => if kw then Raise Unmodelled else Ok acc
    | b :: t =>
        match find_klass g b with
        | None => Raise Unmodelled
        | Some kb =>
            if negb (k_is_struct kb) || pystr_eqb b n_Structure then base_info g t acc kw
            else
              let acc' := merge_params acc (sig_params kb) in
              let kw' := kw || k_sig_kwargs kb in
              let addl := match k_additional kb with Some x => x | None => gd_additional_default gd end in
              if addl then (if kw' then base_info g t acc' false else Raise KeyError)
              else base_info g t acc' kw'
        end
    end.

  Definition bases_required (bp : list (pystr * bool)) : list pystr := map fst (filter snd bp).

  (* ---------------------------------------------------------------- members *)

  (* Field._try_default_value: self.__set__(Structure(), default) *)
  Definition try_default (f : field) (d : defval) : res unit :=
    match vset re_match e f (defval_value d) with Ok _ => Ok tt | Raise x => Raise x end.

  (* Field.__init__(default=kwd): `if default:` guards the validation *)
  Definition field_init (f : field) (imm : bool) (kwd : option defval) : res fobj :=
    let kwd := norm_default kwd in
    _ <- match kwd with
         | Some d => if defval_truthy d then try_default f d else Ok tt
         | None => Ok tt
         end ;;
    Ok {| fo_field := f; fo_immutable := imm; fo_default := kwd |}.

  (* the `= value` of an annotated field, in _apply_default_and_update_required_... *)
  Definition apply_eq_default (fo : fobj) (eqd : option defval) : res fobj :=
    match eqd with
    | None => Ok fo
    | Some d =>
        if match fo_default fo with Some d0 => defval_truthy d0 | None => false end then Ok fo
        else if defval_mutable d then Raise ValueError
        else
          _ <- try_default (fo_field fo) d ;;
          Ok {| fo_field := fo_field fo; fo_immutable := fo_immutable fo; fo_default := norm_default (Some d) |}
    end.

  Definition build_member (ms : mstmt) : res member :=
    match ms with
    | SDecl f imm kwd eqd => fo <- field_init f imm kwd ;; fo' <- apply_eq_default fo eqd ;; Ok (MField fo')
    | SConst v => Ok (MConst v)
    | SObj m => Ok m
    end.

  Fixpoint build_members (l : list (pystr * mstmt)) : res members :=
    match l with
    | [] => Ok []
    | (n, ms) :: t => m <- build_member ms ;; r <- build_members t ;; Ok ((n, m) :: r)
    end.

  (* ---------------------------------------------------------------- _required of the class body *)

  Definition req_step (predefined : bool) (optional : list pystr) (r : list pystr) (nm : pystr * member)
    : list pystr :=
    if has_default (snd nm) then remove_str (fst nm) r
    else if predefined then r
    else if str_in (fst nm) optional then r else add_str (fst nm) r.

  Definition own_required (s : classstmt) (own : members) : list pystr :=
    fold_left (req_step (is_some (s_required s)) (opt_list (s_optional s))) own
              (dedup_str (opt_list (s_required s))).

  (* ---------------------------------------------------------------- guards *)

  Definition known_attr (n : pystr) : bool :=
    str_in n (map s2p ["_required"; "_additional_properties"; "_additionalProperties"; "_immutable"; "_defaults";
                       "_optional"; "_serialization_mapper"; "_deserialization_mapper"; "_ignore_none";
                       "_enable_undefined_value"; "_versions_mapping";
                       "_fields"; "_fail_fast"; "_field_by_name"; "_constants"]%string).

  (* _block_invalid_consts *)
  Definition invalid_const (nv : pystr * uval) : bool :=
    let '(n, v) := nv in
    negb (known_attr n || is_dunder n || starts_with (s2p "_custom_attribute_") n) &&
    match v with UBool | UList | UDict => true | _ => false end.

  (* the non-typedpy assignment guard of StructMeta.__new__ *)
  Definition non_typedpy_assignment (nv : pystr * uval) : bool :=
    let '(n, v) := nv in
    negb (is_sunder n || is_dunder n) && match v with UType => true | _ => false end.

  (* Constant values: isinstance(v, (int, str, bool, enum.Enum, float)) *)
  Definition const_type_ok (v : pyval) : bool :=
    match v with
    | PBool _ | PStr _ | PEnum _ _ _ => true
    | PNum (NInt _) | PNum (NFlt _ _) => true
    | _ => false
    end.

  (* _check_for_final_violations(clsobj.mro()) *)
  Definition strict_sub (g : genv) (c root : pystr) : bool :=
    negb (pystr_eqb c root) &&
    match find_klass g c with Some kc => k_is_struct kc && str_in root (k_mro kc) | None => false end.

  Definition final_violation (g : genv) (mro_tail : list pystr) : bool :=
    existsb (fun c => strict_sub g c n_Final || strict_sub g c n_Immutable) mro_tail.

  (* ---------------------------------------------------------------- make_signature *)

  Definition merge_names (a b : list pystr) : list pystr :=
    fold_left (fun acc n => add_str n acc) b a.

  Record sigt := { sg_req : list pystr; sg_opt : list pystr }.

  Definition make_signature (names required : list pystr) (bp : list (pystr * bool)) (consts : list pystr)
    : res sigt :=
    let breq := bases_required bp in
    let bnames := map fst bp in
    let all_names := merge_names names bnames in
    let nd_class := filter (fun n => negb (str_in n consts) && str_in n required) all_names in
    let nd_bases := filter (fun n => (str_in n required || str_in n breq) && negb (str_in n consts)) bnames in
    let nd := merge_names nd_bases nd_class in
    let d_class := filter (fun n => negb (str_in n required) && negb (str_in n consts)) names in
    let d_bases := filter (fun n => negb (str_in n required) && negb (str_in n breq) && negb (str_in n consts))
                          bnames in
    let d := merge_names d_bases d_class in
    if has_dup_str (nd ++ d) then Raise ValueError    (* inspect.Signature: duplicate parameter name *)
    else Ok {| sg_req := nd; sg_opt := d |}.

  (* ---------------------------------------------------------------- StructMeta.__new__ *)

  Definition check (b : bool) (x : exn) : res unit := if b then Raise x else Ok tt.

  Definition constants_of (all : members) : list (pystr * pyval) :=
    flat_map (fun nm => match snd nm with MConst v => [(fst nm, v)] | MField _ => [] end) all.

  Definition define (g : genv) (s : classstmt) : res klass :=
    let names := map fst (s_members s) in
    _ <- check (has_dup_str names) Unmodelled ;;            (* not expressible as a class body *)
    own <- build_members (s_members s) ;;                   (* Field constructors; `=` defaults *)
    bp <- base_info g (s_bases s) [] false ;;
    let breq := bases_required bp in
    _ <- check (existsb bad_field_name names) ValueError ;;
    _ <- check (gd_block_non_typedpy gd && existsb non_typedpy_assignment (s_attrs s)) TypeError ;;
    let required := own_required s own in
    mro <- mro_of g (s_name s) (s_bases s) ;;
    _ <- check (final_violation g (tl_str mro)) TypeError ;;
    let all := all_fields g (tl_str mro) own in
    let consts := constants_of all in
    _ <- check (negb (forallb (fun nv => const_type_ok (snd nv)) consts)) TypeError ;;
    _ <- check (existsb (fun f => str_in f required || str_in f breq) (opt_list (s_optional s))) ValueError ;;
    _ <- check (gd_block_unknown_consts gd && existsb invalid_const (s_attrs s)) ValueError ;;
    let addl := match s_additional s with Some b => b | None => gd_additional_default gd end in
    sg <- make_signature names required bp (map fst consts) ;;
    let k := {| k_name := s_name s; k_is_struct := true; k_bases := s_bases s; k_mro := mro;
                k_own := own; k_all := all;
                k_required := dedup_str (breq ++ required);
                k_sig_req := sg_req sg; k_sig_opt := sg_opt sg; k_sig_kwargs := addl;
                k_additional := s_additional s; k_ignore_none := s_ignore_none s;
                k_constants := consts |} in
    (* @keys_of(...) runs on the finished class *)
    _ <- check (negb (forallb (fun ns => forallb (fun n => alist_has all n) ns) (s_keys_of s))) TypeError ;;
    Ok k.

  (* AbstractStructure.__init__: neither AbstractStructure itself nor its direct children can be instantiated *)
  Definition instantiable (k : klass) : res unit :=
    check (pystr_eqb (k_name k) n_Abstract || str_in n_Abstract (k_bases k)) TypeError.

  (* FieldMeta.__new__ for a user-defined Field class: fenv gives the MRO of the field classes in
     scope (names); ImmutableField classes cannot be extended *)
  Definition define_field_class (fenv : list (pystr * list pystr)) (name : pystr) (bases : list pystr)
    : res (list pystr) :=
    if has_dup_str bases then Raise TypeError
    else
      ms <- mapM (fun b => match alist_get fenv b with Some m => Ok m | None => Raise Unmodelled end) bases ;;
      let seqs := ms ++ [bases] in
      match c3_merge (S (total_len seqs)) seqs with
      | None => Raise TypeError
      | Some r =>
          let imf := s2p "ImmutableField" in
          if existsb (fun c => negb (pystr_eqb c imf) &&
                               match alist_get fenv c with Some m => str_in imf m | None => false end) r
          then Raise TypeError else Ok (name :: r)
      end.
End Define.
