(* How a wrapper class (_ListStruct / _DequeStruct / _DictStruct) treats one mutator inherited from
   its base type.  The table of (method, shape) per wrapper is GENERATED from /repo on every run
   (Gen/Tables.v, by harness/gen.py: introspection of the base types + AST of collections_impl.py). *)
From Coq Require Import List.
From TP Require Import Base.PyVal.

Inductive shape :=
| CopyMutateReassign (guard : bool)   (* [guard;] copy; base op on the copy; setattr(instance, field, copy) *)
| GuardThenInPlace                    (* guard; base op on self, no re-validation *)
| NotOverridden                       (* the base type's method runs on the stored value itself *)
| Unrecognised.                       (* overridden, but not in a form the translator understands *)

(* validated and failure-atomic whatever the declaration (C03), and never changing an immutable (C04) *)
Definition shape_safe (s : shape) : bool :=
  match s with CopyMutateReassign _ => true | _ => false end.

(* never changes an immutable structure/field (C04): the guard suffices *)
Definition shape_guarded (s : shape) : bool :=
  match s with CopyMutateReassign _ | GuardThenInPlace => true | _ => false end.

Definition mutator_table := list (pystr * shape).

Definition table_safe (t : mutator_table) : bool := forallb (fun p => shape_safe (snd p)) t.
Definition table_guarded (t : mutator_table) : bool := forallb (fun p => shape_guarded (snd p)) t.
Definition unsafe_entries (t : mutator_table) : mutator_table := filter (fun p => negb (shape_safe (snd p))) t.

(* ---- C04 additions (additive): accessors of the wrapper classes and of the base types ----
   How a wrapper class treats one accessor (a method / operator / builtin consumer through which
   contained objects can be reached).  GENERATED per wrapper by harness/gen.py. *)
Inductive ashape :=
| ANotOverridden          (* the base type's method: hands out the stored elements themselves *)
| ADefensiveResult        (* return self._get_defensive_copy_if_needed(super().m(...)) *)
| ADefensiveElems         (* generator whose elements go through _get_defensive_copy_if_needed *)
| ADeepCopyIfImm          (* deepcopy(result) if self._is_immutable() else result *)
| AIterProxy              (* ListIteratorProxy(self) when immutable: elements come through self[i] *)
| AUnrecognised.          (* overridden in a form the translator does not understand: treated as raw *)

(* what the accessor returns on the base type, found by probing with sentinels *)
Inductive retkind :=
| RElem                   (* a contained object itself *)
| RFresh.                 (* a new container / iterator / view from which contained objects are reached *)

Definition accessor_table := list (pystr * (ashape * retkind)).
