(* The tie between the GENERATED translation of typedpy's equality / string / hash / copy / pickle methods
   (Gen/EqHashSrc.v: what Structure.__eq__, __ne__, __hash__, __str__ with its local helpers, __repr__,
   __getstate__, __deepcopy__, __copy__, Field.__get__, Field.__serialize__ and _get_all_fields_by_name of
   typedpy/structures/structures.py say NOW) and the hand-written model Struct/EqHash.v on which property C11
   is proved.  Every theorem holds for EVERY class description, EVERY instance of the model, every oracle and
   every heap that shows the class as described below.

   How a model-level instance [x : inst] of class [c : classdef] is seen at the Python level:
     the instance      [inst_obj x trust] = PStruct (i_cls x) d, where the instance __dict__ d holds the public
                       attributes i_attrs x followed by typedpy's internal entries: `_none_fields` (the set of
                       the names in i_nones x, when present), `_instantiated` = True (when i_live x) and
                       `_trust_supplied_values` = trust (when given);
     nested instances  an instance inside an attribute value is the value [PStruct cls attrs] of the universe
                       (public attributes only); the __str__ / __hash__ theorems are also proved for [lift ni v],
                       where every nested instance carries the internal entries ni (typedpy: `_none_fields` = an
                       empty set, `_instantiated` = True) besides its public attributes;
     its class         the heap object named i_cls x ([class_view]): `_field_by_name` maps every field name n of
                       c to the Field object "field:n", `_enable_undefined_value` is set iff undef; the Field
                       object "field:n" has `_name` = n and `_default` = the field's default (None without one),
                       which is not callable; the class has no class-level `_none_fields`;
                       TypedPyDefaults.defensive_copy_on_get exists. *)
From Coq Require Import ZArith QArith NArith String Ascii Bool Lia List Permutation Sorting.Sorted.
Import ListNotations.
From TP Require Import Base.PyVal Base.PyOps Base.PyOps2 Base.PyObj Base.PyOpsDerive Base.PyOpsEqHash
     Fields.FieldAst Struct.EqHash Struct.EqHashProofs Gen.EqHashSrc.
From TP Require Base.PyOpsFields Base.PyOpsVersioned.
Local Open Scope Z_scope.

(* ------------------------------------------------------------------ the Python-level view *)

Definition n_none_fields : pystr := s2p "_none_fields".
Definition n_instantiated : pystr := s2p "_instantiated".
Definition n_trust : pystr := s2p "_trust_supplied_values".
Definition n_immutable : pystr := s2p "_immutable".
Definition n_skip_validation : pystr := s2p "_skip_validation".

Definition nones_val (l : list pystr) : pyval := PSet false (map PStr l).

Definition internals (x : inst) (trust : option pyval) : list (pystr * pyval) :=
  match i_nones x with Some l => [(n_none_fields, nones_val l)] | None => [] end ++
  (if i_live x then [(n_instantiated, PBool true)] else []) ++
  match trust with Some t => [(n_trust, t)] | None => [] end.

Definition inst_dict_of (x : inst) (trust : option pyval) : list (pystr * pyval) := i_attrs x ++ internals x trust.

Definition inst_obj (x : inst) (trust : option pyval) : pyval := PStruct (i_cls x) (inst_dict_of x trust).

(* the names typedpy treats as internal (Src_internal_props, read from the source) *)
Definition is_internal (k : pystr) : bool :=
  match Src_internal_props with
  | PList l | PTuple l => py_in (PStr k) l
  | _ => false
  end.

(* the model's attribute list is the PUBLIC part of __dict__ *)
Definition public_attrs (x : inst) : bool := forallb (fun p => negb (is_internal (fst p))) (i_attrs x).

Definition starts_us (n : pystr) : bool := match n with c :: _ => N.eqb c 95 | [] => false end.

(* field names do not start with an underscore (typedpy's internal names all do) *)
Definition c_ok (c : classdef) : bool := forallb (fun fd => negb (starts_us (fd_name fd))) (c_fields c).

Definition fld_obj (n : pystr) : pystr := s2p "field:" ++ n.
Definition fld_ref (n : pystr) : pyval := ref (fld_obj n).

Definition field_by_name (c : classdef) : pyval :=
  PDict (map (fun fd => (PStr (fd_name fd), fld_ref (fd_name fd))) (c_fields c)).

Definition n_TypedPyDefaults : pystr := s2p "TypedPyDefaults".

Record class_view (h : heap) (c : classdef) (undef : bool) (cls : pystr) : Prop := {
  cv_fields : h cls n_field_by_name = Some (field_by_name c);
  cv_undef : match h cls (s2p "_enable_undefined_value") with
             | Some b => py_truthy b = undef
             | None => undef = false
             end;
  cv_no_nones : h cls n_none_fields = None;
  cv_name : forall n, is_field c n = true -> h (fld_obj n) (s2p "_name") = Some (PStr n);
  cv_default : forall n, is_field c n = true -> h (fld_obj n) (s2p "_default") = Some (default_of c n);
  cv_plain_default : forall n, is_field c n = true -> py_callable h (default_of c n) = Ok false;
  cv_config : exists b, h n_TypedPyDefaults (s2p "defensive_copy_on_get") = Some b }.

(* ------------------------------------------------------------------ small facts *)

Lemma ref_tag_refl : pystr_eqb ref_tag ref_tag = true.
Proof. apply pystr_eqb_refl. Qed.

Lemma obj_getattr_ref h n a : obj_getattr h (ref n) a = match h n a with Some v => Ok v | None => Raise AttributeError end.
Proof. unfold obj_getattr, ref. rewrite ref_tag_refl. reflexivity. Qed.

Lemma obj_getattr_def_ref h n a d : obj_getattr_def h (ref n) a d = Ok (match h n a with Some v => v | None => d end).
Proof. unfold obj_getattr_def, ref. rewrite ref_tag_refl. reflexivity. Qed.

Lemma any_getattr_ref fget h n a : any_getattr fget h (ref n) a = match h n a with Some v => Ok v | None => Raise AttributeError end.
Proof. unfold any_getattr, ref. fold (ref n). apply obj_getattr_ref. Qed.

Lemma any_getattr_def_ref fget h n a d :
  any_getattr_def fget h (ref n) a d = Ok (match h n a with Some v => v | None => d end).
Proof. unfold any_getattr_def, ref. fold (ref n). apply obj_getattr_def_ref. Qed.

Definition skeys (l : list (pystr * pyval)) : list (pyval * pyval) := map (fun p => (PStr (fst p), snd p)) l.

Lemma dict_of_attrs_skeys l : dict_of_attrs l = PDict (skeys l).
Proof. reflexivity. Qed.

Lemma dict_get_skeys l k : dict_get (skeys l) (PStr k) = alist_get l k.
Proof.
  induction l as [|[k' v] t IH]; [reflexivity|].
  cbn [skeys map fst snd dict_get alist_get py_eq]. fold (skeys t). rewrite IH. reflexivity.
Qed.

Lemma dict_has_skeys l k : dict_has (skeys l) (PStr k) = alist_has l k.
Proof. unfold dict_has, alist_has. rewrite dict_get_skeys. reflexivity. Qed.

Lemma dict_set_skeys l k v : dict_set (skeys l) (PStr k) v = skeys (alist_set l k v).
Proof.
  induction l as [|[k' v'] t IH]; [reflexivity|].
  cbn [skeys map fst snd dict_set alist_set py_eq]. fold (skeys t).
  destruct (pystr_eqb k' k); [reflexivity|]. rewrite IH. reflexivity.
Qed.

Lemma alist_get_app {A} (l m : list (pystr * A)) k :
  alist_get (l ++ m) k = match alist_get l k with Some v => Some v | None => alist_get m k end.
Proof.
  induction l as [|[k' v] t IH]; [reflexivity|].
  cbn [app alist_get]. destruct (pystr_eqb k' k); [reflexivity | exact IH].
Qed.

Lemma alist_get_notin {A} (l : list (pystr * A)) k : ~ In k (map fst l) -> alist_get l k = None.
Proof.
  intro H. apply alist_get_none. destruct (str_in k (map fst l)) eqn:E; [|reflexivity].
  apply str_in_spec in E. contradiction.
Qed.

Lemma alist_get_some_in {A} (l : list (pystr * A)) k v : alist_get l k = Some v -> In k (map fst l).
Proof. intro H. apply alist_get_in in H. apply (in_map fst) in H. exact H. Qed.

(* ------------------------------------------------------------------ internal names *)

Lemma is_internal_in_dyn k : py_in_dyn (PStr k) Src_internal_props = Ok (is_internal k).
Proof. reflexivity. Qed.

Lemma internal_starts_us k : is_internal k = true -> starts_us k = true.
Proof.
  unfold is_internal, Src_internal_props. cbn [py_in existsb py_eq].
  intro H. repeat (apply orb_true_iff in H; destruct H as [H|H]);
    try (apply pystr_eqb_spec in H; subst k; reflexivity). discriminate H.
Qed.

Lemma internals_internal x t p : In p (internals x t) -> is_internal (fst p) = true.
Proof.
  unfold internals. intro H. repeat (apply in_app_or in H; destruct H as [H|H]).
  - destruct (i_nones x); [destruct H as [<-|[]]; reflexivity | destruct H].
  - destruct (i_live x); [destruct H as [<-|[]]; reflexivity | destruct H].
  - destruct t; [destruct H as [<-|[]]; reflexivity | destruct H].
Qed.

Lemma c_ok_not_field c k : c_ok c = true -> starts_us k = true -> is_field c k = false.
Proof.
  unfold c_ok, is_field. intros H Hk. destruct (find_field (c_fields c) k) as [fd|] eqn:E; [|reflexivity].
  pose proof (find_field_in _ _ _ E) as Hin. rewrite forallb_forall in H. specialize (H fd Hin).
  assert (fd_name fd = k).
  { clear -E. induction (c_fields c) as [|d l IH]; [discriminate|]. cbn [find_field] in E.
    destruct (pystr_eqb (fd_name d) k) eqn:E'; [inversion E; subst; apply pystr_eqb_spec; exact E' | apply IH; exact E]. }
  subst k. rewrite Hk in H. discriminate.
Qed.

Lemma public_get_internal x k : public_attrs x = true -> is_internal k = true -> alist_get (i_attrs x) k = None.
Proof.
  intros H Hk. apply alist_get_notin. intro Hin. apply in_map_iff in Hin. destruct Hin as [p [<- Hp]].
  unfold public_attrs in H. rewrite forallb_forall in H. specialize (H p Hp). rewrite Hk in H. discriminate.
Qed.

Lemma internals_get_public x t k : is_internal k = false -> alist_get (internals x t) k = None.
Proof.
  intro Hk. apply alist_get_notin. intro Hin. apply in_map_iff in Hin. destruct Hin as [p [<- Hp]].
  rewrite (internals_internal _ _ _ Hp) in Hk. discriminate.
Qed.

(* reading a public name in the whole __dict__ is reading it in the model's attribute list *)
Lemma dict_get_public x t k : is_internal k = false -> alist_get (inst_dict_of x t) k = alist_get (i_attrs x) k.
Proof.
  intro Hk. unfold inst_dict_of. rewrite alist_get_app, (internals_get_public x t k Hk).
  destruct (alist_get (i_attrs x) k); reflexivity.
Qed.

Lemma dict_get_nones x t : public_attrs x = true ->
  alist_get (inst_dict_of x t) n_none_fields = match i_nones x with Some l => Some (nones_val l) | None => None end.
Proof.
  intro H. unfold inst_dict_of. rewrite alist_get_app, (public_get_internal x n_none_fields H eq_refl).
  unfold internals. destruct (i_nones x); [reflexivity|].
  destruct (i_live x); destruct t; reflexivity.
Qed.

(* ------------------------------------------------------------------ the keys of __dict__ are distinct *)

(* what makes [inst_dict_of x t] a dict: distinct public names, none of them internal *)
Definition keys_ok (x : inst) : bool := nodup_by pystr_eqb (map fst (i_attrs x)) && public_attrs x.

Lemma NoDup_app_disj {A} (l m : list A) :
  NoDup l -> NoDup m -> (forall x, In x l -> In x m -> False) -> NoDup (l ++ m).
Proof.
  induction l as [|a l IH]; intros Hl Hm Hd; [exact Hm|].
  inversion Hl as [|? ? Hn Hl']; subst. cbn [app]. constructor.
  - intro H. apply in_app_or in H. destruct H as [H|H]; [contradiction | apply (Hd a); [left; reflexivity | exact H]].
  - apply IH; [exact Hl' | exact Hm | intros x Hx; apply Hd; right; exact Hx].
Qed.

Lemma internals_keys_nodup x t : NoDup (map fst (internals x t)).
Proof.
  unfold internals. destruct (i_nones x); destruct (i_live x); destruct t; cbn [app map fst];
    repeat constructor; cbn [In]; intro H; repeat destruct H as [H|H]; try discriminate H; exact H.
Qed.

Lemma dict_keys_nodup x t : keys_ok x = true -> NoDup (map fst (inst_dict_of x t)).
Proof.
  unfold keys_ok. intro H. apply andb_true_iff in H. destruct H as [H1 H2].
  unfold inst_dict_of. rewrite map_app. apply NoDup_app_disj.
  - apply nodup_by_NoDup. exact H1.
  - apply internals_keys_nodup.
  - intros k Hk Hk'. apply in_map_iff in Hk. destruct Hk as [p [<- Hp]].
    apply in_map_iff in Hk'. destruct Hk' as [q [E Hq]].
    unfold public_attrs in H2. rewrite forallb_forall in H2. specialize (H2 p Hp).
    rewrite <- E, (internals_internal _ _ _ Hq) in H2. discriminate.
Qed.

(* ------------------------------------------------------------------ stores on a fresh object *)

Lemma alist_set_fresh {A} (l : list (pystr * A)) k v : ~ In k (map fst l) -> alist_set l k v = l ++ [(k, v)].
Proof.
  induction l as [|[k' v'] t IH]; intro H; [reflexivity|].
  cbn [alist_set app]. destruct (pystr_eqb k' k) eqn:E.
  - exfalso. apply H. left. apply pystr_eqb_spec. exact E.
  - rewrite IH; [reflexivity | intro Hin; apply H; right; exact Hin].
Qed.

Lemma fold_alist_set_fresh (acc d : list (pystr * pyval)) :
  NoDup (map fst (acc ++ d)) ->
  fold_left (fun a p => alist_set a (fst p) (snd p)) d acc = acc ++ d.
Proof.
  revert acc. induction d as [|[k v] d IH]; intros acc H; [rewrite app_nil_r; reflexivity|].
  cbn [fold_left fst snd]. rewrite alist_set_fresh.
  - rewrite IH; rewrite <- app_assoc; [reflexivity | exact H].
  - rewrite map_app in H. apply NoDup_remove_2 in H. intro Hin. apply H. apply in_or_app. left. exact Hin.
Qed.

Lemma attrs_update_skeys acc d :
  attrs_update acc (skeys d) = Ok (fold_left (fun a p => alist_set a (fst p) (snd p)) d acc).
Proof.
  revert acc. induction d as [|[k v] d IH]; intro acc; [reflexivity|].
  cbn [skeys map fst snd attrs_update fold_left]. fold (skeys d). apply IH.
Qed.

Section World.
  Variable W : world.
  Let h := w_heap W.

  (* ---------------------------------------------------------------- Structure.__copy__ *)

  Theorem Src_copy_is_copy_inst x t :
    keys_ok x = true ->
    Src_Structure_copy W (inst_obj x t) = Ok (inst_obj (copy_inst x) t).
  Proof.
    intro K. unfold Src_Structure_copy, inst_obj.
    cbn [inst_class PyOpsFields.fld_class_of bind obj_new ref]. rewrite ref_tag_refl.
    cbn [bind inst_dict inst_dict_update]. rewrite dict_of_attrs_skeys. cbn [bind].
    rewrite attrs_update_skeys, fold_alist_set_fresh; [reflexivity|].
    cbn [app]. apply dict_keys_nodup. exact K.
  Qed.

  (* ---------------------------------------------------------------- Structure.__deepcopy__ *)

  Definition entry (p : pystr * pyval) : pyval := PTuple [PStr (fst p); snd p].

  Lemma dict_items_skeys d : py_dict_items (PDict (skeys d)) = Ok (map entry d).
  Proof. unfold py_dict_items, skeys. rewrite map_map. reflexivity. Qed.

  Lemma unpack_entry p : py_unpack 2 false (entry p) = Ok [PStr (fst p); snd p].
  Proof. reflexivity. Qed.

  Lemma any_getattr_def_inst_ok fget c d a dflt :
    class_field h c a = None -> exists v, any_getattr_def fget h (PStruct c d) a dflt = Ok v.
  Proof.
    intro CF. unfold any_getattr_def, any_getattr. rewrite CF.
    destruct (alist_get d a) as [v|]; [exists v; reflexivity|].
    destruct (h c a) as [v|]; [exists v | exists dflt]; reflexivity.
  Qed.

  Lemma deepcopy_inst_id x : deepcopy_inst x = x.
  Proof.
    destruct x as [c a n l]. unfold deepcopy_inst, deepcopy_val. cbn [i_cls i_attrs i_nones i_live]. f_equal.
    induction a as [|[k v] a IH]; [reflexivity|]. cbn [map fst snd]. rewrite IH. reflexivity.
  Qed.

  Lemma setattr_loop c d acc :
    py_for (fun v_result_9 x10 : pyval =>
              l11 <- py_unpack 2 false x10;;
              match l11 with
              | [v_k_12; v_v_13] =>
                  v_result_14 <- inst_setattr_dyn v_result_9 v_k_12 v_v_13;; Ok (Next v_result_14)
              | _ => Raise Unmodelled
              end) (map entry d) (PStruct c acc) =
    Ok (Next (PStruct c (fold_left (fun a p => alist_set a (fst p) (snd p)) d acc))).
  Proof.
    revert acc. induction d as [|p d IH]; intro acc; [reflexivity|].
    cbn [map py_for]. rewrite unpack_entry. cbn [bind inst_setattr_dyn inst_setattr fold_left]. apply IH.
  Qed.

  Lemma alist_del_fresh {A} (l : list (pystr * A)) k : ~ In k (map fst l) -> alist_del l k = l.
  Proof.
    induction l as [|[k' v] l IH]; intro H; [reflexivity|].
    cbn [alist_del]. destruct (pystr_eqb k' k) eqn:E.
    - exfalso. apply H. left. apply pystr_eqb_spec. exact E.
    - rewrite IH; [reflexivity | intro Hin; apply H; right; exact Hin].
  Qed.

  Lemma alist_get_keys {A} (l : list (pystr * A)) k : In k (map fst l) -> exists v, alist_get l k = Some v.
  Proof.
    induction l as [|[k' v] l IH]; intro H; [destruct H|].
    cbn [alist_get]. destruct (pystr_eqb k' k) eqn:E; [exists v; reflexivity|].
    destruct H as [H|H]; [cbn [fst] in H; subst; rewrite pystr_eqb_refl in E; discriminate | apply IH; exact H].
  Qed.

  Theorem Src_deepcopy_is_deepcopy_inst x t memo :
    keys_ok x = true ->
    alist_has (i_attrs x) n_skip_validation = false ->
    class_field h (i_cls x) n_immutable = None ->
    Src_Structure_deepcopy W (inst_obj x t) memo = Ok (inst_obj (deepcopy_inst x) t).
  Proof.
    intros K NS CF. rewrite deepcopy_inst_id. unfold Src_Structure_deepcopy, inst_obj.
    cbn [py_isinstance existsb isinstance1 py_or py_and bind py_is_enum val_isinstance orb].
    destruct (any_getattr_def_inst_ok (Src_Field_get W) (i_cls x) (inst_dict_of x t) n_immutable (PBool false) CF) as [v Hv].
    fold h. unfold n_immutable in Hv. rewrite Hv.
    assert (Hc : exists b, py_and
                   (if class_says h (i_cls x) (s2p "ImmutableMixin") then Ok true
                    else Ok (class_says h (i_cls x) (s2p "ImmutableStructure")))
                   (fun _ : unit => t1 <- Ok v;; Ok (py_truthy t1)) = Ok b).
    { unfold py_and. destruct (class_says h (i_cls x) (s2p "ImmutableMixin")); cbn [bind].
      - eexists; reflexivity.
      - destruct (class_says h (i_cls x) (s2p "ImmutableStructure")); eexists; reflexivity. }
    destruct Hc as [b Hb]. rewrite Hb. cbn [bind]. destruct b; [reflexivity|].
    cbn [inst_class PyOpsFields.fld_class_of bind obj_new ref]. rewrite ref_tag_refl.
    cbn [bind inst_setattr alist_set inst_dict]. rewrite dict_of_attrs_skeys, dict_items_skeys. cbn [bind].
    rewrite setattr_loop. cbn [bind].
    assert (ND : NoDup (map fst ([(s2p "_skip_validation", PBool true)] ++ inst_dict_of x t))).
    { cbn [app map fst]. constructor; [|apply dict_keys_nodup; exact K].
      unfold inst_dict_of. rewrite map_app. intro Hin. apply in_app_or in Hin. destruct Hin as [Hin|Hin].
      - unfold alist_has in NS. destruct (alist_get (i_attrs x) n_skip_validation) eqn:E; [discriminate|].
        destruct (alist_get_keys _ _ Hin) as [w Hw]. pose proof (eq_trans (eq_sym Hw) E) as X. discriminate X.
      - apply in_map_iff in Hin. destruct Hin as [p [E1 Hp]].
        pose proof (internals_internal _ _ _ Hp) as I. rewrite E1 in I. discriminate I. }
    rewrite fold_alist_set_fresh; [|exact ND].
    cbn [app inst_delattr]. unfold alist_has. cbn [alist_get]. rewrite pystr_eqb_refl. cbn [bind alist_del]. rewrite pystr_eqb_refl.
    rewrite alist_del_fresh; [reflexivity|].
    cbn [app map fst] in ND. apply NoDup_cons_iff in ND. exact (proj1 ND).
  Qed.

  (* ---------------------------------------------------------------- Field.__get__ *)

  Lemma py_or_total a f : (exists b, a = Ok b) -> (exists b, f tt = Ok b) -> exists b, py_or a f = Ok b.
  Proof.
    intros [b ->] [b' E]. unfold py_or. cbn [bind]. destruct b; [exists true; reflexivity | exists b'; exact E].
  Qed.

  Lemma val_isinstance_total v k : exists b, val_isinstance h v k = Ok b.
  Proof.
    destruct v; cbn [val_isinstance]; try (eexists; reflexivity).
    unfold obj_isinstance. destruct (pystr_eqb tag ref_tag); eexists; reflexivity.
  Qed.

  Lemma py_is_enum_total v : exists b, py_is_enum h v = Ok b.
  Proof.
    destruct v; cbn [py_is_enum]; try (eexists; reflexivity).
    unfold obj_isinstance. destruct (pystr_eqb tag ref_tag); eexists; reflexivity.
  Qed.

  Lemma field_by_name_get c k :
    dict_get (map (fun fd => (PStr (fd_name fd), fld_ref (fd_name fd))) (c_fields c)) (PStr k) =
    if is_field c k then Some (fld_ref k) else None.
  Proof.
    unfold is_field. induction (c_fields c) as [|d l IH]; [reflexivity|].
    cbn [map dict_get py_eq find_field]. destruct (pystr_eqb (fd_name d) k) eqn:E; [|exact IH].
    apply pystr_eqb_spec in E. subst k. reflexivity.
  Qed.

  Lemma class_field_view c undef cls k :
    class_view h c undef cls -> class_field h cls k = if is_field c k then Some (fld_ref k) else None.
  Proof.
    intro V. unfold class_field. rewrite (cv_fields _ _ _ _ V). unfold field_by_name. apply field_by_name_get.
  Qed.

  Lemma field_not_internal c k : c_ok c = true -> is_field c k = true -> is_internal k = false.
  Proof.
    intros CO F. destruct (is_internal k) eqn:E; [|reflexivity].
    apply internal_starts_us in E. rewrite (c_ok_not_field c k CO E) in F. discriminate.
  Qed.

  Lemma in_nones_val k l : py_in_dyn (PStr k) (nones_val l) = Ok (str_in k l).
  Proof.
    unfold nones_val. cbn [py_in_dyn]. unfold py_in_hashed. cbn [py_hashable']. f_equal.
    unfold py_in, str_in. induction l as [|y l IH]; [reflexivity|]. cbn [map existsb py_eq]. f_equal. exact IH.
  Qed.

  (* getattr(instance, "_none_fields", []) *)
  Lemma getattr_nones fget c undef x t :
    class_view h c undef (i_cls x) -> c_ok c = true -> public_attrs x = true ->
    any_getattr_def fget h (PStruct (i_cls x) (inst_dict_of x t)) n_none_fields (PList []) =
    Ok (match i_nones x with Some l => nones_val l | None => PList [] end).
  Proof.
    intros V CO PA. unfold any_getattr_def, any_getattr.
    rewrite (class_field_view c undef _ _ V), (c_ok_not_field c n_none_fields CO eq_refl), (dict_get_nones x t PA).
    destruct (i_nones x); [reflexivity|]. rewrite (cv_no_nones _ _ _ _ V). reflexivity.
  Qed.

  Lemma Src_Field_get_is_getf c undef x t k :
    class_view h c undef (i_cls x) -> c_ok c = true -> public_attrs x = true ->
    is_field c k = true ->
    Src_Field_get W (fld_ref k) (inst_obj x t) (ref (i_cls x)) = Ok (getf c undef x k).
  Proof.
    intros V CO PA F. unfold Src_Field_get, inst_obj, fld_ref.
    rewrite !any_getattr_ref. fold h.
    rewrite (cv_name _ _ _ _ V k F), (cv_default _ _ _ _ V k F).
    cbn [py_is_not_none py_is_none negb py_and bind inst_dict].
    pose proof (field_not_internal c k CO F) as NI.
    unfold getf. rewrite dict_of_attrs_skeys.
    cbn [py_in_dyn py_hashable']. rewrite dict_has_skeys. unfold alist_has. rewrite (dict_get_public x t k NI).
    destruct (alist_get (i_attrs x) k) as [v|] eqn:G.
    - (* the name is in __dict__: the stored value, whatever the defensive-copy switches say *)
      cbn [py_not bind negb py_subscript]. unfold py_dict_getitem. cbn [py_hashable'].
      rewrite dict_get_skeys, (dict_get_public x t k NI), G. cbn [bind].
      rewrite any_getattr_def_ref. destruct (cv_config _ _ _ _ V) as [b Hb].
      unfold n_TypedPyDefaults in Hb. rewrite Hb. cbn [bind].
      match goal with |- (c1 <- ?e ;; _) = _ => assert (Hc : exists b1, e = Ok b1) end.
      { apply py_or_total; [eexists; reflexivity | unfold py_not; cbn [bind]; eexists; reflexivity]. }
      destruct Hc as [b1 ->]. cbn [bind]. destruct b1; [reflexivity|].
      destruct (any_getattr_def_inst_ok no_fget (i_cls x) (inst_dict_of x t) n_immutable (PBool false)) as [im Him].
      { rewrite (class_field_view c undef _ _ V), (c_ok_not_field c n_immutable CO eq_refl). reflexivity. }
      unfold n_immutable in Him. rewrite Him. cbn [bind].
      match goal with |- (t28 <- py_or_val (t26 <- (b <- py_not ?e ;; _) ;; _) _ ;; _) = _ =>
        assert (Hc : exists b1, e = Ok b1) end.
      { repeat first [ apply val_isinstance_total | apply py_is_enum_total
                     | (apply py_or_total; [|intros; cbv beta]) | (eexists; reflexivity) ]. }
      destruct Hc as [b1 ->]. unfold py_not, py_or_val, PyOpsFields.py_or_val. cbn [bind].
      destruct (py_truthy (PBool (negb b1))); cbn [bind]; destruct (py_truthy im); cbn [bind];
        repeat match goal with |- context [if ?b then _ else _] => destruct b end; reflexivity.
    - (* the name is not in __dict__: the default, or Undefined *)
      cbn [py_not bind negb]. rewrite (cv_plain_default _ _ _ _ V k F). cbn [bind].
      cbn [inst_class PyOpsFields.fld_class_of bind]. rewrite any_getattr_def_ref.
      pose proof (getattr_nones no_fget c undef x t V CO PA) as GN. unfold n_none_fields in GN. rewrite GN.
      unfold missing. rewrite F. unfold nones_list.
      pose proof (cv_undef _ _ _ _ V) as U.
      assert (E : py_truthy match h (i_cls x) (s2p "_enable_undefined_value") with Some v => v | None => PBool false end = undef).
      { destruct (h (i_cls x) (s2p "_enable_undefined_value")); [exact U | subst undef; reflexivity]. }
      unfold py_or, py_not. cbn [bind]. rewrite E.
      destruct undef; cbn [negb bind andb]; [|reflexivity].
      destruct (i_nones x) as [l|].
      + rewrite in_nones_val. cbn [bind]. destruct (str_in k l); reflexivity.
      + reflexivity.
  Qed.

  (* ---------------------------------------------------------------- sorted(...) *)

  Lemma str_ltb_eq a b : str_ltb a b = pystr_ltb a b.
  Proof. revert b; induction a as [|x a IH]; intros [|y b]; cbn [str_ltb pystr_ltb]; try reflexivity; rewrite IH; reflexivity. Qed.

  Lemma ins_key_eq {A} (p : pystr * A) l : ins_key p l = ins p l.
  Proof. induction l as [|q l IH]; cbn [ins_key ins]; [reflexivity|]. rewrite str_ltb_eq, IH. reflexivity. Qed.

  Lemma sort_keyed_eq {A} (l : list (pystr * A)) : sort_keyed l = sort_by_key l.
  Proof. unfold sort_keyed, sort_by_key. induction l as [|p l IH]; cbn [fold_right]; [reflexivity|]. rewrite IH. apply ins_key_eq. Qed.

  (* sorting commutes with a map that keeps the keys *)
  Lemma ins_map {A B} (g : pystr * A -> pystr * B) (Hg : forall q, fst (g q) = fst q) p l :
    ins (g p) (map g l) = map g (ins p l).
  Proof.
    induction l as [|q l IH]; cbn [map ins]; [reflexivity|]. rewrite !Hg.
    destruct (pystr_ltb (fst q) (fst p)); cbn [map]; [rewrite IH|]; reflexivity.
  Qed.

  Lemma sort_map {A B} (g : pystr * A -> pystr * B) (Hg : forall q, fst (g q) = fst q) l :
    sort_by_key (map g l) = map g (sort_by_key l).
  Proof.
    unfold sort_by_key. induction l as [|p l IH]; cbn [map fold_right]; [reflexivity|].
    rewrite IH. apply ins_map. exact Hg.
  Qed.

  Lemma keyed_strs ks : keyed (map PStr ks) = Some (map (fun k => (k, PStr k)) ks).
  Proof. induction ks as [|k ks IH]; [reflexivity|]. cbn [map keyed sort_key]. rewrite IH. reflexivity. Qed.

  Lemma py_sorted_strs ks : py_sorted (map PStr ks) = Ok (map PStr (sort_names ks)).
  Proof.
    unfold py_sorted. rewrite keyed_strs.
    assert (forallb is_str (map PStr ks) = true) as ->.
    { induction ks as [|k ks IH]; [reflexivity | exact IH]. }
    cbn [orb]. f_equal. rewrite sort_keyed_eq. unfold sort_names.
    change (map (fun k => (k, PStr k)) ks) with (map (fun k => (fun q : pystr * unit => (fst q, PStr (fst q))) ((fun k => (k, tt)) k)) ks).
    rewrite <- (map_map (fun k => (k, tt)) (fun q : pystr * unit => (fst q, PStr (fst q)))).
    rewrite (sort_map (fun q : pystr * unit => (fst q, PStr (fst q))) (fun q => eq_refl)).
    rewrite !map_map. reflexivity.
  Qed.

  Lemma sort_names_in k ks : In k (sort_names ks) <-> In k ks.
  Proof.
    unfold sort_names. split; intro H.
    - apply in_map_iff in H. destruct H as [[k' u] [E Hp]]. cbn [fst] in E. subst k'.
      apply (Permutation_in _ (sort_perm unit _)) in Hp. apply in_map_iff in Hp. destruct Hp as [k' [E Hk]].
      inversion E. subst. exact Hk.
    - apply in_map_iff. exists (k, tt). split; [reflexivity|].
      apply (Permutation_in _ (Permutation_sym (sort_perm unit _))). apply in_map_iff. exists k. split; [reflexivity | exact H].
  Qed.

  (* ---------------------------------------------------------------- loops *)

  Lemma py_for_forall (f : unit -> pyval -> res (ctl unit)) (p : pyval -> bool) (v : pyval) l :
    (forall x, In x l -> f tt x = Ok (if p x then Next tt else Return v)) ->
    py_for f l tt = Ok (if forallb p l then Next tt else Return v).
  Proof.
    induction l as [|x l IH]; intro H; [reflexivity|].
    cbn [py_for forallb]. rewrite (H x (or_introl eq_refl)). cbn [bind].
    destruct (p x); cbn [andb]; [apply IH; intros y Hy; apply H; right; exact Hy | reflexivity].
  Qed.

  Lemma forallb_two {A} (p1 p2 : A -> bool) l1 l2 :
    (forall k, In k l1 -> p1 k = true \/ (In k l2 /\ p1 k = p2 k)) ->
    (forall k, In k l2 -> In k l1 /\ p1 k = p2 k) ->
    forallb p1 l1 = forallb p2 l2.
  Proof.
    intros H1 H2. destruct (forallb p2 l2) eqn:E2.
    - apply forallb_forall. intros k Hk. rewrite forallb_forall in E2.
      destruct (H1 k Hk) as [T|[Hin E]]; [exact T | rewrite E; apply E2; exact Hin].
    - destruct (forallb p1 l1) eqn:E1; [|reflexivity].
      rewrite forallb_forall in E1. assert (forallb p2 l2 = true); [|congruence].
      apply forallb_forall. intros k Hk. destruct (H2 k Hk) as [Hin E]. rewrite <- E. apply E1. exact Hin.
  Qed.

  (* ---------------------------------------------------------------- {**a, **b} *)

  Lemma merge_skeys la lb :
    py_dict_merge (PDict (skeys la)) (PDict (skeys lb)) =
    Ok (PDict (skeys (fold_left (fun a p => alist_set a (fst p) (snd p)) lb la))).
  Proof.
    unfold py_dict_merge, PyOpsFields.py_dict_merge. f_equal. f_equal.
    revert la. induction lb as [|[k v] lb IH]; intro la; [reflexivity|].
    cbn [skeys map fold_left fst snd]. fold (skeys lb). rewrite dict_set_skeys. apply IH.
  Qed.

  Lemma alist_set_keys {A} (l : list (pystr * A)) k v k0 :
    In k0 (map fst (alist_set l k v)) <-> k0 = k \/ In k0 (map fst l).
  Proof.
    induction l as [|[k' v'] l IH]; cbn [alist_set map fst In].
    - intuition congruence.
    - destruct (pystr_eqb k' k) eqn:E; cbn [map fst In].
      + apply pystr_eqb_spec in E. subst k'. intuition congruence.
      + rewrite IH. intuition congruence.
  Qed.

  Lemma merged_keys (la lb : list (pystr * pyval)) k :
    In k (map fst (fold_left (fun a p => alist_set a (fst p) (snd p)) lb la)) <-> In k (map fst la) \/ In k (map fst lb).
  Proof.
    revert la. induction lb as [|[k' v] lb IH]; intro la; cbn [fold_left map fst snd In]; [tauto|].
    rewrite IH, alist_set_keys. intuition congruence.
  Qed.

  Lemma iter_skeys l : py_iter_obs (PDict (skeys l)) = Ok (map PStr (map fst l)).
  Proof. unfold py_iter_obs, PyOpsFields.py_iter, skeys. rewrite !map_map. reflexivity. Qed.

  (* ---------------------------------------------------------------- the _none_fields sets *)

  Lemma all_in_strs l m : all_in_by py_eq (map PStr l) (map PStr m) = subset l m.
  Proof.
    rewrite all_in_by_spec. unfold subset, str_in.
    induction l as [|k l IH]; [reflexivity|]. cbn [map forallb]. rewrite IH. f_equal.
    clear. induction m as [|y m IH]; [reflexivity|]. cbn [map existsb py_eq]. f_equal. exact IH.
  Qed.

  Lemma set_eq_subset l m :
    NoDup l -> NoDup m ->
    (Nat.eqb (length (map PStr l)) (length (map PStr m)) && all_in_by py_eq (map PStr l) (map PStr m)) =
    (subset l m && subset m l).
  Proof.
    intros Nl Nm. rewrite all_in_strs, !map_length.
    destruct (subset l m) eqn:S1; [|rewrite andb_false_r; reflexivity].
    rewrite andb_true_r. cbn [andb].
    assert (I1 : incl l m).
    { intros k Hk. apply str_in_spec. apply (subset_in l m k S1). apply str_in_spec. exact Hk. }
    destruct (subset m l) eqn:S2.
    - assert (I2 : incl m l).
      { intros k Hk. apply str_in_spec. apply (subset_in m l k S2). apply str_in_spec. exact Hk. }
      apply Nat.eqb_eq. apply Nat.le_antisymm; apply NoDup_incl_length; assumption.
    - apply Nat.eqb_neq. intro E.
      assert (I2 : incl m l) by (apply NoDup_length_incl; [exact Nl | rewrite E; apply le_n | exact I1]).
      assert (subset m l = true); [|congruence].
      unfold subset. apply forallb_forall. intros k Hk. apply str_in_spec. apply I2. exact Hk.
  Qed.

  Definition nones_entry (x : inst) : pyval := match i_nones x with Some l => nones_val l | None => PNone end.

  Lemma nones_cond a b :
    nodup_by pystr_eqb (nones_list a) = true -> nodup_by pystr_eqb (nones_list b) = true ->
    py_and (py_or (Ok (py_truthy (nones_entry a))) (fun _ => Ok (py_truthy (nones_entry b))))
           (fun _ => py_ne (nones_entry a) (nones_entry b)) = Ok (negb (nones_ok a b)).
  Proof.
    unfold nones_entry, nones_ok, nones_list, nones_val, py_and, py_or, py_ne. intros Na Nb.
    destruct (i_nones a) as [l|]; destruct (i_nones b) as [m|]; cbn [py_truthy truthy_nones bind].
    - rewrite py_eq_set, (set_eq_subset l m (nodup_by_NoDup _ Na) (nodup_by_NoDup _ Nb)).
      destruct l as [|x l]; destruct m as [|y m]; cbn [map length Nat.eqb negb bind orb]; reflexivity.
    - destruct l as [|x l]; cbn [map length Nat.eqb negb bind orb py_eq]; reflexivity.
    - destruct m as [|y m]; cbn [map length Nat.eqb negb bind orb py_eq]; reflexivity.
    - reflexivity.
  Qed.

  (* ---------------------------------------------------------------- Structure.__eq__ *)

  Lemma getattr_field c undef x t k :
    class_view h c undef (i_cls x) -> c_ok c = true -> public_attrs x = true -> is_field c k = true ->
    any_getattr_dyn (Src_Field_get W) h (inst_obj x t) (PStr k) = Ok (getf c undef x k).
  Proof.
    intros V CO PA F. unfold any_getattr_dyn, any_getattr, inst_obj.
    rewrite (class_field_view c undef _ _ V), F. apply (Src_Field_get_is_getf c undef x t k V CO PA F).
  Qed.

  Lemma dict_get_nonfield c undef x t k :
    is_internal k = false -> is_field c k = false ->
    py_dict_get (PDict (skeys (inst_dict_of x t))) (PStr k) PNone = Ok (getf c undef x k).
  Proof.
    intros NI F. unfold py_dict_get, PyOpsVersioned.py_dict_get. cbn [py_hashable'].
    rewrite dict_get_skeys, (dict_get_public x t k NI). unfold getf, missing. rewrite F. reflexivity.
  Qed.

  Theorem Src_eq_is_inst_eq c undef a b ta tb :
    class_view h c undef (i_cls a) -> c_ok c = true ->
    public_attrs a = true -> public_attrs b = true ->
    nodup_by pystr_eqb (nones_list a) = true -> nodup_by pystr_eqb (nones_list b) = true ->
    Src_Structure_eq W (inst_obj a ta) (inst_obj b tb) = Ok (PBool (inst_eq c undef a b)).
  Proof.
    intros V CO PA PB Na Nb. unfold Src_Structure_eq, inst_eq.
    unfold inst_obj at 1 2. cbn [inst_class PyOpsFields.fld_class_of bind].
    unfold py_ne at 1. cbn [bind]. unfold ref at 1 2. rewrite py_eq_other, ref_tag_refl. cbn [andb].
    destruct (pystr_eqb (i_cls a) (i_cls b)) eqn:EC; cbn [negb andb]; [|reflexivity].
    apply pystr_eqb_spec in EC.
    unfold inst_obj at 1 2. cbn [inst_dict bind]. rewrite !dict_of_attrs_skeys, merge_skeys. cbn [bind].
    rewrite iter_skeys. cbn [bind]. rewrite py_sorted_strs. cbn [bind py_iter_obs PyOpsFields.py_iter].
    set (keys := sort_names (map fst (fold_left (fun a0 p => alist_set a0 (fst p) (snd p)) (inst_dict_of b tb) (inst_dict_of a ta)))).
    set (eqk := fun k => py_eq (getf c undef a k) (getf c undef b k)).
    rewrite (py_for_forall _ (fun v => match v with PStr k => is_internal k || eqk k | _ => false end) (PBool false)).
    2:{ intros v Hv. apply in_map_iff in Hv. destruct Hv as [k [<- _]].
        rewrite is_internal_in_dyn. cbn [bind]. destruct (is_internal k) eqn:NI; cbn [orb]; [reflexivity|].
        unfold inst_obj at 1. cbn [inst_class PyOpsFields.fld_class_of bind].
        unfold Src_Structure_get_all_fields_by_name. rewrite any_getattr_ref. fold h. pose proof (cv_fields _ _ _ _ V) as CF. unfold n_field_by_name in CF. rewrite CF. cbn [bind].
        unfold field_by_name. cbn [py_in_dyn py_hashable']. unfold dict_has. rewrite field_by_name_get.
        destruct (is_field c k) eqn:F.
        - rewrite (getattr_field c undef a ta k V CO PA F).
          assert (V' : class_view h c undef (i_cls b)) by (rewrite <- EC; exact V).
          rewrite (getattr_field c undef b tb k V' CO PB F). cbn [bind]. unfold py_ne. cbn [bind]. unfold eqk.
          destruct (py_eq (getf c undef a k) (getf c undef b k)); reflexivity.
        - unfold inst_obj. cbn [inst_dict bind]. rewrite !dict_of_attrs_skeys.
          rewrite (dict_get_nonfield c undef a ta k NI F), (dict_get_nonfield c undef b tb k NI F). cbn [bind].
          unfold py_ne. cbn [bind]. unfold eqk.
          destruct (py_eq (getf c undef a k) (getf c undef b k)); reflexivity. }
    cbn [bind].
    assert (EF : forallb (fun v => match v with PStr k => is_internal k || eqk k | _ => false end) (map PStr keys) =
                 forallb eqk (map fst (i_attrs a) ++ map fst (i_attrs b))).
    { rewrite <- (map_id (map fst (i_attrs a) ++ map fst (i_attrs b))).
      assert (forallb (fun v => match v with PStr k => is_internal k || eqk k | _ => false end) (map PStr keys)
              = forallb (fun k => is_internal k || eqk k) keys) as ->.
      { induction keys as [|k l IH]; [reflexivity|]. cbn [map forallb]. rewrite IH. reflexivity. }
      rewrite map_id. apply forallb_two.
      - intros k Hk. destruct (is_internal k) eqn:NI; [left; reflexivity|]. right.
        unfold keys in Hk. apply (proj1 (sort_names_in _ _)) in Hk. apply (proj1 (merged_keys _ _ _)) in Hk. split; [|reflexivity].
        apply in_or_app. unfold inst_dict_of in Hk. rewrite !map_app in Hk.
        destruct Hk as [Hk|Hk]; apply in_app_or in Hk; destruct Hk as [Hk|Hk]; try (left; exact Hk); try (right; exact Hk);
          exfalso; apply in_map_iff in Hk; destruct Hk as [p [E Hp]];
          pose proof (internals_internal _ _ _ Hp) as I; rewrite E in I; congruence.
      - intros k Hk. assert (NI : is_internal k = false).
        { apply in_app_or in Hk. destruct Hk as [Hk|Hk]; apply in_map_iff in Hk; destruct Hk as [p [<- Hp]].
          - unfold public_attrs in PA. rewrite forallb_forall in PA. apply negb_true_iff. apply PA. exact Hp.
          - unfold public_attrs in PB. rewrite forallb_forall in PB. apply negb_true_iff. apply PB. exact Hp. }
        rewrite NI. split; [|reflexivity]. unfold keys. apply (proj2 (sort_names_in _ _)). apply (proj2 (merged_keys _ _ _)).
        unfold inst_dict_of. rewrite !map_app. apply in_app_or in Hk.
        destruct Hk as [Hk|Hk]; [left | right]; apply in_or_app; left; exact Hk. }
    rewrite EF. fold eqk.
    destruct (forallb eqk (map fst (i_attrs a) ++ map fst (i_attrs b))); cbn [andb]; [|reflexivity].
    unfold inst_obj. cbn [inst_dict bind]. rewrite !dict_of_attrs_skeys.
    unfold py_dict_get, PyOpsVersioned.py_dict_get. cbn [py_hashable' bind]. rewrite !dict_get_skeys.
    pose proof (dict_get_nones a ta PA) as Ga. pose proof (dict_get_nones b tb PB) as Gb.
    unfold n_none_fields in Ga, Gb. rewrite Ga, Gb.
    assert (Ea : forall x, match match i_nones x with Some l => Some (nones_val l) | None => None end with Some v => v | None => PNone end
                           = nones_entry x) by (intro x; unfold nones_entry; destruct (i_nones x); reflexivity).
    rewrite !Ea.
    rewrite (nones_cond a b Na Nb). cbn [bind]. destruct (nones_ok a b); reflexivity.
  Qed.

  (* ---------------------------------------------------------------- Structure.__ne__ *)

  Theorem Src_ne_is_not_inst_eq c undef a b ta tb :
    class_view h c undef (i_cls a) -> c_ok c = true ->
    public_attrs a = true -> public_attrs b = true ->
    nodup_by pystr_eqb (nones_list a) = true -> nodup_by pystr_eqb (nones_list b) = true ->
    Src_Structure_ne W (inst_obj a ta) (inst_obj b tb) = Ok (PBool (negb (inst_eq c undef a b))).
  Proof.
    intros V CO PA PB Na Nb. unfold Src_Structure_ne.
    rewrite (Src_eq_is_inst_eq c undef a b ta tb V CO PA PB Na Nb). reflexivity.
  Qed.

  (* ---------------------------------------------------------------- Structure.__str__ *)

  Let O := w_or W.
  Let ns := so_num_str O.
  Let sr := so_str_repr O.
  Let ev := so_enum_vrepr O.

  Definition heap_plain : Prop :=
    forall cn, h cn (s2p "__name__") = Some (PStr cn) /\ h cn n_none_fields = None /\ class_field h cn n_none_fields = None.

  Definition plain_name (cn : pystr) : bool := negb (PyOpsFields.str_prefix (s2p "StructureReference_") cn).

  Lemma py_for_map_filter {A} (step : pyval -> pyval -> res (ctl pyval)) (enc : A -> pyval) (keep : A -> bool)
        (render : A -> pystr) (es : list A) acc :
    (forall e acc', In e es ->
       step (PList acc') (enc e) = Ok (Next (PList (if keep e then acc' ++ [PStr (render e)] else acc')))) ->
    py_for step (map enc es) (PList acc) = Ok (Next (PList (acc ++ map (fun e => PStr (render e)) (filter keep es)))).
  Proof.
    revert acc. induction es as [|e es IH]; intros acc H; [rewrite app_nil_r; reflexivity|].
    cbn [map py_for filter]. rewrite (H e acc (or_introl eq_refl)). cbn [bind].
    rewrite IH; [|intros e' acc' He'; apply H; right; exact He'].
    destruct (keep e); [rewrite <- app_assoc|]; reflexivity.
  Qed.

  Lemma str_nodup_NoDup l : NoDup l -> str_nodup l = true.
  Proof.
    induction 1 as [|k l Hn Hl IH]; [reflexivity|]. cbn [str_nodup]. rewrite IH, andb_true_r.
    apply negb_true_iff. destruct (str_in k l) eqn:E; [|reflexivity]. apply str_in_spec in E. contradiction.
  Qed.

  Lemma py_sorted_entries d : NoDup (map fst d) -> py_sorted (map entry d) = Ok (map entry (sort_by_key d)).
  Proof.
    intro ND. unfold py_sorted.
    assert (K : keyed (map entry d) = Some (map (fun p => (fst p, entry p)) d)).
    { induction d as [|p d IH]; [reflexivity|]. cbn [map keyed]. inversion ND; subst. rewrite IH; [reflexivity | assumption]. }
    rewrite K.
    assert (forallb (fun v => negb (is_str v)) (map entry d) = true) as ->.
    { clear. induction d as [|p d IH]; [reflexivity | exact IH]. }
    rewrite map_map. cbn [fst]. change (map (fun x : pystr * pyval => fst x) d) with (map fst d). rewrite (str_nodup_NoDup _ ND). cbn [andb]. rewrite orb_true_r. f_equal.
    rewrite sort_keyed_eq. rewrite (sort_map (fun p : pystr * pyval => (fst p, entry p)) (fun q => eq_refl)).
    rewrite map_map. reflexivity.
  Qed.

  Lemma join_strs sep strs : py_str_join (PStr sep) (PList (map PStr strs)) = Ok (PStr (join sep strs)).
  Proof.
    unfold py_str_join. cbn [py_iter_obs PyOpsFields.py_iter bind].
    assert (all_strs (map PStr strs) = Some strs) as ->.
    { induction strs as [|s l IH]; [reflexivity|]. cbn [map all_strs]. rewrite IH. reflexivity. }
    reflexivity.
  Qed.

  Lemma filter_all {A} (p : A -> bool) l : (forall x, In x l -> p x = true) -> filter p l = l.
  Proof.
    induction l as [|x l IH]; intro H; [reflexivity|]. cbn [filter]. rewrite (H x (or_introl eq_refl)).
    rewrite IH; [reflexivity | intros y Hy; apply H; right; exact Hy].
  Qed.

  Lemma filter_none {A} (p : A -> bool) l : (forall x, In x l -> p x = false) -> filter p l = [].
  Proof.
    induction l as [|x l IH]; intro H; [reflexivity|]. cbn [filter]. rewrite (H x (or_introl eq_refl)).
    apply IH. intros y Hy. apply H. right. exact Hy.
  Qed.

  Lemma Permutation_filter {A} (p : A -> bool) l m : Permutation l m -> Permutation (filter p l) (filter p m).
  Proof.
    induction 1 as [|x l m P IH|x y l|l m n P1 IH1 P2 IH2]; cbn [filter].
    - constructor.
    - destruct (p x); [constructor|]; exact IH.
    - destruct (p x); destruct (p y); try apply Permutation_refl. apply perm_swap.
    - eapply perm_trans; eassumption.
  Qed.

  Lemma StronglySorted_filter {A} (R : A -> A -> Prop) (p : A -> bool) l :
    StronglySorted R l -> StronglySorted R (filter p l).
  Proof.
    induction 1 as [|x l S IH F]; cbn [filter]; [constructor|].
    destruct (p x); [|exact IH]. constructor; [exact IH|].
    rewrite Forall_forall in *. intros y Hy. apply filter_In in Hy. apply F. exact (proj1 Hy).
  Qed.

  Lemma NoDup_app_l {A} (l m : list A) : NoDup (l ++ m) -> NoDup l.
  Proof.
    induction l as [|x l IH]; intro H; [constructor|]. cbn [app] in H. inversion H as [|? ? Hn H']; subst.
    constructor; [intro Hx; apply Hn; apply in_or_app; left; exact Hx | apply IH; exact H'].
  Qed.

  (* the public entries of the sorted __dict__ are the sorted public entries *)
  Lemma filter_sorted_public (pub ints : list (pystr * pyval)) :
    NoDup (map fst (pub ++ ints)) ->
    (forall p, In p pub -> is_internal (fst p) = false) ->
    (forall p, In p ints -> is_internal (fst p) = true) ->
    filter (fun p => negb (is_internal (fst p))) (sort_by_key (pub ++ ints)) = sort_by_key pub.
  Proof.
    intros ND Hp Hi. apply sorted_perm_eq.
    - apply StronglySorted_filter. apply sort_sorted. exact ND.
    - apply sort_sorted. rewrite map_app in ND. apply NoDup_app_l in ND. exact ND.
    - eapply perm_trans; [apply Permutation_filter; apply sort_perm|].
      rewrite filter_app, (filter_all _ pub), (filter_none _ ints), app_nil_r.
      + apply Permutation_sym, sort_perm.
      + intros p Hin. rewrite (Hi p Hin). reflexivity.
      + intros p Hin. rewrite (Hp p Hin). reflexivity.
  Qed.

  Notation vsf := (vs ns sr ev false).
  Notation vst := (vs ns sr ev true).

  (* ---------------------------------------------------------------- heights *)

  Notation height := PyOpsVersioned.py_height.

  Fixpoint attrs_height (l : list (pystr * pyval)) : nat :=
    match l with [] => 0%nat | (_, x) :: t => Nat.max (height x) (attrs_height t) end.

  Lemma height_deque l : height (PDeque l) = S (PyOpsVersioned.list_height l).
  Proof. reflexivity. Qed.
  Lemma height_set fr l : height (PSet fr l) = S (PyOpsVersioned.list_height l).
  Proof. reflexivity. Qed.
  Lemma height_struct c attrs : height (PStruct c attrs) = S (attrs_height attrs).
  Proof. reflexivity. Qed.

  Lemma attrs_height_in k x attrs : In (k, x) attrs -> (height x <= attrs_height attrs)%nat.
  Proof.
    induction attrs as [|[k' y] t IH]; intros H; [destruct H|].
    cbn [attrs_height]. destruct H as [H|H]; [inversion H; subst; lia|]. specialize (IH H). lia.
  Qed.

  Lemma dict_height_in_k k x kv : In (k, x) kv -> (height k <= PyOpsVersioned.dict_height kv)%nat.
  Proof.
    induction kv as [|[k' y] t IH]; intros H; [destruct H|].
    cbn [PyOpsVersioned.dict_height]. destruct H as [H|H]; [inversion H; subst; lia|]. specialize (IH H). lia.
  Qed.

  (* ---------------------------------------------------------------- mapM, repr *)

  Lemma mapM_ok {A B} (g : A -> res B) (k : A -> B) l :
    Forall (fun x => g x = Ok (k x)) l -> mapM g l = Ok (map k l).
  Proof.
    induction 1 as [|x l Hx Hl IH]; [reflexivity|]. cbn [mapM map]. rewrite Hx. cbn [bind]. rewrite IH. reflexivity.
  Qed.

  Definition reprs_of (srec : pyval -> res pyval) :=
    fix reprs (l : list pyval) {struct l} : res (list pystr) :=
      match l with
      | [] => Ok []
      | x :: t => y <- py_repr O srec x ;; ys <- reprs t ;; Ok (y :: ys)
      end.

  Definition dict_reprs_of (srec : pyval -> res pyval) :=
    fix go (l : list (pyval * pyval)) : res (list pystr) :=
      match l with
      | [] => Ok []
      | (a, b) :: t => k <- py_repr O srec a ;; x <- py_repr O srec b ;; r <- go t ;; Ok ((k ++ s2p ": " ++ x) :: r)
      end.

  Lemma py_repr_list srec l :
    py_repr O srec (PList l) = (xs <- reprs_of srec l ;; Ok (s2p "[" ++ str_join comma xs ++ s2p "]")).
  Proof. reflexivity. Qed.
  Lemma py_repr_tuple srec l :
    py_repr O srec (PTuple l) =
    (xs <- reprs_of srec l ;;
     Ok (s2p "(" ++ str_join comma xs ++ (if Nat.eqb (length l) 1 then s2p "," else []) ++ s2p ")")).
  Proof. reflexivity. Qed.
  Lemma py_repr_deque srec l :
    py_repr O srec (PDeque l) = (xs <- reprs_of srec l ;; Ok (s2p "deque([" ++ str_join comma xs ++ s2p "])")).
  Proof. reflexivity. Qed.
  Lemma py_repr_set srec l :
    py_repr O srec (PSet false l) =
    (xs <- reprs_of srec l ;;
     Ok (if Nat.eqb (length l) 0 then s2p "set()" else s2p "{" ++ str_join comma xs ++ s2p "}")).
  Proof. reflexivity. Qed.
  Lemma py_repr_frozenset srec l :
    py_repr O srec (PSet true l) =
    (xs <- reprs_of srec l ;;
     Ok (if Nat.eqb (length l) 0 then s2p "frozenset()" else s2p "frozenset({" ++ str_join comma xs ++ s2p "})")).
  Proof. reflexivity. Qed.
  Lemma py_repr_dict srec kv :
    py_repr O srec (PDict kv) = (xs <- dict_reprs_of srec kv ;; Ok (s2p "{" ++ str_join comma xs ++ s2p "}")).
  Proof. reflexivity. Qed.

  Lemma reprs_ok srec l : Forall (fun x => py_repr O srec x = Ok (vst x)) l -> reprs_of srec l = Ok (map vst l).
  Proof.
    induction 1 as [|x l Hx Hl IH]; [reflexivity|]. cbn [reprs_of map]. rewrite Hx. cbn [bind].
    fold (reprs_of srec). rewrite IH. reflexivity.
  Qed.

  Lemma dict_reprs_ok srec kv :
    Forall (fun p => py_repr O srec (fst p) = Ok (vst (fst p)) /\ py_repr O srec (snd p) = Ok (vst (snd p))) kv ->
    dict_reprs_of srec kv = Ok (map (fun p => vst (fst p) ++ s2p ": " ++ vst (snd p)) kv).
  Proof.
    induction 1 as [|[a b] l [Ha Hb] Hl IH]; [reflexivity|]. cbn [dict_reprs_of map fst snd] in *.
    rewrite Ha, Hb. cbn [bind]. fold (dict_reprs_of srec). rewrite IH. reflexivity.
  Qed.

  Lemma str_join_eq sep l : str_join sep l = join sep l.
  Proof. induction l as [|x l IH]; [reflexivity|]. cbn [str_join join]. rewrite IH. reflexivity. Qed.

  Lemma num_repr_eq n : so_num_repr O n = num_repr ns n.
  Proof. destruct n; reflexivity. Qed.


  Lemma mapM_ok2 {A B} (g : A -> res B) l ys : Forall2 (fun x y => g x = Ok y) l ys -> mapM g l = Ok ys.
  Proof.
    induction 1 as [|x y l ys Hx Hl IH]; [reflexivity|]. cbn [mapM]. rewrite Hx. cbn [bind]. rewrite IH. reflexivity.
  Qed.

  Lemma Forall2_map {A B C} (R : B -> C -> Prop) (f : A -> B) (g : A -> C) l :
    Forall (fun x => R (f x) (g x)) l -> Forall2 R (map f l) (map g l).
  Proof. induction 1; cbn [map]; constructor; assumption. Qed.

  Lemma reprs_ok2 srec l ss : Forall2 (fun x s => py_repr O srec x = Ok s) l ss -> reprs_of srec l = Ok ss.
  Proof.
    induction 1 as [|x s l ss Hx Hl IH]; [reflexivity|]. cbn [reprs_of]. rewrite Hx. cbn [bind].
    fold (reprs_of srec). rewrite IH. reflexivity.
  Qed.

  Lemma dict_reprs_ok2 srec kv ss :
    Forall2 (fun p s => exists a b, py_repr O srec (fst p) = Ok a /\ py_repr O srec (snd p) = Ok b /\ s = a ++ s2p ": " ++ b) kv ss ->
    dict_reprs_of srec kv = Ok ss.
  Proof.
    induction 1 as [|[k x] s l ss [a [b [Ha [Hb ->]]]] Hl IH]; [reflexivity|]. cbn [dict_reprs_of fst snd] in *.
    rewrite Ha, Hb. cbn [bind]. fold (dict_reprs_of srec). rewrite IH. reflexivity.
  Qed.

  (* ---------------------------------------------------------------- the values __str__ is predicted on *)

  (* at every depth: an instance of a Structure class has distinct, public attribute names and a class name that
     Structure.__str__ prints as it is (it prints a class `StructureReference_...` whose only base is Structure
     as "Structure": the hand-written model does not) *)
  Fixpoint str_ok (v : pyval) : bool :=
    match v with
    | PList l | PTuple l | PDeque l | PSet _ l => forallb str_ok l
    | PDict kv => forallb (fun p => str_ok (fst p) && str_ok (snd p)) kv
    | PStruct cn attrs =>
        plain_name cn && nodup_by pystr_eqb (map fst attrs) &&
        forallb (fun p => negb (is_internal (fst p)) && str_ok (snd p)) attrs
    | _ => true
    end.

  Notation TS := (Src_to_str_fuel W).
  Notation SS := (Src_Structure_str_fuel W).
  Notation LS := (Src_list_to_str_fuel W).
  Notation DS := (Src_dict_to_str_fuel W).

  Lemma LS_ok f v l ss :
    py_iter_obs v = Ok l -> Forall2 (fun x s => TS f x = Ok (PStr s)) l ss ->
    LS (S f) v = Ok (PStr (join (s2p ",") ss)).
  Proof.
    intros I F. cbn [Src_list_to_str_fuel]. rewrite I. cbn [bind].
    rewrite (mapM_ok2 _ l (map PStr ss)).
    2:{ clear I. induction F as [|x s l ss Hx Hl IH]; cbn [map]; constructor; [rewrite Hx; reflexivity | exact IH]. }
    cbn [bind]. rewrite join_strs. reflexivity.
  Qed.

  Lemma DS_ok f kv ss :
    Forall2 (fun p s => exists a b, TS f (fst p) = Ok (PStr a) /\ TS f (snd p) = Ok (PStr b) /\ s = a ++ s2p " = " ++ b) kv ss ->
    DS (S f) (PDict kv) = Ok (PStr (join (s2p ",") ss)).
  Proof.
    intro F. cbn [Src_dict_to_str_fuel py_dict_items bind].
    rewrite (mapM_ok2 _ _ (map PStr ss)).
    2:{ induction F as [|[k x] s l ss [a [b [Ha [Hb ->]]]] Hl IH]; cbn [map]; constructor; [|exact IH].
        cbn [fst snd py_unpack py_iter_items bind length Nat.eqb] in *. rewrite Ha, Hb. reflexivity. }
    cbn [bind]. rewrite join_strs. reflexivity.
  Qed.

  Lemma attrs_height_app_l k x (l m : list (pystr * pyval)) : In (k, x) l -> (height x <= attrs_height (l ++ m))%nat.
  Proof. intro H. apply (attrs_height_in k). apply in_or_app. left. exact H. Qed.

  (* the instances __str__ is predicted on: the class name is printed as it is, __dict__ is a dict of public names,
     the attribute values are [str_ok] *)
  Definition inst_str_ok (x : inst) : bool :=
    plain_name (i_cls x) && keys_ok x && forallb (fun p => str_ok (snd p)) (i_attrs x).

  Section Nested.
    (* The internal entries that the __dict__ of a NESTED instance carries besides its public attributes (typedpy:
       `_none_fields` and `_instantiated`).  [lift v] is the Python-level value of the model value v: at every depth
       an instance [PStruct cls attrs] of the value universe (public attributes only) becomes the instance whose
       __dict__ is its (lifted) attributes followed by [ni]. *)
    Variable ni : list (pystr * pyval).

    Fixpoint lift (v : pyval) : pyval :=
      match v with
      | PList l => PList (map lift l)
      | PTuple l => PTuple (map lift l)
      | PDeque l => PDeque (map lift l)
      | PSet fr l => PSet fr (map lift l)
      | PDict kv => PDict (map (fun p => (lift (fst p), lift (snd p))) kv)
      | PStruct c attrs => PStruct c (map (fun p => (fst p, lift (snd p))) attrs ++ ni)
      | _ => v
      end.

    (* [ni] holds internal names only, each once, and no None-marked name (the value universe has no place for
       the None-marked names of a nested instance) *)
    Definition ni_ok : bool :=
      forallb (fun p => is_internal (fst p)) ni && nodup_by pystr_eqb (map fst ni) &&
      match alist_get ni n_none_fields with
      | None => true
      | Some (PSet false []) => true
      | _ => false
      end.

    Definition lift_attrs (attrs : list (pystr * pyval)) : list (pystr * pyval) :=
      map (fun p => (fst p, lift (snd p))) attrs.

    Definition lift_pub (p : pystr * pyval) : pystr * pyval :=
      (fst p, if is_internal (fst p) then snd p else lift (snd p)).

    Lemma alist_get_lift_pub d k : is_internal k = true -> alist_get (map lift_pub d) k = alist_get d k.
    Proof.
      intro I. induction d as [|[k' v] d IH]; [reflexivity|]. cbn [map lift_pub fst snd alist_get].
      destruct (pystr_eqb k' k) eqn:E; [|exact IH]. apply pystr_eqb_spec in E. subst k'. rewrite I. reflexivity.
    Qed.

    (* one step of Structure.__str__ on an instance whose __dict__ is the public part [pub] (lifted) followed by
       internal entries [ints], given that the local to_str works on the public values *)
    Lemma SS_body cls pub ints nl f :
      heap_plain -> plain_name cls = true ->
      NoDup (map fst (pub ++ ints)) ->
      (forall p, In p pub -> is_internal (fst p) = false) ->
      (forall p, In p ints -> is_internal (fst p) = true) ->
      alist_get (pub ++ ints) n_none_fields = match nl with Some l => Some (nones_val l) | None => None end ->
      (forall p, In p pub -> Src_to_str_fuel W f (lift (snd p)) = Ok (PStr (vsf (snd p)))) ->
      Src_Structure_str_fuel W (S f) (PStruct cls (lift_attrs pub ++ ints)) =
      Ok (PStr (props_str cls (map (fun p => (fst p, attr_str ns sr ev (snd p))) pub)
                          (match nl with Some l => l | None => [] end))).
    Proof.
      intros HP PN ND Hpub Hint Hnones HTS.
      assert (D : lift_attrs pub ++ ints = map lift_pub (pub ++ ints)).
      { rewrite map_app. f_equal.
        - apply map_ext_in. intros p Hp. unfold lift_pub. rewrite (Hpub p Hp). reflexivity.
        - rewrite <- (map_id ints) at 1. apply map_ext_in. intros p Hp. unfold lift_pub. rewrite (Hint p Hp). destruct p; reflexivity. }
      rewrite D.
      assert (ND' : NoDup (map fst (map lift_pub (pub ++ ints)))) by (rewrite map_map; exact ND).
      destruct (HP cls) as [Hname [Hcn Hcf]].
      cbn [Src_Structure_str_fuel].
      cbn [inst_class PyOpsFields.fld_class_of bind]. rewrite !any_getattr_ref. fold h. rewrite Hname.
      cbn [bind py_str_startswith py_and]. unfold plain_name in PN. apply negb_true_iff in PN. rewrite PN.
      cbn [bind inst_dict]. rewrite dict_of_attrs_skeys, dict_items_skeys. cbn [bind].
      rewrite (py_sorted_entries _ ND'). cbn [bind py_iter_obs PyOpsFields.py_iter].
      rewrite (sort_map lift_pub (fun q => eq_refl)), map_map.
      erewrite (py_for_map_filter _ (fun p => entry (lift_pub p)) (fun p => negb (is_internal (fst p)))
                                  (fun p => fst p ++ s2p " = " ++ attr_str ns sr ev (snd p))).
      2:{ intros e acc' He. rewrite unpack_entry. cbn [bind lift_pub fst snd]. rewrite is_internal_in_dyn. cbn [py_not bind].
          destruct (is_internal (fst e)) eqn:NI; cbn [negb]; [reflexivity|].
          assert (Hin : In e pub).
          { apply (Permutation_in _ (sort_perm _ _)) in He. apply in_app_or in He. destruct He as [He|He]; [exact He|].
            rewrite (Hint e He) in NI. discriminate. }
          assert (T : (if py_isinstance (lift (snd e)) [K_str]
                       then f18 <- py_format_str (lift (snd e));; Ok (PStr (s2p "'" ++ f18 ++ s2p "'"))
                       else t19 <- Src_to_str_fuel W f (lift (snd e));; Ok t19) = Ok (PStr (attr_str ns sr ev (snd e)))).
          { rewrite (HTS e Hin). destruct (snd e); reflexivity. }
          rewrite T. reflexivity. }
      cbn [bind app].
      assert (GN : any_getattr_def (Src_Field_get W) h (PStruct cls (map lift_pub (pub ++ ints))) (s2p "_none_fields") (PList []) =
                   Ok (match nl with Some l => nones_val l | None => PList [] end)).
      { unfold any_getattr_def, any_getattr. unfold n_none_fields in *. rewrite Hcf.
        rewrite (alist_get_lift_pub _ (s2p "_none_fields") eq_refl), Hnones.
        destruct nl; [reflexivity|]. rewrite Hcn. reflexivity. }
      rewrite GN. cbn [bind].
      assert (IT : py_iter_obs (match nl with Some l => nones_val l | None => PList [] end) =
                   Ok (map PStr (match nl with Some l => l | None => [] end))).
      { destruct nl; reflexivity. }
      rewrite IT. cbn [bind]. rewrite py_sorted_strs. cbn [bind py_iter_obs PyOpsFields.py_iter].
      erewrite (py_for_map_filter _ PStr (fun _ => true) (fun k => k ++ s2p " = None")).
      2:{ intros e acc' He. reflexivity. }
      cbn [bind]. rewrite (filter_all (fun _ : pystr => true)); [|reflexivity].
      rewrite (filter_sorted_public pub ints ND Hpub Hint).
      rewrite <- (map_map (fun p : pystr * pyval => fst p ++ s2p " = " ++ attr_str ns sr ev (snd p)) PStr).
      rewrite <- (map_map (fun k : pystr => k ++ s2p " = None") PStr).
      rewrite <- map_app. rewrite join_strs. cbn [bind py_format_str py_format].
      unfold props_str.
      rewrite (sort_map (fun p : pystr * pyval => (fst p, attr_str ns sr ev (snd p))) (fun q => eq_refl)).
      rewrite map_map. reflexivity.
    Qed.

    Definition T1 (v : pyval) : Prop :=
      forall f, (2 * height (lift v) + 2 <= f)%nat -> TS f (lift v) = Ok (PStr (vsf v)).
    Definition T2 (v : pyval) : Prop :=
      forall f, (2 * height (lift v) + 1 <= f)%nat -> py_repr O (SS f) (lift v) = Ok (vst v).
    Definition T3 (v : pyval) : Prop :=
      forall c attrs, v = PStruct c attrs -> forall f, (2 * height (lift v) + 1 <= f)%nat -> SS f (lift v) = Ok (PStr (vsf v)).

    Lemma Forall_sub (Q : pyval -> Prop) (R : pyval -> Prop) l :
      Forall (fun x => str_ok x = true -> Q x) l -> forallb str_ok l = true -> (forall x, In x l -> Q x -> R x) -> Forall R l.
    Proof.
      intros F S H. rewrite Forall_forall in *. rewrite forallb_forall in S. intros x Hx. apply (H x Hx). apply F; [exact Hx | apply S; exact Hx].
    Qed.

    Lemma lift_height_in x l : In x l -> (height (lift x) <= PyOpsVersioned.list_height (map lift l))%nat.
    Proof. intro H. apply PyOpsVersioned.list_height_in. apply in_map. exact H. Qed.

    (* the elements of a lifted sequence: to_str / repr of each, given the induction hypothesis *)
    Lemma elems_T1 l f :
      Forall (fun x => str_ok x = true -> T1 x /\ T2 x /\ T3 x) l -> forallb str_ok l = true ->
      (2 * PyOpsVersioned.list_height (map lift l) + 2 <= f)%nat ->
      Forall2 (fun x s => TS f x = Ok (PStr s)) (map lift l) (map vsf l).
    Proof.
      intros H SO Hf. apply Forall2_map. apply (Forall_sub _ _ _ H SO). intros x Hx [Q _]. apply Q.
      pose proof (lift_height_in x l Hx). lia.
    Qed.

    Lemma elems_T2 l f :
      Forall (fun x => str_ok x = true -> T1 x /\ T2 x /\ T3 x) l -> forallb str_ok l = true ->
      (2 * PyOpsVersioned.list_height (map lift l) + 1 <= f)%nat ->
      Forall2 (fun x s => py_repr O (SS f) x = Ok s) (map lift l) (map vst l).
    Proof.
      intros H SO Hf. apply Forall2_map. apply (Forall_sub _ _ _ H SO). intros x Hx [_ [Q _]]. apply Q.
      pose proof (lift_height_in x l Hx). lia.
    Qed.

    Lemma T_all_nested : heap_plain -> ni_ok = true -> forall v, str_ok v = true -> T1 v /\ T2 v /\ T3 v.
    Proof.
      intros HP NI. induction v using pyval_ind'; intro SO.
      - (* None *) split; [|split]; [intros [|f] Hf; [lia | reflexivity] | intros f Hf; reflexivity | intros ? ? E; discriminate E].
      - (* bool *) split; [|split]; [intros [|f] Hf; [lia | destruct b; reflexivity] | intros f Hf; destruct b; reflexivity | intros ? ? E; discriminate E].
      - (* number *) split; [|split]; [intros [|f] Hf; [lia | reflexivity] | intros f Hf; cbn [lift py_repr vs]; rewrite num_repr_eq; reflexivity | intros ? ? E; discriminate E].
      - (* str *) split; [|split]; [intros [|f] Hf; [lia | reflexivity] | intros f Hf; reflexivity | intros ? ? E; discriminate E].
      - (* list *)
        cbn [str_ok] in SO. split; [|split]; [| |intros ? ? E; discriminate E].
        + intros f Hf. cbn [lift] in *. rewrite PyOpsVersioned.py_height_list in Hf. destruct f as [|[|f]]; try lia.
          cbn [Src_to_str_fuel py_isinstance existsb isinstance1 orb bind].
          rewrite (LS_ok f (PList (map lift l)) (map lift l) (map vsf l) eq_refl); [reflexivity|].
          apply (elems_T1 l f H SO). lia.
        + intros f Hf. cbn [lift] in *. rewrite PyOpsVersioned.py_height_list in Hf.
          rewrite py_repr_list, (reprs_ok2 _ (map lift l) (map vst l)).
          * cbn [bind vs sep]. rewrite str_join_eq. reflexivity.
          * apply (elems_T2 l f H SO). lia.
      - (* tuple *)
        cbn [str_ok] in SO. split; [|split]; [| |intros ? ? E; discriminate E].
        + intros f Hf. cbn [lift] in *. rewrite PyOpsVersioned.py_height_tuple in Hf. destruct f as [|[|f]]; try lia.
          cbn [Src_to_str_fuel py_isinstance existsb isinstance1 orb bind].
          rewrite (LS_ok f (PTuple (map lift l)) (map lift l) (map vsf l) eq_refl); [reflexivity|].
          apply (elems_T1 l f H SO). lia.
        + intros f Hf. cbn [lift] in *. rewrite PyOpsVersioned.py_height_tuple in Hf.
          rewrite py_repr_tuple, (reprs_ok2 _ (map lift l) (map vst l)).
          * cbn [bind vs sep andb]. rewrite str_join_eq, map_length. reflexivity.
          * apply (elems_T2 l f H SO). lia.
      - (* deque *)
        cbn [str_ok] in SO. split; [|split]; [| |intros ? ? E; discriminate E].
        + intros f Hf. cbn [lift] in *. rewrite height_deque in Hf. destruct f as [|f]; try lia.
          cbn [Src_to_str_fuel py_isinstance existsb isinstance1 orb bind]. unfold py_str, py_str_text. fold O.
          rewrite py_repr_deque, (reprs_ok2 _ (map lift l) (map vst l)).
          * cbn [bind vs]. rewrite str_join_eq. reflexivity.
          * apply (elems_T2 l f H SO). lia.
        + intros f Hf. cbn [lift] in *. rewrite height_deque in Hf.
          rewrite py_repr_deque, (reprs_ok2 _ (map lift l) (map vst l)).
          * cbn [bind vs]. rewrite str_join_eq. reflexivity.
          * apply (elems_T2 l f H SO). lia.
      - (* set / frozenset *)
        cbn [str_ok] in SO. split; [|split]; [| |intros ? ? E; discriminate E].
        + intros fu Hf. cbn [lift] in *. rewrite height_set in Hf. destruct f.
          * destruct fu as [|fu]; try lia.
            cbn [Src_to_str_fuel py_isinstance existsb isinstance1 orb bind]. unfold py_str, py_str_text. fold O.
            rewrite py_repr_frozenset, (reprs_ok2 _ (map lift l) (map vst l)).
            -- cbn [bind vs]. rewrite str_join_eq, map_length. reflexivity.
            -- apply (elems_T2 l fu H SO). lia.
          * destruct fu as [|[|fu]]; try lia.
            cbn [Src_to_str_fuel py_isinstance existsb isinstance1 orb bind].
            rewrite (LS_ok fu (PSet false (map lift l)) (map lift l) (map vsf l) eq_refl); [reflexivity|].
            apply (elems_T1 l fu H SO). lia.
        + intros fu Hf. cbn [lift] in *. rewrite height_set in Hf. destruct f.
          * rewrite py_repr_frozenset, (reprs_ok2 _ (map lift l) (map vst l)).
            -- cbn [bind vs]. rewrite str_join_eq, map_length. reflexivity.
            -- apply (elems_T2 l fu H SO). lia.
          * rewrite py_repr_set, (reprs_ok2 _ (map lift l) (map vst l)).
            -- cbn [bind vs sep andb]. rewrite str_join_eq, map_length. reflexivity.
            -- apply (elems_T2 l fu H SO). lia.
      - (* dict *)
        cbn [str_ok] in SO. rewrite forallb_forall in SO. rewrite Forall_forall in H.
        assert (HB : forall k x, In (k, x) kv ->
                     (height (lift k) <= PyOpsVersioned.dict_height (map (fun p => (lift (fst p), lift (snd p))) kv))%nat /\
                     (height (lift x) <= PyOpsVersioned.dict_height (map (fun p => (lift (fst p), lift (snd p))) kv))%nat).
        { intros k x Hp. apply (in_map (fun p => (lift (fst p), lift (snd p)))) in Hp. cbn [fst snd] in Hp.
          split; [apply (dict_height_in_k _ _ _ Hp) | apply (PyOpsVersioned.dict_height_in _ _ _ Hp)]. }
        split; [|split]; [| |intros ? ? E; discriminate E].
        + intros f Hf. cbn [lift] in *. rewrite PyOpsVersioned.py_height_dict in Hf. destruct f as [|[|f]]; try lia.
          cbn [Src_to_str_fuel py_isinstance existsb isinstance1 orb bind].
          rewrite (DS_ok f _ (map (fun p => vsf (fst p) ++ s2p " = " ++ vsf (snd p)) kv)); [reflexivity|].
          apply Forall2_map. apply Forall_forall. intros [k x] Hp. specialize (SO _ Hp). apply andb_true_iff in SO. destruct SO as [S1 S2].
          destruct (H _ Hp) as [Hk Hx]. destruct (HB k x Hp) as [B1 B2]. cbn [fst snd] in *.
          exists (vsf k), (vsf x). split; [apply (proj1 (Hk S1)); lia|]. split; [apply (proj1 (Hx S2)); lia | reflexivity].
        + intros f Hf. cbn [lift] in *. rewrite PyOpsVersioned.py_height_dict in Hf.
          rewrite py_repr_dict, (dict_reprs_ok2 _ _ (map (fun p => vst (fst p) ++ s2p ": " ++ vst (snd p)) kv)).
          * cbn [bind vs sep]. rewrite str_join_eq. reflexivity.
          * apply Forall2_map. apply Forall_forall. intros [k x] Hp. specialize (SO _ Hp). apply andb_true_iff in SO. destruct SO as [S1 S2].
            destruct (H _ Hp) as [Hk Hx]. destruct (HB k x Hp) as [B1 B2]. cbn [fst snd] in *.
            exists (vst k), (vst x). split; [apply (proj1 (proj2 (Hk S1))); lia|]. split; [apply (proj1 (proj2 (Hx S2))); lia | reflexivity].
      - (* enum member *)
        split; [|split]; [intros [|f] Hf; [lia | reflexivity] | intros f Hf; reflexivity | intros ? ? E; discriminate E].
      - (* an instance of a Structure class *)
        cbn [str_ok] in SO. apply andb_true_iff in SO. destruct SO as [SO S3]. apply andb_true_iff in SO. destruct SO as [S1 S2].
        rewrite forallb_forall in S3. rewrite Forall_forall in H.
        unfold ni_ok in NI. apply andb_true_iff in NI. destruct NI as [NI N3]. apply andb_true_iff in NI. destruct NI as [N1 N2].
        rewrite forallb_forall in N1.
        assert (Hpub : forall p, In p attrs -> is_internal (fst p) = false).
        { intros p Hp. specialize (S3 p Hp). apply andb_true_iff in S3. apply negb_true_iff. exact (proj1 S3). }
        assert (R3 : forall f, (2 * height (lift (PStruct c attrs)) + 1 <= f)%nat ->
                               SS f (lift (PStruct c attrs)) = Ok (PStr (vsf (PStruct c attrs)))).
        { intros f Hf. cbn [lift] in *. fold (lift_attrs attrs) in *. rewrite height_struct in Hf. destruct f as [|f]; try lia.
          rewrite (SS_body c attrs ni (match alist_get ni n_none_fields with Some _ => Some [] | None => None end) f HP S1).
          - destruct (alist_get ni n_none_fields); reflexivity.
          - rewrite map_app. apply NoDup_app_disj; [apply nodup_by_NoDup; exact S2 | apply nodup_by_NoDup; exact N2|].
            intros k Hk Hk'. apply in_map_iff in Hk. destruct Hk as [p [<- Hp]]. apply in_map_iff in Hk'. destruct Hk' as [q [E Hq]].
            pose proof (Hpub p Hp) as P1. pose proof (N1 q Hq) as P2. rewrite E in P2. congruence.
          - exact Hpub.
          - exact N1.
          - rewrite alist_get_app. rewrite (alist_get_notin attrs n_none_fields).
            + destruct (alist_get ni n_none_fields) as [[| | | | | | |[|] [|]| | | |]|]; try discriminate N3; reflexivity.
            + intro Hin. apply in_map_iff in Hin. destruct Hin as [p [E Hp]]. pose proof (Hpub p Hp) as P1. rewrite E in P1. discriminate P1.
          - intros [k x] Hp. pose proof (S3 _ Hp) as S3p. apply andb_true_iff in S3p. cbn [snd fst] in *.
            destruct (H _ Hp (proj2 S3p)) as [Q _]. cbn [snd] in Q. apply Q.
            assert (In (k, lift x) (lift_attrs attrs)) by (apply (in_map (fun p => (fst p, lift (snd p))) attrs (k, x)); exact Hp).
            pose proof (attrs_height_app_l k (lift x) (lift_attrs attrs) ni H0). lia. }
        split; [|split].
        + intros f Hf. destruct f as [|f]; try lia.
          assert (R : SS f (lift (PStruct c attrs)) = Ok (PStr (vsf (PStruct c attrs)))) by (apply R3; lia).
          cbn [lift] in *.
          cbn [Src_to_str_fuel py_isinstance existsb isinstance1 orb bind]. unfold py_str, py_str_text. cbn [py_repr]. unfold struct_text. fold O.
          rewrite R. reflexivity.
        + intros f Hf. pose proof (R3 f Hf) as R. cbn [lift] in *. cbn [py_repr]. unfold struct_text. rewrite R. reflexivity.
        + intros c' attrs' _ f Hf. apply R3. exact Hf.
      - (* another object *)
        split; [|split]; [intros [|f] Hf; [lia | reflexivity] | intros f Hf; reflexivity | intros ? ? E; discriminate E].
    Qed.

    (* the Python-level instance whose attribute values are lifted *)
    Definition inst_obj_nested (x : inst) (t : option pyval) : pyval :=
      PStruct (i_cls x) (lift_attrs (i_attrs x) ++ internals x t).

    Theorem Src_str_is_inst_str_nested x t :
      heap_plain -> ni_ok = true -> inst_str_ok x = true ->
      Src_Structure_str W (inst_obj_nested x t) = Ok (PStr (inst_str ns sr ev x)).
    Proof.
      intros HP NI SO. unfold inst_str_ok in SO. apply andb_true_iff in SO. destruct SO as [SO S3].
      apply andb_true_iff in SO. destruct SO as [S1 S2].
      unfold Src_Structure_str, inst_obj_nested. cbn [PyOpsVersioned.heights fold_right].
      rewrite height_struct.
      replace (4 * S (S (attrs_height (lift_attrs (i_attrs x) ++ internals x t)) + 0))%nat
        with (S (7 + 4 * attrs_height (lift_attrs (i_attrs x) ++ internals x t)))%nat by lia.
      rewrite (SS_body (i_cls x) (i_attrs x) (internals x t) (i_nones x) _ HP S1).
      - reflexivity.
      - apply (dict_keys_nodup x t S2).
      - unfold keys_ok in S2. apply andb_true_iff in S2. destruct S2 as [_ PA]. unfold public_attrs in PA.
        rewrite forallb_forall in PA. intros p Hp. apply negb_true_iff. apply PA. exact Hp.
      - apply internals_internal.
      - unfold keys_ok in S2. apply andb_true_iff in S2. apply (dict_get_nones x t (proj2 S2)).
      - intros [k v] Hp. rewrite forallb_forall in S3. pose proof (S3 _ Hp) as Sv. cbn [snd] in *.
        apply (proj1 (T_all_nested HP NI v Sv)).
        assert (In (k, lift v) (lift_attrs (i_attrs x))) by (apply (in_map (fun p => (fst p, lift (snd p))) _ (k, v)); exact Hp).
        pose proof (attrs_height_app_l k (lift v) _ (internals x t) H). lia.
    Qed.
  End Nested.

  (* with no extra entries the Python-level value is the model value itself *)
  Lemma map_id_Forall {A} (g : A -> A) l : Forall (fun x => g x = x) l -> map g l = l.
  Proof. induction 1 as [|x l Hx Hl IH]; [reflexivity|]. cbn [map]. rewrite Hx, IH. reflexivity. Qed.

  Lemma lift_nil v : lift [] v = v.
  Proof.
    induction v using pyval_ind'; cbn [lift]; try reflexivity.
    - f_equal. apply map_id_Forall. exact H.
    - f_equal. apply map_id_Forall. exact H.
    - f_equal. apply map_id_Forall. exact H.
    - f_equal. apply map_id_Forall. exact H.
    - f_equal. apply map_id_Forall. apply (Forall_impl _ (P := fun p => lift [] (fst p) = fst p /\ lift [] (snd p) = snd p)); [|exact H].
      intros [k x] [E1 E2]. cbn [fst snd] in *. rewrite E1, E2. reflexivity.
    - f_equal. rewrite app_nil_r. apply map_id_Forall. apply (Forall_impl _ (P := fun p => lift [] (snd p) = snd p)); [|exact H].
      intros [k x] E. cbn [fst snd] in *. rewrite E. reflexivity.
  Qed.

  Lemma lift_attrs_nil attrs : lift_attrs [] attrs = attrs.
  Proof.
    unfold lift_attrs. apply map_id_Forall. apply Forall_forall. intros [k x] _. cbn [fst snd]. rewrite lift_nil. reflexivity.
  Qed.

  (* the local to_str of Structure.__str__ IS [vs false] *)
  Lemma T_all : heap_plain -> forall v, str_ok v = true ->
    forall f, (2 * height v + 2 <= f)%nat -> Src_to_str_fuel W f v = Ok (PStr (vsf v)).
  Proof.
    intros HP v SO f Hf. pose proof (proj1 (T_all_nested [] HP eq_refl v SO)) as Q. unfold T1 in Q.
    rewrite lift_nil in Q. apply Q. exact Hf.
  Qed.

  Theorem Src_str_is_inst_str x t :
    heap_plain -> inst_str_ok x = true ->
    Src_Structure_str W (inst_obj x t) = Ok (PStr (inst_str ns sr ev x)).
  Proof.
    intros HP SO. pose proof (Src_str_is_inst_str_nested [] x t HP eq_refl SO) as Q.
    unfold inst_obj_nested in Q. rewrite lift_attrs_nil in Q. exact Q.
  Qed.

  (* ---------------------------------------------------------------- Structure.__repr__, __hash__ *)

  Theorem Src_repr_is_inst_str x t :
    heap_plain -> inst_str_ok x = true ->
    Src_Structure_repr W (inst_obj x t) = Ok (PStr (inst_str ns sr ev x)).
  Proof. intros HP SO. unfold Src_Structure_repr. rewrite (Src_str_is_inst_str x t HP SO). reflexivity. Qed.

  Theorem Src_hash_is_inst_hash x t :
    heap_plain -> inst_str_ok x = true ->
    Src_Structure_hash W (inst_obj x t) = Ok (zint (inst_hash ns sr ev (so_str_hash O) x)).
  Proof.
    intros HP SO. pose proof (Src_str_is_inst_str x t HP SO) as E.
    unfold Src_Structure_hash, py_str, py_str_text. unfold inst_obj in *. cbn [py_repr]. unfold struct_text.
    rewrite E. reflexivity.
  Qed.

  Theorem Src_hash_is_inst_hash_nested ni x t :
    heap_plain -> ni_ok ni = true -> inst_str_ok x = true ->
    Src_Structure_hash W (inst_obj_nested ni x t) = Ok (zint (inst_hash ns sr ev (so_str_hash O) x)).
  Proof.
    intros HP NI SO. pose proof (Src_str_is_inst_str_nested ni x t HP NI SO) as E.
    unfold Src_Structure_hash, py_str, py_str_text. unfold inst_obj_nested in *. cbn [py_repr]. unfold struct_text.
    rewrite E. reflexivity.
  Qed.

  (* ---------------------------------------------------------------- _get_all_fields_by_name *)

  Definition n_mro : pystr := s2p "mro()".
  Definition n_fields : pystr := s2p "_fields".
  Definition n_StructMeta : pystr := s2p "StructMeta".

  (* a class of the MRO that contributes no field: not a Structure class, or one whose own `_fields` is empty *)
  Definition no_fields (b : pystr) : Prop :=
    class_says h b n_StructMeta = false \/ h b n_fields = None \/ h b n_fields = Some (PList []).

  (* the class `cls` as _get_all_fields_by_name walks it: cls.mro() is cls followed by classes that contribute no
     field; cls is a Structure class whose `_fields` lists the field names of c, each bound to its Field object *)
  Record mro_view (c : classdef) (cls : pystr) (bases : list pystr) : Prop := {
    mv_mro : h cls n_mro = Some (PList (ref cls :: map ref bases));
    mv_meta : class_says h cls n_StructMeta = true;
    mv_fields : h cls n_fields = Some (PList (map (fun fd => PStr (fd_name fd)) (c_fields c)));
    mv_attr : forall n, is_field c n = true -> h cls n = Some (fld_ref n);
    mv_bases : forall b, In b bases -> no_fields b }.

  Definition fields_nodup (c : classdef) : bool := nodup_by pystr_eqb (map fd_name (c_fields c)).

  Lemma val_isinstance_ref n k : val_isinstance h (ref n) k = Ok (class_says h n k).
  Proof. unfold val_isinstance, ref, obj_isinstance. rewrite ref_tag_refl. reflexivity. Qed.

  Lemma comp_refs k l :
    PyOpsVersioned.comp_list (fun x => val_isinstance h x k) (fun x => Ok x) (map ref l) =
    Ok (map ref (filter (fun n => class_says h n k) l)).
  Proof.
    induction l as [|n l IH]; [reflexivity|]. cbn [map PyOpsVersioned.comp_list filter].
    rewrite val_isinstance_ref. cbn [bind]. rewrite IH. destruct (class_says h n k); reflexivity.
  Qed.

  Lemma py_for_app {St} (f : St -> pyval -> res (ctl St)) l1 l2 s :
    py_for f (l1 ++ l2) s =
    (r <- py_for f l1 s ;; match r with Next s' => py_for f l2 s' | Return v => Ok (Return v) end).
  Proof.
    revert s. induction l1 as [|x l1 IH]; intro s; [reflexivity|]. cbn [app py_for].
    destruct (f s x) as [[s'|v]|e]; cbn [bind]; [apply IH | reflexivity | reflexivity].
  Qed.

  Lemma fold_dict_set_skeys la lb :
    fold_left (fun acc p => dict_set acc (fst p) (snd p)) (skeys lb) (skeys la) =
    skeys (fold_left (fun a p => alist_set a (fst p) (snd p)) lb la).
  Proof.
    revert la. induction lb as [|[k v] lb IH]; intro la; [reflexivity|].
    cbn [skeys map fold_left fst snd]. fold (skeys lb). rewrite dict_set_skeys. apply IH.
  Qed.

  Lemma dict_build_skeys la lb :
    PyOpsFields.dict_build (skeys la) (skeys lb) = Ok (skeys (fold_left (fun a p => alist_set a (fst p) (snd p)) lb la)).
  Proof.
    revert la. induction lb as [|[k v] lb IH]; intro la; [reflexivity|].
    cbn [skeys map PyOpsFields.dict_build fst snd py_hashable' fold_left]. fold (skeys lb). rewrite dict_set_skeys. apply IH.
  Qed.

  Lemma py_dict_of_skeys l : NoDup (map fst l) -> py_dict_of (skeys l) = Ok (PDict (skeys l)).
  Proof.
    intro ND. unfold py_dict_of, PyOpsFields.py_dict_of. change (@nil (pyval * pyval)) with (skeys []).
    rewrite dict_build_skeys, fold_alist_set_fresh; [reflexivity | exact ND].
  Qed.

  Lemma is_field_in c fd : In fd (c_fields c) -> is_field c (fd_name fd) = true.
  Proof.
    unfold is_field. induction (c_fields c) as [|d l IH]; intro H; [destruct H|].
    cbn [find_field]. destruct (pystr_eqb (fd_name d) (fd_name fd)) eqn:E; [reflexivity|].
    destruct H as [->|H]; [rewrite pystr_eqb_refl in E; discriminate | apply IH; exact H].
  Qed.

  Definition fields_alist (c : classdef) : list (pystr * pyval) :=
    map (fun fd => (fd_name fd, fld_ref (fd_name fd))) (c_fields c).

  Lemma field_by_name_skeys c : field_by_name c = PDict (skeys (fields_alist c)).
  Proof. unfold field_by_name, fields_alist, skeys. rewrite map_map. reflexivity. Qed.

  Lemma fields_alist_keys c : map fst (fields_alist c) = map fd_name (c_fields c).
  Proof. unfold fields_alist. rewrite map_map. reflexivity. Qed.

  Theorem Src_get_all_fields_is_fields c cls bases :
    mro_view c cls bases -> fields_nodup c = true ->
    Src_get_all_fields_by_name W (ref cls) = Ok (field_by_name c).
  Proof.
    intros V FN. unfold Src_get_all_fields_by_name. rewrite any_getattr_ref. fold h.
    pose proof (mv_mro _ _ _ V) as M. unfold n_mro in M. rewrite M. cbn [bind py_iter_obs PyOpsFields.py_iter].
    change (ref cls :: map ref bases) with (map ref (cls :: bases)). rewrite comp_refs. cbn [bind py_reversed].
    cbn [filter]. pose proof (mv_meta _ _ _ V) as MM. unfold n_StructMeta in MM. rewrite MM.
    cbn [map rev py_iter_obs PyOpsFields.py_iter bind]. rewrite py_for_app.
    (* the classes after cls in the MRO leave the accumulator as it is *)
    match goal with |- context [py_for ?step (rev ?l0) ?s] => assert (L : py_for step (rev l0) s = Ok (Next (PDict []))) end.
    { rewrite <- map_rev.
      assert (B : forall b, In b (rev (filter (fun n => class_says h n (s2p "StructMeta")) bases)) ->
                  class_says h b (s2p "StructMeta") = true /\ (h b n_fields = None \/ h b n_fields = Some (PList []))).
      { intros b Hb. apply in_rev in Hb. apply filter_In in Hb. destruct Hb as [Hb Hm]. split; [exact Hm|].
        destruct (mv_bases _ _ _ V b Hb) as [N|N]; [unfold n_StructMeta in N; congruence | exact N]. }
      induction (rev (filter (fun n => class_says h n (s2p "StructMeta")) bases)) as [|b bs IH]; [reflexivity|].
      cbn [map py_for]. rewrite val_isinstance_ref. destruct (B b (or_introl eq_refl)) as [Bm Bf]. rewrite Bm. cbn [bind].
      rewrite any_getattr_def_ref.
      assert (match h b (s2p "_fields") with Some v => v | None => PList [] end = PList []) as ->.
      { unfold n_fields in Bf. destruct Bf as [-> | ->]; reflexivity. }
      cbn [bind py_iter_obs PyOpsFields.py_iter mapM py_dict_of PyOpsFields.py_dict_of PyOpsFields.dict_build py_dict_update fold_left].
      apply IH. intros b' Hb'. apply B. right. exact Hb'. }
    rewrite L. cbn [bind py_for]. rewrite val_isinstance_ref, MM. cbn [bind]. rewrite any_getattr_def_ref.
    pose proof (mv_fields _ _ _ V) as MF. unfold n_fields in MF. rewrite MF. cbn [bind py_iter_obs PyOpsFields.py_iter].
    rewrite (mapM_ok _ (fun v => match v with PStr n => (PStr n, fld_ref n) | _ => (v, v) end)).
    2:{ apply Forall_forall. intros v Hv. apply in_map_iff in Hv. destruct Hv as [fd [<- Hfd]].
        unfold any_getattr_dyn. rewrite any_getattr_ref. fold h. rewrite (mv_attr _ _ _ V _ (is_field_in c fd Hfd)). reflexivity. }
    cbn [bind]. rewrite map_map.
    change (map (fun x => (PStr (fd_name x), fld_ref (fd_name x))) (c_fields c)) with
        (map (fun fd => (PStr (fd_name fd), fld_ref (fd_name fd))) (c_fields c)).
    assert (E : map (fun fd => (PStr (fd_name fd), fld_ref (fd_name fd))) (c_fields c) = skeys (fields_alist c)).
    { unfold skeys, fields_alist. rewrite map_map. reflexivity. }
    rewrite E.
    assert (ND : NoDup (map fst (fields_alist c))).
    { rewrite fields_alist_keys. apply nodup_by_NoDup. exact FN. }
    rewrite (py_dict_of_skeys _ ND). cbn [bind py_dict_update]. change (@nil (pyval * pyval)) with (skeys []).
    rewrite fold_dict_set_skeys, fold_alist_set_fresh; [|exact ND]. cbn [bind app].
    rewrite field_by_name_skeys. reflexivity.
  Qed.

  (* ---------------------------------------------------------------- Structure.__getstate__ *)

  (* the state __getstate__ returns: the declared fields that are in __dict__, in the order of the class *)
  Definition state_of (c : classdef) (x : inst) : list (pystr * pyval) :=
    map (fun fd => (fd_name fd, getf c false x (fd_name fd)))
        (filter (fun fd => alist_has (i_attrs x) (fd_name fd)) (c_fields c)).

  (* ... followed by the `_none_fields` set (an empty one when the instance has none) *)
  Definition nones_state (x : inst) : pyval := nones_val (nones_list x).
  Definition full_state (c : classdef) (x : inst) : list (pystr * pyval) :=
    state_of c x ++ [(n_none_fields, nones_state x)].

  Lemma state_of_keys_fields c x k : In k (map fst (state_of c x)) -> is_field c k = true.
  Proof.
    unfold state_of. rewrite map_map. cbn [fst]. intro H. apply in_map_iff in H. destruct H as [fd [<- Hf]].
    apply filter_In in Hf. apply is_field_in. exact (proj1 Hf).
  Qed.

  Lemma state_of_no_internal c x k : c_ok c = true -> is_internal k = true -> ~ In k (map fst (state_of c x)).
  Proof.
    intros CO I H. apply state_of_keys_fields in H. rewrite (field_not_internal c k CO H) in I. discriminate.
  Qed.

  Lemma state_of_nodup c x : fields_nodup c = true -> NoDup (map fst (state_of c x)).
  Proof.
    intro FN. unfold state_of. rewrite map_map. cbn [fst].
    assert (ND : NoDup (map fd_name (c_fields c))) by (apply nodup_by_NoDup; exact FN).
    clear -ND. induction (c_fields c) as [|fd l IH]; [constructor|]. cbn [filter map] in *. inversion ND as [|? ? Hn ND']; subst.
    destruct (alist_has (i_attrs x) (fd_name fd)); [|apply IH; exact ND'].
    cbn [map]. constructor; [|apply IH; exact ND'].
    intro Hin. apply Hn. apply in_map_iff in Hin. destruct Hin as [fd' [E Hf]]. apply filter_In in Hf.
    rewrite <- E. apply in_map. exact (proj1 Hf).
  Qed.

  Lemma full_state_nodup c x : c_ok c = true -> fields_nodup c = true -> NoDup (map fst (full_state c x)).
  Proof.
    intros CO FN. unfold full_state. rewrite map_app. apply NoDup_app_disj.
    - apply state_of_nodup. exact FN.
    - cbn [map fst]. constructor; [intros [] | constructor].
    - intros k Hk [<-|[]]. exact (state_of_no_internal c x n_none_fields CO eq_refl Hk).
  Qed.

  Lemma comp_list_ok {A B} (cnd : A -> res bool) (g : A -> res B) (p : A -> bool) (k : A -> B) l :
    (forall x, In x l -> cnd x = Ok (p x)) -> (forall x, In x l -> p x = true -> g x = Ok (k x)) ->
    PyOpsVersioned.comp_list cnd g l = Ok (map k (filter p l)).
  Proof.
    induction l as [|x l IH]; intros H1 H2; [reflexivity|].
    cbn [PyOpsVersioned.comp_list filter]. rewrite (H1 x (or_introl eq_refl)). cbn [bind].
    rewrite IH; [|intros y Hy; apply H1; right; exact Hy | intros y Hy; apply H2; right; exact Hy].
    destruct (p x) eqn:E; [|reflexivity]. rewrite (H2 x (or_introl eq_refl) E). reflexivity.
  Qed.

  Lemma filter_map_comm {A B} (g : A -> B) (p : B -> bool) l : filter p (map g l) = map g (filter (fun x => p (g x)) l).
  Proof. induction l as [|x l IH]; [reflexivity|]. cbn [map filter]. rewrite IH. destruct (p (g x)); reflexivity. Qed.

  (* given what _get_all_fields_by_name yields for the class *)
  Lemma Src_getstate_of_fields c undef x t :
    Src_get_all_fields_by_name W (ref (i_cls x)) = Ok (field_by_name c) ->
    class_view h c undef (i_cls x) ->
    c_ok c = true -> fields_nodup c = true -> public_attrs x = true ->
    (forall n v, is_field c n = true ->
                 w_mcall W (fld_ref n) (s2p "__serialize__") [v] = Src_Field_serialize W (fld_ref n) v) ->
    Src_Structure_getstate W (inst_obj x t) = Ok (PDict (skeys (full_state c x))).
  Proof.
    intros GA V CO FN PA SER. unfold Src_Structure_getstate. unfold inst_obj at 1.
    cbn [inst_class PyOpsFields.fld_class_of bind]. rewrite GA. cbn [bind].
    rewrite field_by_name_skeys, dict_items_skeys. cbn [bind].
    rewrite (comp_list_ok _ _ (fun e => match e with PTuple [PStr n; _] => alist_has (i_attrs x) n | _ => false end)
                          (fun e => match e with PTuple [PStr n; _] => (PStr n, getf c false x n) | _ => (e, e) end)).
    2:{ intros e He. apply in_map_iff in He. destruct He as [[n fr] [<- Hp]]. rewrite unpack_entry. cbn [bind fst snd entry].
        unfold inst_obj. cbn [inst_dict bind py_in_dyn dict_of_attrs py_hashable']. fold (skeys (inst_dict_of x t)).
        rewrite dict_has_skeys. unfold alist_has. 
        assert (F : is_field c n = true).
        { unfold fields_alist in Hp. apply in_map_iff in Hp. destruct Hp as [fd [E Hfd]]. inversion E; subst. apply is_field_in. exact Hfd. }
        rewrite (dict_get_public x t n (field_not_internal c n CO F)). reflexivity. }
    2:{ intros e He Hk. apply in_map_iff in He. destruct He as [[n fr] [<- Hp]]. rewrite unpack_entry. cbn [bind fst snd entry] in *.
        assert (F : is_field c n = true /\ fr = fld_ref n).
        { unfold fields_alist in Hp. apply in_map_iff in Hp. destruct Hp as [fd [E Hfd]]. inversion E; subst. split; [apply is_field_in; exact Hfd | reflexivity]. }
        destruct F as [F ->].
        pose proof (getattr_field c undef x t n V CO PA F) as G. unfold any_getattr_dyn in G.
        unfold any_getattr_dyn_def, any_getattr_def. unfold inst_obj in G |- *. fold h. rewrite G.
        assert (GE : getf c undef x n = getf c false x n).
        { unfold getf. unfold alist_has in Hk. destruct (alist_get (i_attrs x) n); [reflexivity | discriminate]. }
        rewrite GE. destruct (getf c false x n); cbn [bind]; rewrite (SER n _ F); reflexivity. }
    cbn [bind].
    assert (E : map (fun e => match e with PTuple [PStr n; _] => (PStr n, getf c false x n) | _ => (e, e) end)
                    (filter (fun e => match e with PTuple [PStr n; _] => alist_has (i_attrs x) n | _ => false end)
                            (map entry (fields_alist c))) = skeys (state_of c x)).
    { rewrite filter_map_comm. unfold fields_alist. rewrite filter_map_comm. unfold state_of, skeys. rewrite !map_map. reflexivity. }
    rewrite E. rewrite (py_dict_of_skeys _ (state_of_nodup c x FN)). cbn [bind].
    (* state["_none_fields"] = self.__dict__.get("_none_fields", set()) *)
    unfold inst_obj. cbn [inst_dict bind]. rewrite dict_of_attrs_skeys.
    unfold py_dict_get, PyOpsVersioned.py_dict_get. cbn [py_hashable']. rewrite dict_get_skeys.
    fold n_none_fields. rewrite (dict_get_nones x t PA). cbn [bind].
    assert (NV : match match i_nones x with Some l => Some (nones_val l) | None => None end with
                 | Some v => v | None => PSet false [] end = nones_state x).
    { unfold nones_state, nones_list. destruct (i_nones x); reflexivity. }
    rewrite NV. unfold py_dict_setitem. cbn [py_hashable']. rewrite dict_set_skeys.
    rewrite (alist_set_fresh _ _ _ (state_of_no_internal c x n_none_fields CO eq_refl)). reflexivity.
  Qed.

  Theorem Src_getstate_is_state c undef x t bases :
    class_view h c undef (i_cls x) -> mro_view c (i_cls x) bases ->
    c_ok c = true -> fields_nodup c = true -> public_attrs x = true ->
    (forall n v, is_field c n = true ->
                 w_mcall W (fld_ref n) (s2p "__serialize__") [v] = Src_Field_serialize W (fld_ref n) v) ->
    Src_Structure_getstate W (inst_obj x t) = Ok (PDict (skeys (full_state c x))).
  Proof.
    intros V MV CO FN PA SER.
    exact (Src_getstate_of_fields c undef x t (Src_get_all_fields_is_fields c _ bases MV FN) V CO FN PA SER).
  Qed.

  (* ---------------------------------------------------------------- _get_all_fields_by_name over a whole MRO *)

  Definition level_pairs (fs : list pystr) : list (pystr * pyval) := map (fun n => (n, fld_ref n)) fs.
  Definition set_all (acc d : list (pystr * pyval)) : list (pystr * pyval) :=
    fold_left (fun a p => alist_set a (fst p) (snd p)) d acc.

  (* what the loop computes: the classes of the MRO that are Structure classes, base classes first; the own
     field names of each, as a dict name -> Field object, update the accumulator (a later class overrides) *)
  Definition mro_merge (levels : list (pystr * list pystr)) : list (pystr * pyval) :=
    fold_left (fun acc lv => set_all acc (set_all [] (level_pairs (snd lv))))
              (rev (filter (fun lv => class_says h (fst lv) n_StructMeta) levels)) [].

  (* cls.mro() lists the classes [levels] (name, own `_fields`); every Structure class among them binds each of
     its own field names to the Field object of that name *)
  Record mro_levels (cls : pystr) (levels : list (pystr * list pystr)) : Prop := {
    ml_mro : h cls n_mro = Some (PList (map (fun lv => ref (fst lv)) levels));
    ml_fields : forall lv, In lv levels -> class_says h (fst lv) n_StructMeta = true ->
                match h (fst lv) n_fields with Some v => v | None => PList [] end = PList (map PStr (snd lv));
    ml_attr : forall lv n, In lv levels -> class_says h (fst lv) n_StructMeta = true -> In n (snd lv) ->
              h (fst lv) n = Some (fld_ref n) }.

  Theorem Src_get_all_fields_is_merge cls levels :
    mro_levels cls levels ->
    Src_get_all_fields_by_name W (ref cls) = Ok (PDict (skeys (mro_merge levels))).
  Proof.
    intro V. unfold Src_get_all_fields_by_name. rewrite any_getattr_ref. fold h.
    pose proof (ml_mro _ _ V) as M. unfold n_mro in M. rewrite M. cbn [bind py_iter_obs PyOpsFields.py_iter].
    rewrite <- (map_map fst ref). rewrite comp_refs. cbn [bind py_reversed py_iter_obs PyOpsFields.py_iter].
    rewrite <- map_rev. rewrite (filter_map_comm fst (fun n => class_says h n (s2p "StructMeta"))), <- map_rev, map_map.
    unfold mro_merge. change (@nil (pyval * pyval)) with (skeys []).
    assert (B : forall lv, In lv (rev (filter (fun lv => class_says h (fst lv) (s2p "StructMeta")) levels)) ->
                In lv levels /\ class_says h (fst lv) n_StructMeta = true).
    { intros lv Hl. apply in_rev in Hl. apply filter_In in Hl. exact Hl. }
    change (filter (fun lv : pystr * list pystr => class_says h (fst lv) n_StructMeta) levels)
      with (filter (fun lv : pystr * list pystr => class_says h (fst lv) (s2p "StructMeta")) levels).
    set (one := fun lv : pystr * list pystr => set_all [] (level_pairs (snd lv))).
    change (fun (acc : list (pystr * pyval)) (lv : pystr * list pystr) => set_all acc (set_all [] (level_pairs (snd lv))))
      with (fun (acc : list (pystr * pyval)) (lv : pystr * list pystr) => set_all acc (one lv)).
    generalize (@nil (pystr * pyval)) as acc.
    induction (rev (filter (fun lv => class_says h (fst lv) (s2p "StructMeta")) levels)) as [|lv L IH]; intro acc; [reflexivity|].
    destruct (B lv (or_introl eq_refl)) as [Hin Hm].
    cbn [map py_for fold_left]. rewrite val_isinstance_ref. unfold n_StructMeta in Hm. rewrite Hm. cbn [bind].
    rewrite any_getattr_def_ref. pose proof (ml_fields _ _ V lv Hin Hm) as F. unfold n_fields in F. rewrite F.
    cbn [bind py_iter_obs PyOpsFields.py_iter].
    rewrite (mapM_ok _ (fun v => match v with PStr n => (PStr n, fld_ref n) | _ => (v, v) end)).
    2:{ apply Forall_forall. intros v Hv. apply in_map_iff in Hv. destruct Hv as [n [<- Hn]].
        unfold any_getattr_dyn. rewrite any_getattr_ref. fold h. rewrite (ml_attr _ _ V lv n Hin Hm Hn). reflexivity. }
    cbn [bind]. rewrite map_map.
    assert (E : map (fun x => (PStr x, fld_ref x)) (snd lv) = skeys (level_pairs (snd lv))).
    { unfold skeys, level_pairs. rewrite map_map. reflexivity. }
    rewrite E. unfold py_dict_of, PyOpsFields.py_dict_of. change (@nil (pyval * pyval)) with (skeys []).
    rewrite dict_build_skeys. cbn [bind py_dict_update]. rewrite fold_dict_set_skeys.
    fold (set_all [] (level_pairs (snd lv))). fold (one lv). fold (set_all acc (one lv)).
    apply IH. intros lv' Hl'. apply B. right. exact Hl'.
  Qed.

  Theorem Src_getstate_is_state_mro c undef x t levels :
    class_view h c undef (i_cls x) -> mro_levels (i_cls x) levels -> mro_merge levels = fields_alist c ->
    c_ok c = true -> fields_nodup c = true -> public_attrs x = true ->
    (forall n v, is_field c n = true ->
                 w_mcall W (fld_ref n) (s2p "__serialize__") [v] = Src_Field_serialize W (fld_ref n) v) ->
    Src_Structure_getstate W (inst_obj x t) = Ok (PDict (skeys (full_state c x))).
  Proof.
    intros V ML E CO FN PA SER. apply (Src_getstate_of_fields c undef x t); try assumption.
    rewrite (Src_get_all_fields_is_merge _ levels ML), E, field_by_name_skeys. reflexivity.
  Qed.

  (* the state is what the hand-written round trip keeps: the same lookups as i_attrs (pickle_rt c x) *)
  Lemma state_lookup c x k :
    alist_get (state_of c x) k = alist_get (i_attrs (pickle_rt c x)) k.
  Proof.
    transitivity (if is_field c k then alist_get (i_attrs x) k else None).
    - unfold state_of, is_field. induction (c_fields c) as [|fd l IH]; [reflexivity|].
      cbn [filter find_field]. unfold alist_has at 1. destruct (alist_get (i_attrs x) (fd_name fd)) as [v|] eqn:G.
      + cbn [map alist_get fst]. destruct (pystr_eqb (fd_name fd) k) eqn:E; [|exact IH].
        apply pystr_eqb_spec in E. subst k. unfold getf. rewrite G. reflexivity.
      + destruct (pystr_eqb (fd_name fd) k) eqn:E; [|exact IH].
        apply pystr_eqb_spec in E. subst k. rewrite IH, G. destruct (find_field l (fd_name fd)); reflexivity.
    - unfold pickle_rt, is_field. cbn [i_attrs]. induction (i_attrs x) as [|[k' v] l IH].
      + destruct (find_field (c_fields c) k); reflexivity.
      + cbn [filter fst alist_get]. destruct (pystr_eqb k' k) eqn:E.
        * apply pystr_eqb_spec in E. subst k'. destruct (find_field (c_fields c) k); [cbn [alist_get]; rewrite pystr_eqb_refl; reflexivity|].
          rewrite <- IH. reflexivity.
        * destruct (find_field (c_fields c) k') ; [cbn [alist_get]; rewrite E|]; exact IH.
  Qed.

  (* ---------------------------------------------------------------- Structure.__setstate__, unpickling *)

  (* __setstate__ on the object cls.__new__(cls) has just made, with the state __getstate__ returned: the
     entries of the state, then `_instantiated` = True (the `_none_fields` default is not needed: the state
     carries the set) *)
  Theorem Src_setstate_of_state c x cls :
    c_ok c = true -> fields_nodup c = true ->
    Src_Structure_setstate W (PStruct cls []) (PDict (skeys (full_state c x))) =
    Ok (PStruct cls (full_state c x ++ [(n_instantiated, PBool true)])).
  Proof.
    intros CO FN. unfold Src_Structure_setstate. cbn [inst_dict_update]. rewrite attrs_update_skeys.
    rewrite fold_alist_set_fresh by (cbn [app]; apply full_state_nodup; assumption). cbn [bind app].
    unfold inst_dict_setdefault.
    assert (HN : alist_has (full_state c x) n_none_fields = true).
    { unfold alist_has, full_state. rewrite alist_get_app.
      rewrite (alist_get_notin _ _ (state_of_no_internal c x n_none_fields CO eq_refl)). reflexivity. }
    fold n_none_fields. rewrite HN. cbn [bind]. unfold inst_dict_setitem. fold n_instantiated.
    rewrite alist_set_fresh; [reflexivity|].
    unfold full_state. rewrite map_app. intro H. apply in_app_or in H. destruct H as [H|[H|[]]].
    - exact (state_of_no_internal c x n_instantiated CO eq_refl H).
    - discriminate H.
  Qed.

  (* any state, as long as its names are distinct: the entries of the state, `_none_fields` defaulting to an
     empty set, `_instantiated` = True whatever the state said *)
  Theorem Src_setstate_any cls st :
    NoDup (map fst st) ->
    Src_Structure_setstate W (PStruct cls []) (PDict (skeys st)) =
    Ok (PStruct cls (alist_set (if alist_has st n_none_fields then st else alist_set st n_none_fields (PSet false []))
                               n_instantiated (PBool true))).
  Proof.
    intro ND. unfold Src_Structure_setstate. cbn [inst_dict_update]. rewrite attrs_update_skeys.
    rewrite fold_alist_set_fresh by exact ND. cbn [bind app]. unfold inst_dict_setdefault. fold n_none_fields.
    destruct (alist_has st n_none_fields); cbn [bind]; unfold inst_dict_setitem; fold n_instantiated; reflexivity.
  Qed.

  (* pickle.loads(pickle.dumps(o)) for an instance o of a Structure class, as object.__reduce_ex__(2) and
     copyreg arrange it: state = o.__getstate__(); r = cls.__new__(cls); r.__setstate__(<a copy of state>) *)
  Definition unpickle (o : pyval) : res pyval :=
    st <- Src_Structure_getstate W o ;; cls <- inst_class o ;; r <- obj_new cls ;; Src_Structure_setstate W r st.

  Theorem Src_unpickle_is_pickle_rt c undef x t bases :
    class_view h c undef (i_cls x) -> mro_view c (i_cls x) bases ->
    c_ok c = true -> fields_nodup c = true -> public_attrs x = true ->
    (forall n v, is_field c n = true ->
                 w_mcall W (fld_ref n) (s2p "__serialize__") [v] = Src_Field_serialize W (fld_ref n) v) ->
    unpickle (inst_obj x t) = Ok (PStruct (i_cls x) (state_of c x ++ internals (pickle_rt c x) None)) /\
    (forall k, alist_get (state_of c x ++ internals (pickle_rt c x) None) k =
               alist_get (inst_dict_of (pickle_rt c x) None) k).
  Proof.
    intros V MV CO FN PA SER. split.
    - unfold unpickle. rewrite (Src_getstate_is_state c undef x t bases V MV CO FN PA SER). cbn [bind].
      unfold inst_obj at 1. cbn [inst_class PyOpsFields.fld_class_of bind]. unfold obj_new, ref. rewrite ref_tag_refl. cbn [bind].
      rewrite (Src_setstate_of_state c x (i_cls x) CO FN). unfold full_state, internals, pickle_rt, nones_state.
      cbn [i_nones i_live]. rewrite <- app_assoc. reflexivity.
    - intro k. unfold inst_dict_of. rewrite !alist_get_app, state_lookup. reflexivity.
  Qed.
End World.

(* ------------------------------------------------------------------ the theorems, with the oracles spelled out
   (the form Props/C11.v re-exports: its Section variables are c, undef, num_str, str_repr, enum_vrepr, str_hash) *)

Definition the_world (num_str : num -> pystr) (str_repr : pystr -> pystr) (enum_vrepr : pystr -> pystr -> pystr)
           (str_hash : pystr -> Z) (mcall : pyval -> pystr -> list pyval -> res pyval) (h : heap) : world :=
  mk_world (mk_so num_str str_repr enum_vrepr str_hash) mcall h.

(* Structure.__eq__ of the source IS inst_eq *)
Theorem C11_src_eq :
  forall c undef num_str str_repr enum_vrepr str_hash mcall h a b ta tb,
    class_view h c undef (i_cls a) -> c_ok c = true ->
    public_attrs a = true -> public_attrs b = true ->
    nodup_by pystr_eqb (nones_list a) = true -> nodup_by pystr_eqb (nones_list b) = true ->
    Src_Structure_eq (the_world num_str str_repr enum_vrepr str_hash mcall h) (inst_obj a ta) (inst_obj b tb) =
    Ok (PBool (inst_eq c undef a b)).
Proof. intros c undef ns sr ev sh mcall h. exact (Src_eq_is_inst_eq (the_world ns sr ev sh mcall h) c undef). Qed.

(* Structure.__ne__ of the source is its negation *)
Theorem C11_src_ne :
  forall c undef num_str str_repr enum_vrepr str_hash mcall h a b ta tb,
    class_view h c undef (i_cls a) -> c_ok c = true ->
    public_attrs a = true -> public_attrs b = true ->
    nodup_by pystr_eqb (nones_list a) = true -> nodup_by pystr_eqb (nones_list b) = true ->
    Src_Structure_ne (the_world num_str str_repr enum_vrepr str_hash mcall h) (inst_obj a ta) (inst_obj b tb) =
    Ok (PBool (negb (inst_eq c undef a b))).
Proof. intros c undef ns sr ev sh mcall h. exact (Src_ne_is_not_inst_eq (the_world ns sr ev sh mcall h) c undef). Qed.

(* what `getattr(instance, field name)` yields (Field.__get__ of the source) IS getf *)
Theorem C11_src_field_get :
  forall c undef num_str str_repr enum_vrepr str_hash mcall h x t k,
    class_view h c undef (i_cls x) -> c_ok c = true -> public_attrs x = true -> is_field c k = true ->
    Src_Field_get (the_world num_str str_repr enum_vrepr str_hash mcall h) (fld_ref k) (inst_obj x t) (ref (i_cls x)) =
    Ok (getf c undef x k).
Proof. intros c undef ns sr ev sh mcall h. exact (Src_Field_get_is_getf (the_world ns sr ev sh mcall h) c undef). Qed.

(* Structure.__str__ / __repr__ of the source IS inst_str; the local to_str IS [vs false] *)
Theorem C11_src_str :
  forall num_str str_repr enum_vrepr str_hash mcall h x t,
    heap_plain (the_world num_str str_repr enum_vrepr str_hash mcall h) -> inst_str_ok x = true ->
    Src_Structure_str (the_world num_str str_repr enum_vrepr str_hash mcall h) (inst_obj x t) =
    Ok (PStr (inst_str num_str str_repr enum_vrepr x)).
Proof. intros ns sr ev sh mcall h. exact (Src_str_is_inst_str (the_world ns sr ev sh mcall h)). Qed.

Theorem C11_src_repr :
  forall num_str str_repr enum_vrepr str_hash mcall h x t,
    heap_plain (the_world num_str str_repr enum_vrepr str_hash mcall h) -> inst_str_ok x = true ->
    Src_Structure_repr (the_world num_str str_repr enum_vrepr str_hash mcall h) (inst_obj x t) =
    Ok (PStr (inst_str num_str str_repr enum_vrepr x)).
Proof. intros ns sr ev sh mcall h. exact (Src_repr_is_inst_str (the_world ns sr ev sh mcall h)). Qed.

Theorem C11_src_to_str :
  forall num_str str_repr enum_vrepr str_hash mcall h v,
    heap_plain (the_world num_str str_repr enum_vrepr str_hash mcall h) -> str_ok v = true ->
    Src_to_str (the_world num_str str_repr enum_vrepr str_hash mcall h) v = Ok (PStr (vs num_str str_repr enum_vrepr false v)).
Proof.
  intros ns sr ev sh mcall h v HP SO. unfold Src_to_str.
  apply (T_all (the_world ns sr ev sh mcall h) HP v SO). cbn [PyOpsVersioned.heights fold_right]. lia.
Qed.

(* the same when every NESTED instance carries, besides its public attributes, the internal entries [ni] that
   typedpy gives an instance (`_none_fields` -- empty --, `_instantiated`): [lift ni v] is the Python-level value *)
Theorem C11_src_str_nested :
  forall num_str str_repr enum_vrepr str_hash mcall h ni x t,
    heap_plain (the_world num_str str_repr enum_vrepr str_hash mcall h) -> ni_ok ni = true -> inst_str_ok x = true ->
    Src_Structure_str (the_world num_str str_repr enum_vrepr str_hash mcall h) (inst_obj_nested ni x t) =
    Ok (PStr (inst_str num_str str_repr enum_vrepr x)).
Proof. intros ns sr ev sh mcall h. exact (Src_str_is_inst_str_nested (the_world ns sr ev sh mcall h)). Qed.

Theorem C11_src_to_str_nested :
  forall num_str str_repr enum_vrepr str_hash mcall h ni v,
    heap_plain (the_world num_str str_repr enum_vrepr str_hash mcall h) -> ni_ok ni = true -> str_ok v = true ->
    Src_to_str (the_world num_str str_repr enum_vrepr str_hash mcall h) (lift ni v) =
    Ok (PStr (vs num_str str_repr enum_vrepr false v)).
Proof.
  intros ns sr ev sh mcall h ni v HP NI SO. unfold Src_to_str.
  apply (proj1 (T_all_nested (the_world ns sr ev sh mcall h) ni HP NI v SO)). cbn [PyOpsVersioned.heights fold_right]. lia.
Qed.

(* Structure.__hash__ of the source IS inst_hash *)
Theorem C11_src_hash :
  forall num_str str_repr enum_vrepr str_hash mcall h x t,
    heap_plain (the_world num_str str_repr enum_vrepr str_hash mcall h) -> inst_str_ok x = true ->
    Src_Structure_hash (the_world num_str str_repr enum_vrepr str_hash mcall h) (inst_obj x t) =
    Ok (zint (inst_hash num_str str_repr enum_vrepr str_hash x)).
Proof. intros ns sr ev sh mcall h. exact (Src_hash_is_inst_hash (the_world ns sr ev sh mcall h)). Qed.

Theorem C11_src_hash_nested :
  forall num_str str_repr enum_vrepr str_hash mcall h ni x t,
    heap_plain (the_world num_str str_repr enum_vrepr str_hash mcall h) -> ni_ok ni = true -> inst_str_ok x = true ->
    Src_Structure_hash (the_world num_str str_repr enum_vrepr str_hash mcall h) (inst_obj_nested ni x t) =
    Ok (zint (inst_hash num_str str_repr enum_vrepr str_hash x)).
Proof. intros ns sr ev sh mcall h. exact (Src_hash_is_inst_hash_nested (the_world ns sr ev sh mcall h)). Qed.

(* Structure.__copy__ / __deepcopy__ of the source yield copy_inst / deepcopy_inst (same class, same __dict__
   entries, internal ones included; `_skip_validation` set and removed again) *)
Theorem C11_src_copy :
  forall num_str str_repr enum_vrepr str_hash mcall h x t,
    keys_ok x = true ->
    Src_Structure_copy (the_world num_str str_repr enum_vrepr str_hash mcall h) (inst_obj x t) = Ok (inst_obj (copy_inst x) t).
Proof. intros ns sr ev sh mcall h. exact (Src_copy_is_copy_inst (the_world ns sr ev sh mcall h)). Qed.

Theorem C11_src_deepcopy :
  forall num_str str_repr enum_vrepr str_hash mcall h x t memo,
    keys_ok x = true -> alist_has (i_attrs x) n_skip_validation = false ->
    class_field h (i_cls x) n_immutable = None ->
    Src_Structure_deepcopy (the_world num_str str_repr enum_vrepr str_hash mcall h) (inst_obj x t) memo =
    Ok (inst_obj (deepcopy_inst x) t).
Proof. intros ns sr ev sh mcall h. exact (Src_deepcopy_is_deepcopy_inst (the_world ns sr ev sh mcall h)). Qed.

(* _get_all_fields_by_name of the source yields the fields of c; Structure.__getstate__ yields the declared fields
   present in __dict__, which is what pickle_rt keeps (same lookups) *)
Theorem C11_src_getstate :
  forall c undef num_str str_repr enum_vrepr str_hash mcall h x t bases,
    class_view h c undef (i_cls x) ->
    mro_view (the_world num_str str_repr enum_vrepr str_hash mcall h) c (i_cls x) bases ->
    c_ok c = true -> fields_nodup c = true -> public_attrs x = true ->
    (forall n v, is_field c n = true ->
                 mcall (fld_ref n) (s2p "__serialize__") [v] =
                 Src_Field_serialize (the_world num_str str_repr enum_vrepr str_hash mcall h) (fld_ref n) v) ->
    (Src_Structure_getstate (the_world num_str str_repr enum_vrepr str_hash mcall h) (inst_obj x t) =
     Ok (PDict (skeys (full_state c x)))) /\
    (forall k, alist_get (state_of c x) k = alist_get (i_attrs (pickle_rt c x)) k).
Proof.
  intros c undef ns sr ev sh mcall h x t bases V MV CO FN PA SER. split.
  - exact (Src_getstate_is_state (the_world ns sr ev sh mcall h) c undef x t bases V MV CO FN PA SER).
  - apply state_lookup.
Qed.

(* the same through a whole MRO: _get_all_fields_by_name merges the own fields of the Structure classes of
   cls.mro(), base classes first ([mro_merge]); c lists them in that order *)
Theorem C11_src_getstate_mro :
  forall c undef num_str str_repr enum_vrepr str_hash mcall h x t levels,
    class_view h c undef (i_cls x) ->
    mro_levels (the_world num_str str_repr enum_vrepr str_hash mcall h) (i_cls x) levels ->
    mro_merge (the_world num_str str_repr enum_vrepr str_hash mcall h) levels = fields_alist c ->
    c_ok c = true -> fields_nodup c = true -> public_attrs x = true ->
    (forall n v, is_field c n = true ->
                 mcall (fld_ref n) (s2p "__serialize__") [v] =
                 Src_Field_serialize (the_world num_str str_repr enum_vrepr str_hash mcall h) (fld_ref n) v) ->
    Src_Structure_getstate (the_world num_str str_repr enum_vrepr str_hash mcall h) (inst_obj x t) =
    Ok (PDict (skeys (full_state c x))).
Proof.
  intros c undef ns sr ev sh mcall h x t levels.
  exact (Src_getstate_is_state_mro (the_world ns sr ev sh mcall h) c undef x t levels).
Qed.

(* Structure.__setstate__ of the source, on a new object and ANY state with distinct names: the entries of the
   state, `_none_fields` defaulting to an empty set, `_instantiated` = True *)
Theorem C11_src_setstate :
  forall num_str str_repr enum_vrepr str_hash mcall h cls st,
    NoDup (map fst st) ->
    Src_Structure_setstate (the_world num_str str_repr enum_vrepr str_hash mcall h) (PStruct cls []) (PDict (skeys st)) =
    Ok (PStruct cls (alist_set (if alist_has st n_none_fields then st else alist_set st n_none_fields (PSet false []))
                               n_instantiated (PBool true))).
Proof. intros ns sr ev sh mcall h. exact (Src_setstate_any (the_world ns sr ev sh mcall h)). Qed.

(* the pickle round trip through the source's __getstate__ and __setstate__ yields the instance [pickle_rt c x] of
   the model, live again and with its `_none_fields`: the same class, the same lookups in __dict__ *)
Theorem C11_src_unpickle :
  forall c undef num_str str_repr enum_vrepr str_hash mcall h x t bases,
    class_view h c undef (i_cls x) ->
    mro_view (the_world num_str str_repr enum_vrepr str_hash mcall h) c (i_cls x) bases ->
    c_ok c = true -> fields_nodup c = true -> public_attrs x = true ->
    (forall n v, is_field c n = true ->
                 mcall (fld_ref n) (s2p "__serialize__") [v] =
                 Src_Field_serialize (the_world num_str str_repr enum_vrepr str_hash mcall h) (fld_ref n) v) ->
    unpickle (the_world num_str str_repr enum_vrepr str_hash mcall h) (inst_obj x t) =
      Ok (PStruct (i_cls x) (state_of c x ++ internals (pickle_rt c x) None)) /\
    (forall k, alist_get (state_of c x ++ internals (pickle_rt c x) None) k =
               alist_get (inst_dict_of (pickle_rt c x) None) k).
Proof.
  intros c undef ns sr ev sh mcall h x t bases.
  exact (Src_unpickle_is_pickle_rt (the_world ns sr ev sh mcall h) c undef x t bases).
Qed.

(* ------------------------------------------------------------------ the hypotheses are satisfiable *)



Definition ex_fd (n : string) (d : option pyval) : fdecl :=
  {| fd_name := s2p n; fd_field := FAnything; fd_immutable := false; fd_default := d |}.

Definition ex_c : classdef :=
  {| c_name := s2p "A"; c_ancestors := [];
     c_fields := [ex_fd "n" (Some (PNum (NInt 5))); ex_fd "s" None];
     c_required := []; c_additional := true; c_ignore_none := false; c_immutable := false; c_hook := HookNone |}.

(* the heap: every object answers `__name__` with its own name; otherwise a table *)
Definition ex_table (cls : pystr) (bases : pyval) : list (pystr * list (pystr * pyval)) :=
  [ (cls, [ (n_field_by_name, field_by_name ex_c);
            (n_mro, PList [ref cls; ref (s2p "Structure"); ref (s2p "object")]);
            (isinstance_attr n_StructMeta, PBool true);
            (n_fields, PList [PStr (s2p "n"); PStr (s2p "s")]);
            (s2p "n", fld_ref (s2p "n")); (s2p "s", fld_ref (s2p "s"));
            (s2p "__bases__", bases) ]);
    (s2p "Structure", [ (isinstance_attr n_StructMeta, PBool true); (n_fields, PList []) ]);
    (fld_obj (s2p "n"), [ (s2p "_name", PStr (s2p "n")); (s2p "_default", PNum (NInt 5)) ]);
    (fld_obj (s2p "s"), [ (s2p "_name", PStr (s2p "s")); (s2p "_default", PNone) ]);
    (n_TypedPyDefaults, [ (s2p "defensive_copy_on_get", PBool true) ]) ].

Definition ex_heap_of (cls : pystr) (bases : pyval) : heap :=
  fun o a =>
    if pystr_eqb a (s2p "__name__") then Some (PStr o)
    else match alist_get (ex_table cls bases) o with
         | Some attrs => alist_get attrs a
         | None => None
         end.

Definition ex_heap : heap := ex_heap_of (s2p "A") (PTuple [ref (s2p "Structure")]).

Definition ex_ns (n : num) : pystr :=
  match n with
  | NInt 1 => s2p "1" | NInt 2 => s2p "2" | NInt 5 => s2p "5" | NFlt 1 0 => s2p "1.0"
  | _ => s2p "?"
  end.
Definition ex_sr (s : pystr) : pystr := s2p "'" ++ s ++ s2p "'".
Definition ex_ev (c n : pystr) : pystr := s2p "0".
Definition ex_sh (s : pystr) : Z := Z.of_nat (length s).
Definition ex_mcall (o : pyval) (m : pystr) (args : list pyval) : res pyval :=
  if pystr_eqb m (s2p "__serialize__") then match args with [v] => Ok v | _ => Raise TypeError end
  else Raise Unmodelled.

Definition ex_world_of (h : heap) : world := the_world ex_ns ex_sr ex_ev ex_sh ex_mcall h.
Definition ex_world : world := ex_world_of ex_heap.

Definition ex_a : inst :=
  {| i_cls := s2p "A";
     i_attrs := [(s2p "s", PStr (s2p "q")); (s2p "n", PNum (NInt 1));
                 (s2p "extra", PList [PNum (NInt 2); PStruct (s2p "B") [(s2p "z", PSet false [PStr (s2p "w")])]])];
     i_nones := Some [s2p "m"]; i_live := true |}.
Definition ex_b : inst :=
  {| i_cls := s2p "A";
     i_attrs := [(s2p "n", PNum (NFlt 1 0)); (s2p "s", PStr (s2p "q"));
                 (s2p "extra", PList [PNum (NInt 2); PStruct (s2p "B") [(s2p "z", PSet false [PStr (s2p "w")])]])];
     i_nones := Some [s2p "m"]; i_live := true |}.

Lemma ex_heap_plain cls bases :
  class_field (ex_heap_of cls bases) cls n_none_fields = None ->
  heap_plain (ex_world_of (ex_heap_of cls bases)).
Proof.
  intros CF cn. unfold ex_world_of, the_world. cbn [w_heap]. split; [reflexivity|]. split.
  - unfold ex_heap_of, ex_table. cbn [pystr_eqb alist_get].
    repeat match goal with |- context [pystr_eqb ?k cn] => destruct (pystr_eqb k cn); [vm_compute; reflexivity|] end.
    reflexivity.
  - unfold class_field, ex_heap_of, ex_table. cbn [pystr_eqb alist_get].
    match goal with |- context [pystr_eqb ?k cn] => destruct (pystr_eqb k cn) eqn:E end.
    + apply pystr_eqb_spec in E. subst cn. unfold class_field, ex_heap_of, ex_table in CF.
      cbn [pystr_eqb alist_get] in CF. rewrite pystr_eqb_refl in CF. exact CF.
    + repeat match goal with |- context [pystr_eqb ?k cn] => destruct (pystr_eqb k cn); [vm_compute; reflexivity|] end.
      reflexivity.
Qed.

Lemma ex_is_field n : is_field ex_c n = true -> n = s2p "n" \/ n = s2p "s".
Proof.
  unfold is_field, ex_c. cbn [c_fields find_field ex_fd fd_name].
  destruct (pystr_eqb (s2p "n") n) eqn:E1; [left; symmetry; apply pystr_eqb_spec; exact E1|].
  destruct (pystr_eqb (s2p "s") n) eqn:E2; [right; symmetry; apply pystr_eqb_spec; exact E2|]. discriminate.
Qed.

Example ex_views :
  class_view ex_heap ex_c false (s2p "A") /\
  mro_view ex_world ex_c (s2p "A") [s2p "Structure"; s2p "object"] /\
  heap_plain ex_world.
Proof.
  split; [|split].
  - constructor; try (vm_compute; reflexivity).
    + intros n F. destruct (ex_is_field n F) as [-> | ->]; vm_compute; reflexivity.
    + intros n F. destruct (ex_is_field n F) as [-> | ->]; vm_compute; reflexivity.
    + intros n F. destruct (ex_is_field n F) as [-> | ->]; vm_compute; reflexivity.
    + exists (PBool true). vm_compute. reflexivity.
  - constructor; try (vm_compute; reflexivity).
    + intros n F. destruct (ex_is_field n F) as [-> | ->]; vm_compute; reflexivity.
    + intros b [<- | [<- | []]]; [right; right | left]; vm_compute; reflexivity.
  - apply ex_heap_plain. vm_compute. reflexivity.
Qed.

Example ex_side_conditions :
  c_ok ex_c = true /\ fields_nodup ex_c = true /\
  public_attrs ex_a = true /\ keys_ok ex_a = true /\ inst_str_ok ex_a = true /\
  nodup_by pystr_eqb (nones_list ex_a) = true /\ alist_has (i_attrs ex_a) n_skip_validation = false /\
  class_field ex_heap (i_cls ex_a) n_immutable = None /\
  (forall n v, ex_mcall (fld_ref n) (s2p "__serialize__") [v] = Src_Field_serialize ex_world (fld_ref n) v).
Proof. repeat split; vm_compute; reflexivity. Qed.

(* the generated functions run: 1 == 1.0 across spellings, a nested instance, a None-marked name *)
Example ex_eq_runs :
  Src_Structure_eq ex_world (inst_obj ex_a None) (inst_obj ex_b None) = Ok (PBool true) /\
  inst_eq ex_c false ex_a ex_b = true.
Proof. split; vm_compute; reflexivity. Qed.

Example ex_str_runs :
  Src_Structure_str ex_world (inst_obj ex_a None) =
  Ok (PStr (s2p "<Instance of A. Properties: extra = [2,<Instance of B. Properties: z = {w}>], n = 1, s = 'q', m = None>")) /\
  inst_str ex_ns ex_sr ex_ev ex_a =
  s2p "<Instance of A. Properties: extra = [2,<Instance of B. Properties: z = {w}>], n = 1, s = 'q', m = None>".
Proof. split; vm_compute; reflexivity. Qed.

Example ex_getstate_runs :
  Src_Structure_getstate ex_world (inst_obj ex_a None) =
  Ok (PDict [(PStr (s2p "n"), PNum (NInt 1)); (PStr (s2p "s"), PStr (s2p "q"));
             (PStr (s2p "_none_fields"), PSet false [PStr (s2p "m")])]).
Proof. vm_compute. reflexivity. Qed.

(* the pickle round trip runs: the undeclared `extra` is gone, the None-marked name and `_instantiated` are back *)
Example ex_unpickle_runs :
  unpickle ex_world (inst_obj ex_a None) =
  Ok (PStruct (s2p "A") [(s2p "n", PNum (NInt 1)); (s2p "s", PStr (s2p "q"));
                         (s2p "_none_fields", PSet false [PStr (s2p "m")]); (s2p "_instantiated", PBool true)]).
Proof. vm_compute. reflexivity. Qed.

(* inherited fields: class B2(A2), A2 declares n, B2 declares s *)
Definition ex_mro_heap : heap :=
  fun o a =>
    match alist_get
            [ (s2p "B2", [ (n_mro, PList [ref (s2p "B2"); ref (s2p "A2"); ref (s2p "Structure"); ref (s2p "object")]);
                           (isinstance_attr n_StructMeta, PBool true); (n_fields, PList [PStr (s2p "s")]);
                           (s2p "s", fld_ref (s2p "s")); (s2p "n", fld_ref (s2p "n")) ]);
              (s2p "A2", [ (isinstance_attr n_StructMeta, PBool true); (n_fields, PList [PStr (s2p "n")]);
                           (s2p "n", fld_ref (s2p "n")) ]);
              (s2p "Structure", [ (isinstance_attr n_StructMeta, PBool true); (n_fields, PList []) ]) ] o with
    | Some attrs => alist_get attrs a
    | None => None
    end.

Definition ex_levels : list (pystr * list pystr) :=
  [(s2p "B2", [s2p "s"]); (s2p "A2", [s2p "n"]); (s2p "Structure", []); (s2p "object", [])].

Example ex_mro :
  mro_levels (ex_world_of ex_mro_heap) (s2p "B2") ex_levels /\
  mro_merge (ex_world_of ex_mro_heap) ex_levels = fields_alist ex_c /\
  Src_get_all_fields_by_name (ex_world_of ex_mro_heap) (ref (s2p "B2")) = Ok (field_by_name ex_c).
Proof.
  split; [|split]; try (vm_compute; reflexivity).
  constructor; [vm_compute; reflexivity | |].
  - intros lv [<- | [<- | [<- | [<- | []]]]] Hm; try (vm_compute; reflexivity); vm_compute in Hm; discriminate Hm.
  - intros lv n [<- | [<- | [<- | [<- | []]]]] Hm Hn; cbn [snd] in Hn; repeat (destruct Hn as [<- | Hn]; [vm_compute; reflexivity|]);
      destruct Hn.
Qed.

(* nested instances as typedpy builds them: `_none_fields` = set(), `_instantiated` = True *)
Definition typedpy_ni : list (pystr * pyval) := [(n_none_fields, PSet false []); (n_instantiated, PBool true)].

Example ex_str_nested_runs :
  ni_ok typedpy_ni = true /\
  Src_Structure_str ex_world (inst_obj_nested typedpy_ni ex_a None) =
  Ok (PStr (s2p "<Instance of A. Properties: extra = [2,<Instance of B. Properties: z = {w}>], n = 1, s = 'q', m = None>")).
Proof. split; vm_compute; reflexivity. Qed.

(* ------------------------------------------------------------------ where the source and the hand-written model DISAGREE *)

(* 1. A class named `StructureReference_...` whose only base is Structure (what the field StructureReference(...)
      creates) is printed as "Structure" by the source -- and by the real library -- while inst_str prints the
      class name as it is.  [plain_name] is the side condition that excludes it. *)
Definition ex_ref_heap : heap := ex_heap_of (s2p "StructureReference_0") (PTuple [ref (s2p "Structure")]).
Definition ex_ref : inst :=
  {| i_cls := s2p "StructureReference_0"; i_attrs := [(s2p "s", PStr (s2p "q")); (s2p "n", PNum (NInt 1))];
     i_nones := Some []; i_live := true |}.

Example Src_str_disagrees_on_reference_classes :
  heap_plain (ex_world_of ex_ref_heap) /\ keys_ok ex_ref = true /\
  Src_Structure_str (ex_world_of ex_ref_heap) (inst_obj ex_ref None) =
    Ok (PStr (s2p "<Instance of Structure. Properties: n = 1, s = 'q'>")) /\
  inst_str ex_ns ex_sr ex_ev ex_ref = s2p "<Instance of StructureReference_0. Properties: n = 1, s = 'q'>".
Proof.
  split; [apply ex_heap_plain; vm_compute; reflexivity|]. repeat split; vm_compute; reflexivity.
Qed.

(* 2. A NESTED instance whose `_none_fields` is not empty: the source (and the real library) prints `x = None`
      inside the nested instance; the value universe's [PStruct cls attrs] carries no None-marked names, so
      [vs] cannot.  At the Python level the nested instance is a PStruct with its whole __dict__: *)
Example Src_str_prints_nested_none_fields :
  Src_Structure_str ex_world
    (PStruct (s2p "Holder")
       [(n_none_fields, PSet false []);
        (s2p "u", PStruct (s2p "U") [(n_none_fields, PSet false [PStr (s2p "x")]); (s2p "y", PNum (NInt 2));
                                     (n_instantiated, PBool true)]);
        (n_instantiated, PBool true)]) =
  Ok (PStr (s2p "<Instance of Holder. Properties: u = <Instance of U. Properties: y = 2, x = None>>")).
Proof. vm_compute. reflexivity. Qed.

(* ------------------------------------------------------------------ assumptions *)

Print Assumptions C11_src_eq.
Print Assumptions C11_src_ne.
Print Assumptions C11_src_field_get.
Print Assumptions C11_src_str.
Print Assumptions C11_src_repr.
Print Assumptions C11_src_to_str.
Print Assumptions C11_src_str_nested.
Print Assumptions C11_src_to_str_nested.
Print Assumptions C11_src_hash.
Print Assumptions C11_src_hash_nested.
Print Assumptions C11_src_copy.
Print Assumptions C11_src_deepcopy.
Print Assumptions C11_src_getstate.
Print Assumptions C11_src_getstate_mro.
Print Assumptions Src_get_all_fields_is_fields.
Print Assumptions Src_get_all_fields_is_merge.
Print Assumptions ex_mro.
Print Assumptions ex_views.
Print Assumptions Src_str_disagrees_on_reference_classes.
Print Assumptions Src_str_prints_nested_none_fields.
