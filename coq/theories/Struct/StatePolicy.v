(* Structure.__getstate__ as a POLICY read from the source (harness/genmods/copy_sites.py, Gen/CopySites.v):
   which names the pickled state keeps.  Executable; the proofs are in Struct/StatePolicyProofs.v. *)
From Coq Require Import ZArith NArith Bool List.
Import ListNotations.
From TP Require Import Base.PyVal Fields.FieldAst Struct.EqHash.

Inductive gs_fields :=
| GsAllFields                (* the fields of the whole inheritance chain: get_all_fields_by_name *)
| GsUnknownFields.
Inductive gs_filter :=
| GsInDict                   (* if name in self.__dict__ *)
| GsTruthy                   (* if self.__dict__.get(name) *)
| GsNoFilter
| GsUnknownFilter.
Inductive gs_value :=
| GsFieldValue               (* the stored value (through Field.__serialize__, the identity for the modelled fields) *)
| GsUnknownValue.

(* what the state carries besides the fields *)
Inductive gs_internal :=
| GsNonesKept                (* state["_none_fields"] = the instance's `_none_fields` (an empty set when it has none) *)
| GsNoInternal               (* nothing: the fields only *)
| GsUnknownInternal.
(* how an instance is rebuilt from the state *)
Inductive gs_restore :=
| GsRestoreInstantiated      (* __setstate__: self.__dict__.update(state); `_none_fields` defaults to an empty set;
                                `_instantiated` = True *)
| GsRestoreDefault           (* no __setstate__ / __reduce__...: the interpreter's __dict__.update(state) *)
| GsUnknownRestore.

Record state_policy := { sp_fields : gs_fields; sp_filter : gs_filter; sp_value : gs_value;
                         sp_internal : gs_internal; sp_restore : gs_restore }.

(* what the code does on the pinned tree *)
Definition state_policy_today : state_policy :=
  {| sp_fields := GsAllFields; sp_filter := GsInDict; sp_value := GsFieldValue;
     sp_internal := GsNonesKept; sp_restore := GsRestoreInstantiated |}.

(* `_none_fields` and `_instantiated` of the rebuilt instance *)
Definition restored_internals (sp : state_policy) (x : inst) : option (option (list pystr) * bool) :=
  match sp_internal sp, sp_restore sp with
  | GsNonesKept, GsRestoreInstantiated => Some (Some (nones_list x), true)
  | GsNonesKept, GsRestoreDefault => Some (Some (nones_list x), false)
  | GsNoInternal, GsRestoreInstantiated => Some (Some [], true)
  | GsNoInternal, GsRestoreDefault => Some (None, false)
  | _, _ => None
  end.

Definition is_declared (c : classdef) (k : pystr) : bool :=
  match find_field (c_fields c) k with Some _ => true | None => false end.

(* pickle.loads(pickle.dumps(x)): the state is stored into a fresh __dict__.
   None: a __getstate__ / __setstate__ the generator could not read. *)
Definition pickle_rt_pol (sp : state_policy) (c : classdef) (x : inst) : option inst :=
  match sp_fields sp, sp_value sp, restored_internals sp x with
  | GsAllFields, GsFieldValue, Some (nones, live) =>
      match sp_filter sp with
      | GsInDict =>
          Some {| i_cls := i_cls x;
                  i_attrs := filter (fun p => is_declared c (fst p)) (i_attrs x);
                  i_nones := nones; i_live := live |}
      | GsTruthy =>
          Some {| i_cls := i_cls x;
                  i_attrs := filter (fun p => is_declared c (fst p) && py_truthy (snd p)) (i_attrs x);
                  i_nones := nones; i_live := live |}
      | GsNoFilter | GsUnknownFilter => None
      end
  | _, _, _ => None
  end.

Definition state_policy_safe (sp : state_policy) : bool :=
  match sp_fields sp, sp_filter sp, sp_value sp, sp_internal sp, sp_restore sp with
  | GsAllFields, GsInDict, GsFieldValue, GsNonesKept, GsRestoreInstantiated => true
  | _, _, _, _, _ => false
  end.
