(* Structure.__getstate__ as a POLICY read from the source (harness/genmods/copy_sites.py, Gen/CopySites.v):
   which names the pickled state keeps.  Executable; the proofs are in Struct/StatePolicyProofs.v. *)
From Coq Require Import ZArith NArith Bool List.
Import ListNotations.
From TP Require Import Base.PyVal Fields.FieldAst Struct.EqHash.

Inductive gs_fields :=
| GsAllFields                (* the fields of the whole inheritance chain: get_all_fields_by_name *)
| GsUnknownFields.
Inductive gs_filter :=
| GsInDict                   (* if name in self.__dict__ *)
| GsTruthy                   (* if self.__dict__.get(name) *)
| GsNoFilter
| GsUnknownFilter.
Inductive gs_value :=
| GsFieldValue               (* the stored value (through Field.__serialize__, the identity for the modelled fields) *)
| GsUnknownValue.

Record state_policy := { sp_fields : gs_fields; sp_filter : gs_filter; sp_value : gs_value }.

(* what the code does on the pinned tree *)
Definition state_policy_today : state_policy :=
  {| sp_fields := GsAllFields; sp_filter := GsInDict; sp_value := GsFieldValue |}.

Definition is_declared (c : classdef) (k : pystr) : bool :=
  match find_field (c_fields c) k with Some _ => true | None => false end.

(* pickle.loads(pickle.dumps(x)): the default __setstate__ stores the state into a fresh __dict__.
   None: a __getstate__ the generator could not read. *)
Definition pickle_rt_pol (sp : state_policy) (c : classdef) (x : inst) : option inst :=
  match sp_fields sp, sp_value sp with
  | GsAllFields, GsFieldValue =>
      match sp_filter sp with
      | GsInDict =>
          Some {| i_cls := i_cls x;
                  i_attrs := filter (fun p => is_declared c (fst p)) (i_attrs x);
                  i_nones := None; i_live := false |}
      | GsTruthy =>
          Some {| i_cls := i_cls x;
                  i_attrs := filter (fun p => is_declared c (fst p) && py_truthy (snd p)) (i_attrs x);
                  i_nones := None; i_live := false |}
      | GsNoFilter | GsUnknownFilter => None
      end
  | _, _ => None
  end.

Definition state_policy_safe (sp : state_policy) : bool :=
  match sp_fields sp, sp_filter sp, sp_value sp with
  | GsAllFields, GsInDict, GsFieldValue => true
  | _, _, _ => false
  end.
