(* Bridging theorems for the INTAKE sites: the GENERATED translations Gen/AliasIntakeSrc.v
   (harness/genmods/py2v_alias_intake.py, from the current source of Field.__set__, extract_field_value and the
   __set__ of the collection fields) on the identity heap of Struct/CopyHeap.v: for every heap and every value,
   what an instance ends up holding is a FRESHLY allocated object exactly where the hand model AliasIntake says
   "rebuilt / wrapped / deep-copied", and the caller's own object where it says "retained".

   Python-level views of the model-level descriptions:
     a Field instance    [fself fimm custom nm items u ad]: `_immutable`, `_custom_deep_copy_implementation`, `_name`,
                         `items` (None, one item Field [item_field f n], or a list of them), uniqueItems, additionalItems
     the owning instance [iself i iimm dp inst]: identity, `_immutable` (an ImmutableStructure), `_disable_protection`,
                         `_instantiated`; it neither trusts supplied values nor skips validation
     the value           AV c: an atom or the caller's object at a heap location
   [recf f]: what the __set__ chain of item Field #f stores for an element (AliasIntake.pos at the item type);
   [CK]: the pure validations. *)
From Coq Require Import ZArith NArith Bool List Arith String Lia.
Import ListNotations.
From TP Require Import Base.PyVal Struct.CopyHeap Base.PyOpsAlias Base.PyOpsAliasIntake Gen.AliasSrc Gen.AliasIntakeSrc
     Struct.AliasSrcProofs Struct.CopyHeapProofs.
From TP Require Base.PyOpsCollections.

Definition item_field (f : nat) (n : pystr) : aval := AObj [(fid_key, AId (Some f)); (name_key, astr n)].

Definition fself (fimm custom : bool) (nm : pystr) (items u ad : aval) : aval :=
  AObj [(s2p "_immutable", abool fimm); (s2p "_custom_deep_copy_implementation", abool custom);
        (s2p "_name", astr nm); (s2p "items", items); (s2p "uniqueItems", u); (s2p "additionalItems", ad)].

Definition iattrs (i : option loc) (iimm dp inst : bool) : list (pystr * aval) :=
  [(id_key, AId i); (s2p "_immutable", abool iimm); (s2p "_disable_protection", abool dp);
   (s2p "_instantiated", abool inst)].
Definition iself (i : option loc) (iimm dp inst : bool) : aval := AObj (iattrs i iimm dp inst).

Ltac mset := cbn [alist_set pystr_eqb N.eqb Pos.eqb andb].
Ltac mred :=
  repeat (unfold mbind, mret, a_getattr, a_getattr_def, a_getattr_dyn, a_setattr_dyn, m_and, m_or, m_not, m_boolval, m_or_val, m_and_val, a_is_none, a_is_false, a_try_reraise; cbn beta iota;
          cbn [a_unpair a_getattr a_getattr_def a_lookup a_str a_add a_setattr a_setattr_path a_field_set a_getattr_dyn
               a_name_of a_append a_truthy a_isinstance2 a_isinstance a_deepcopy a_try_reraise a_to_child a_is_field a_is_false a_cmp a_len a_call_class a_new_empty
               a_iterate a_iterate2 a_finish_new alloc a_id a_memo_get existsb kind_isinstance orb plain_kind a_setitem a_subscript
               item_field fself iself iattrs astr aint abool anone
               alist_get alist_set pystr_eqb N.eqb Pos.eqb andb negb fst snd py_truthy
               fid_key name_key id_key body_key immutable_key s2p map list_ascii_of_string Ascii.N_of_ascii
               Ascii.N_of_digits N.add N.mul Pos.add Pos.mul Pos.succ N.double]).

(* ------------------------------------------------------------------ extract_field_value *)

Definition elem_name (nm : pystr) (i : Z) : pystr := (nm ++ (s2p "_" ++ PyOpsCollections.Z_to_pystr i))%list.

Section Extract.
  Variables (E : aenv) (CK : checks) (recf : nat -> heap -> child -> res (heap * child)).
  Variables (rec : heap -> child -> res (heap * child)) (sup : aval -> aval -> aval -> M aval).
  Variables (fimm custom : bool) (nm : pystr) (f : nat) (u ad : aval).

  Let self (n : pystr) := fself fimm custom nm (item_field f n) u ad.

  (* one round of the loop: set the item field's name, run its __set__ on the scratch, read the stored value back *)
  Definition step_spec (F : aval * aval * aval -> aval -> M (aval * aval * aval)) : Prop :=
    forall i c acc n sa h,
      F (self n, ATmp KList acc, AObj sa) (APair (aint i) (AV c)) h =
      match recf f h c with
      | Ok (h1, c1) => Ok (h1, (self (elem_name nm i), ATmp KList (acc ++ [(([] : pystr), c1)]),
                                AObj (alist_set sa (elem_name nm i) (AV c1))))
      | Raise e => Raise e
      end.

  Lemma extract_fold F : step_spec F ->
    forall kids i acc n sa h,
      match map_kidsR (recf f) h (unlabel kids) with
      | Ok (h1, ks) => exists n' sa',
          a_fold F (enum_thunks (map (fun p : pystr * child => mret (AV (snd p))) kids) i) (self n, ATmp KList acc, AObj sa) h =
          Ok (h1, (self n', ATmp KList (acc ++ ks), AObj sa'))
      | Raise e =>
          a_fold F (enum_thunks (map (fun p : pystr * child => mret (AV (snd p))) kids) i) (self n, ATmp KList acc, AObj sa) h = Raise e
      end.
  Proof.
    intro SP. induction kids as [|[k c] t IH]; intros i acc n sa h.
    - cbn. exists n, sa. rewrite app_nil_r. reflexivity.
    - assert (H1 : forall A, a_fold F (enum_thunks (map (fun p : pystr * child => mret (AV (snd p))) ((k, c) :: t)) i) A h =
                      match F A (APair (aint i) (AV c)) h with
                      | Ok (h1, a1) => a_fold F (enum_thunks (map (fun p : pystr * child => mret (AV (snd p))) t) (Z.succ i)) a1 h1
                      | Raise e => Raise e
                      end) by reflexivity.
      rewrite H1. rewrite SP. cbn [unlabel map snd map_kidsR].
      destruct (recf f h c) as [[h1 c1]|e]; [| reflexivity].
      specialize (IH (Z.succ i) (acc ++ [([], c1)]) (elem_name nm i) (alist_set sa (elem_name nm i) (AV c1)) h1).
      fold (unlabel t). destruct (map_kidsR (recf f) h1 (unlabel t)) as [[h2 ks]|e]; cbn beta iota.
      + destruct IH as [n' [sa' IH]]. exists n', sa'.
        etransitivity; [exact IH |]. rewrite <- app_assoc. reflexivity.
      + exact IH.
  Qed.

  (* extract_field_value(self=<a collection field with ONE item field>, value=<the caller's plain list>, cls=list):
     a NEW list holding, for each element in order, what the item field's own __set__ stores *)
  Theorem src_extract_field_value l h o n0 :
    get h l = Some o -> o_kind o = KList ->
    Src_extract_field_value E CK recf rec sup (self n0) (AV (CRef l)) (AClass KList) h =
    lift_kids (map_kidsR (recf f) h (unlabel (o_kids o))) (fun h1 ks => Ok (h1, ATmp KList ks)).
  Proof.
    intros G K. unfold Src_extract_field_value. unfold self. mred.
    unfold a_iterate2, a_iterate. mred. unfold kind_of, a_kids. repeat (rewrite G; mred). rewrite K. repeat (rewrite G; mred).
    match goal with |- context [a_fold ?F ?T ?A ?H] =>
      assert (SP : step_spec F);
      [| pose proof (extract_fold F SP (o_kids o) 0%Z [] nm [] h) as X;
         destruct (map_kidsR (recf f) h (unlabel (o_kids o))) as [[h1 ks]|e];
         [ destruct X as [n' [sa' X]];
           replace (a_fold F T A H) with (Ok (h1, (fself fimm custom nm (item_field f n') u ad, ATmp KList ([] ++ ks), AObj sa')) : res (heap * (aval * aval * aval)))
             by (symmetry; exact X); reflexivity
         | replace (a_fold F T A H) with (Raise e : res (heap * (aval * aval * aval))) by (symmetry; exact X); reflexivity ] ]
    end.
    intros i c acc n sa h'. unfold self. mred.
    destruct (recf f h' c) as [[h1 c1]|e]; [| reflexivity]. mred.
    rewrite PyOpsCollections.alist_get_set_same. reflexivity.
  Qed.
End Extract.

(* ------------------------------------------------------------------ Field.__set__ *)

Definition set_exempt_tys : list tyname := [TInt; TFloat; TStr; TBool; TEnum; TImmStructure].
Definition checks_pass (CK : checks) : Prop := forall n a h, CK n a h = None.
Definition uniq_off (E : aenv) : Prop := e_defaults E (s2p "uniqueness_features_enabled") = Some (PBool false).

(* the instance a descriptor is invoked on, during construction: it neither trusts supplied values nor is it
   instantiated yet (no __validate__ round) *)
Definition constructing (ia : list (pystr * aval)) : Prop :=
  alist_get ia (s2p "_trust_supplied_values") = None /\ alist_get ia (s2p "_instantiated") = None.

Ltac norm H := cbn [s2p map list_ascii_of_string Ascii.N_of_ascii Ascii.N_of_digits N.add N.mul Pos.add Pos.mul Pos.succ N.double] in H.

Section FieldSet.
  Variables (E : aenv) (CK : checks) (recf : nat -> heap -> child -> res (heap * child)).
  Variables (rec : heap -> child -> res (heap * child)) (sup : aval -> aval -> aval -> M aval).
  Variables (nm : pystr) (items u ad : aval) (ia : list (pystr * aval)).
  Hypothesis CKP : checks_pass CK.
  Hypothesis UO : uniq_off E.
  Hypothesis CO : constructing ia.

  Lemma a_check_pass n a h : a_check CK n a h = Ok (h, anone).
  Proof. unfold a_check. rewrite CKP. reflexivity. Qed.

  Lemma defaults_uniq h : a_defaults E (s2p "uniqueness_features_enabled") h = Ok (h, abool false).
  Proof. unfold a_defaults. rewrite UO. reflexivity. Qed.

  (* a field that is not declared immutable (or a Map: _custom_deep_copy_implementation) stores the value it is
     handed AS IT IS: an untyped position keeps the caller's object, a collection field the wrapper it built *)
  Theorem src_field_set_plain fimm custom v h :
    fimm && negb custom = false -> (fimm = true -> alist_get ia nm = None) ->
    pystr_eqb nm (s2p "_instantiated") = false ->
    Src_Field_set E CK recf rec sup (fself fimm custom nm items u ad) (AObj ia) v h =
    Ok (h, AObj (alist_set ia nm v)).
  Proof.
    intros F NI NN. destruct CO as [T I].
    pose proof (PyOpsCollections.alist_get_set_other ia nm (s2p "_instantiated") v NN) as I2. rewrite I in I2.
    norm T. norm I. norm I2. unfold Src_Field_set.
    pose proof defaults_uniq as DU. norm DU.
    destruct fimm; [destruct custom; [| discriminate F] |].
    - specialize (NI eq_refl). mred. unfold a_in_dict. mred. rewrite NI.
      repeat (first [rewrite T | rewrite I2 | rewrite I | rewrite DU]; mred). reflexivity.
    - mred. repeat (first [rewrite T | rewrite I2 | rewrite I | rewrite DU]; mred). reflexivity.
  Qed.

  (* a field declared immutable (ImmutableField mixin): what the instance keeps of a value that is not a wrapper is
     a DEEP COPY of it -- a new object graph in the extended heap -- unless the value is of one of the exempt
     (deeply immutable) types; a tuple is NOT exempt here.  Dropping the deepcopy breaks this. *)
  Theorem src_field_set_immutable c h :
    alist_get ia nm = None -> pystr_eqb nm (s2p "_instantiated") = false ->
    child_isinstance h c [TImmMixin] = false ->
    Src_Field_set E CK recf rec sup (fself true false nm items u ad) (AObj ia) (AV c) h =
    if child_isinstance h c set_exempt_tys then Ok (h, AObj (alist_set ia nm (AV c)))
    else match rec h c with
         | Ok (h1, c1) => Ok (h1, AObj (alist_set ia nm (AV c1)))
         | Raise e => Raise (if exn_eqb e TypeError then TypeError else e)
         end.
  Proof.
    intros NI NN W. destruct CO as [T I].
    assert (I2 : forall x, alist_get (alist_set ia nm x) (s2p "_instantiated") = None).
    { intro x. rewrite (PyOpsCollections.alist_get_set_other ia nm (s2p "_instantiated") x NN). exact I. }
    norm T. norm I. norm I2. unfold Src_Field_set. unfold set_exempt_tys.
    mred. unfold a_in_dict. mred. rewrite NI. repeat (first [rewrite T | rewrite I]; mred).
    destruct (child_isinstance h c [TInt; TFloat; TStr; TBool; TEnum; TImmStructure]) eqn:X; mred.
    - destruct c as [v|l]; [destruct v; try (cbn in X; discriminate X) |]; mred; rewrite ?I2; mred; reflexivity.
    - rewrite W. mred.
      destruct (rec h c) as [[h1 c1]|e]; mred.
      + rewrite I2. mred. reflexivity.
      + cbn [existsb orb]. destruct (exn_eqb e TypeError); reflexivity.
  Qed.
End FieldSet.

(* ------------------------------------------------------------------ Array.__set__ / Map.__set__: the whole intake *)

Lemma run_plain_thunks' kids h :
  run_thunks (map (fun (p : pystr * child) (h0 : heap) => Ok (h0, AV (snd p))) kids) h = Ok (h, map (fun p => AV (snd p)) kids).
Proof. exact (run_plain_thunks kids h). Qed.

(* the owner is a plain (mutable) Structure under construction *)
Definition plain_owner (ia : list (pystr * aval)) : Prop :=
  constructing ia /\ alist_get ia (s2p "_immutable") = None.

(* _ListStruct(field, instance, <the rebuilt list>, name) for a field not declared immutable and a plain owner: the
   new wrapper's body holds the items of the list *)
Lemma list_init_plain E rec rest ia nmv ks h :
  alist_get ia (s2p "_immutable") = None ->
  Src_ListStruct_init E rec (AObj []) (AObj ((s2p "_immutable", abool false) :: rest)) (AObj ia) (ATmp KList ks) nmv h =
  Ok (h, AObj ((body_key, ATmp KWList (unlabel ks)) ::
               wattrs (AObj ((s2p "_immutable", abool false) :: rest)) (AObj ia) nmv)).
Proof.
  intro IM. norm IM.
  unfold Src_ListStruct_init, Src_ImmutableMixin_get_defensive_copy_if_needed, Src_ImmutableMixin_is_immutable.
  mred. rewrite IM. mred. unfold a_super_init. mred. rewrite run_plain_thunks'. mred. rewrite as_kids_plain. reflexivity.
Qed.

(* ... and from the caller's own plain list (an untyped Array hands it to the wrapper as it is): the body holds the
   caller's ITEMS (a one-level copy: AliasSites s_liststruct_init = Copies), not the caller's list *)
Lemma list_init_plain_ref E rec rest ia nmv l h o :
  alist_get ia (s2p "_immutable") = None -> get h l = Some o -> o_kind o = KList ->
  Src_ListStruct_init E rec (AObj []) (AObj ((s2p "_immutable", abool false) :: rest)) (AObj ia) (AV (CRef l)) nmv h =
  Ok (h, AObj ((body_key, ATmp KWList (unlabel (o_kids o))) ::
               wattrs (AObj ((s2p "_immutable", abool false) :: rest)) (AObj ia) nmv)).
Proof.
  intros IM G K. norm IM.
  unfold Src_ListStruct_init, Src_ImmutableMixin_get_defensive_copy_if_needed, Src_ImmutableMixin_is_immutable.
  mred. unfold child_isinstance. repeat (first [rewrite G | rewrite K | progress cbn [existsb kind_isinstance orb negb] | progress mred]). rewrite IM. mred.
  unfold a_super_init. mred. unfold kind_of, a_kids. repeat (rewrite G; mred). rewrite K. repeat (rewrite G; mred).
  rewrite run_plain_thunks'. mred. rewrite as_kids_plain. reflexivity.
Qed.

Section ArraySet.
  Variables (E : aenv) (CK : checks) (recf : nat -> heap -> child -> res (heap * child)).
  Variables (rec : heap -> child -> res (heap * child)) (sup0 : aval -> aval -> aval -> M aval).
  Variables (nm : pystr) (u ad : aval) (ia : list (pystr * aval)).
  Hypothesis CKP : checks_pass CK.
  Hypothesis UO : uniq_off E.
  Hypothesis PO : plain_owner ia.
  Hypothesis NN : pystr_eqb nm (s2p "_instantiated") = false.

  (* Array[item field #f].__set__(instance, <the caller's plain list l>), the field not declared immutable, a plain
     owner, the validations passing: the instance ends up holding a NEW _ListStruct -- allocated at the end of the
     heap, after everything the item field allocated -- whose items are what the item field's own __set__ stored
     for each element, in order.  The caller's list l is neither stored nor written (the heap is only extended by
     [recf] and by the one allocation). *)
  Theorem src_array_set_typed f n0 l h o :
    get h l = Some o -> o_kind o = KList ->
    Src_Array_set E CK recf rec (Src_Field_set E CK recf rec sup0)
                  (fself false false nm (item_field f n0) u ad) (AObj ia) (AV (CRef l)) h =
    lift_kids (map_kidsR (recf f) h (unlabel (o_kids o)))
      (fun h1 ks => Ok (h1 ++ [{| o_kind := KWList; o_kids := unlabel ks |}],
                        AObj (alist_set ia nm (AV (CRef (List.length h1)))))).
  Proof.
    intros G K. destruct PO as [[T I] IM]. pose proof T as T'. norm T'.
    assert (CP : forall n a h, a_check CK n a h = Ok (h, anone)) by (intros; unfold a_check; rewrite CKP; reflexivity).
    unfold Src_Array_set. mred. rewrite T'. mred. repeat (rewrite CP; mred).
    rewrite (src_extract_field_value E CK recf rec (Src_Field_set E CK recf rec sup0) false false nm f u ad l h o n0 G K).
    destruct (map_kidsR (recf f) h (unlabel (o_kids o))) as [[h1 ks]|e]; [| reflexivity].
    cbn [lift_kids]. mred.
    unfold fself. rewrite (list_init_plain E rec _ ia _ ks _ IM). mred. unfold wattrs. mred.
    fold (fself false false nm (item_field f n0) u ad).
    rewrite (src_field_set_plain E CK recf rec sup0 nm (item_field f n0) u ad ia UO (conj T I) false false _ _
               eq_refl (fun X => match Bool.diff_false_true X with end) NN).
    reflexivity.
  Qed.

  (* Array (no item field).__set__(instance, <the caller's plain list l>): a NEW _ListStruct (the one allocation)
     holding the caller's items themselves -- the elements are shared (AliasIntake.pos at TArray None: any_reach xs),
     the list is not *)
  Theorem src_array_set_untyped l h o :
    get h l = Some o -> o_kind o = KList ->
    Src_Array_set E CK recf rec (Src_Field_set E CK recf rec sup0)
                  (fself false false nm anone u ad) (AObj ia) (AV (CRef l)) h =
    Ok (h ++ [{| o_kind := KWList; o_kids := unlabel (o_kids o) |}],
        AObj (alist_set ia nm (AV (CRef (List.length h))))).
  Proof.
    intros G K. destruct PO as [[T I] IM]. pose proof T as T'. norm T'.
    assert (CP : forall n a h, a_check CK n a h = Ok (h, anone)) by (intros; unfold a_check; rewrite CKP; reflexivity).
    unfold Src_Array_set. mred. rewrite T'. mred. repeat (rewrite CP; mred).
    unfold fself. rewrite (list_init_plain_ref E rec _ ia _ l h o IM G K). mred. unfold wattrs. mred.
    fold (fself false false nm anone u ad).
    rewrite (src_field_set_plain E CK recf rec sup0 nm anone u ad ia UO (conj T I) false false _ _
               eq_refl (fun X => match Bool.diff_false_true X with end) NN).
    reflexivity.
  Qed.
End ArraySet.

(* a __set__ chain / a copy only EXTENDS the heap (every typedpy intake does: CopyHeapProofs.Step for deepcopy) *)
Definition extends (g : heap -> child -> res (heap * child)) : Prop :=
  forall h c h' c', g h c = Ok (h', c') -> exists e, h' = h ++ e.

Lemma map_kidsR_extends g : extends g ->
  forall kids h h' ks, map_kidsR g h kids = Ok (h', ks) -> exists e, h' = h ++ e.
Proof.
  intro X. induction kids as [|[k c] t IH]; intros h h' ks H.
  - inversion H. exists []. symmetry. apply app_nil_r.
  - cbn [map_kidsR] in H. destruct (g h c) as [[h1 c1]|e] eqn:G1; [| discriminate H].
    destruct (map_kidsR g h1 t) as [[h2 t2]|e] eqn:M; [| discriminate H]. inversion H; subst.
    destruct (X _ _ _ _ G1) as [e1 E1]. destruct (IH _ _ _ M) as [e2 E2]. exists (e1 ++ e2). subst. rewrite app_assoc. reflexivity.
Qed.

(* The typed Array intake in the terms of the separation model (CopyHeap): when the item field's chain only extends
   the heap, the object the instance holds is a location that did not exist before the call (so it is not the
   caller's list, nor anything the caller could reach), it is a _ListStruct over the item field's outputs, and the
   caller's list is still what it was. *)
Corollary src_array_set_typed_fresh E CK recf rec sup0 nm u ad ia f n0 l h o :
  checks_pass CK -> uniq_off E -> plain_owner ia -> pystr_eqb nm (s2p "_instantiated") = false ->
  extends (recf f) -> get h l = Some o -> o_kind o = KList ->
  forall hf inst', 
    Src_Array_set E CK recf rec (Src_Field_set E CK recf rec sup0)
                  (fself false false nm (item_field f n0) u ad) (AObj ia) (AV (CRef l)) h = Ok (hf, inst') ->
    exists w ks, inst' = AObj (alist_set ia nm (AV (CRef w))) /\ List.length h <= w /\
                 get hf w = Some {| o_kind := KWList; o_kids := ks |} /\
                 (exists h1, map_kidsR (recf f) h (unlabel (o_kids o)) = Ok (h1, ks)) /\
                 get hf l = Some o.
Proof.
  intros CKP UO PO NN X G K hf inst' R.
  rewrite (src_array_set_typed E CK recf rec sup0 nm u ad ia CKP UO PO NN f n0 l h o G K) in R.
  destruct (map_kidsR (recf f) h (unlabel (o_kids o))) as [[h1 ks]|e] eqn:M; [| discriminate R].
  cbn [lift_kids] in R. inversion R; subst hf inst'. clear R.
  destruct (map_kidsR_extends _ X _ _ _ _ M) as [e E1].
  exists (List.length h1), ks. repeat split.
  - subst h1. rewrite app_length. lia.
  - rewrite (map_kidsR_unlabel (recf f) _ _ _ _ M). apply get_app_new.
  - exists h1. reflexivity.
  - subst h1. rewrite <- app_assoc. rewrite get_app_old; [exact G | exact (get_lt _ _ _ G)].
Qed.

(* ------------------------------------------------------------------ the whole intake of an Array, on a sample
   (kernel-evaluated regression of the composition Array.__set__ -> extract_field_value -> _ListStruct(...) ->
   Field.__set__; the universally quantified statements are the theorems above and Struct/AliasSrcProofs.v) *)

Definition ex_E : aenv :=
  {| e_wattrs := fun _ => None; e_iattr := fun _ _ => None;
     e_defaults := fun n => if pystr_eqb n (s2p "uniqueness_features_enabled") then Some (PBool false) else Some (PBool true) |}.
Definition ex_CK : checks := fun _ _ _ => None.
(* the item field "stores a fresh 1-tuple around the element": makes the rebuild visible *)
Definition ex_recf : nat -> heap -> child -> res (heap * child) :=
  fun _ h c => Ok (alloc h {| o_kind := KTuple; o_kids := [(([] : pystr), c)] |}).
Definition ex_rec : heap -> child -> res (heap * child) := fun h c => Raise Unmodelled.
Definition ex_h : heap :=
  [ {| o_kind := KList; o_kids := [(([] : pystr), CAtom (PNum (NInt 7))); (([] : pystr), CRef 1)] |};
    {| o_kind := KList; o_kids := [] |} ].
Definition ex_field (items : aval) : aval := fself false false (s2p "a") items anone anone.
Definition ex_sup := Src_Field_set ex_E ex_CK ex_recf ex_rec (fun _ _ _ => mraise Unmodelled).

(* typed Array: the instance holds a NEW wrapper (location 4) over the REBUILT elements (2, 3); the caller's list 0 is
   neither stored nor changed *)
Example array_intake_typed :
  Src_Array_set ex_E ex_CK ex_recf ex_rec ex_sup (ex_field (item_field 0 (s2p "x"))) (AObj []) (AV (CRef 0)) ex_h =
  Ok (ex_h ++ [ {| o_kind := KTuple; o_kids := [(([] : pystr), CAtom (PNum (NInt 7)))] |};
                {| o_kind := KTuple; o_kids := [(([] : pystr), CRef 1)] |};
                {| o_kind := KWList; o_kids := [(([] : pystr), CRef 2); (([] : pystr), CRef 3)] |} ],
      AObj [(s2p "a", AV (CRef 4))]).
Proof. vm_compute. reflexivity. Qed.

(* untyped Array (items = None): a NEW wrapper (location 2) holding the caller's elements themselves (CRef 1 is shared:
   the model's TArray None retains the elements, not the list) *)
Example array_intake_untyped :
  Src_Array_set ex_E ex_CK ex_recf ex_rec ex_sup (ex_field anone) (AObj []) (AV (CRef 0)) ex_h =
  Ok (ex_h ++ [ {| o_kind := KWList; o_kids := [(([] : pystr), CAtom (PNum (NInt 7))); (([] : pystr), CRef 1)] |} ],
      AObj [(s2p "a", AV (CRef 2))]).
Proof. vm_compute. reflexivity. Qed.

Definition ex_hs : heap :=
  [ {| o_kind := KSet; o_kids := [(([] : pystr), CAtom (PNum (NInt 7))); (([] : pystr), CAtom (PNum (NInt 8)))] |};
    {| o_kind := KDict; o_kids := [(([] : pystr), CAtom (PStr (s2p "k"))); (([] : pystr), CRef 0)] |} ].

(* typed Set: a NEW set (location 4) of the rebuilt elements is stored *)
Example set_intake_typed :
  Src_Set_set ex_E ex_CK ex_recf ex_rec ex_sup (ex_field (item_field 0 (s2p "x"))) (AObj []) (AV (CRef 0)) ex_hs =
  Ok (ex_hs ++ [ {| o_kind := KTuple; o_kids := [(([] : pystr), CAtom (PNum (NInt 7)))] |};
                 {| o_kind := KTuple; o_kids := [(([] : pystr), CAtom (PNum (NInt 8)))] |};
                 {| o_kind := KSet; o_kids := [(([] : pystr), CRef 2); (([] : pystr), CRef 3)] |} ],
      AObj [(s2p "a", AV (CRef 4))]).
Proof. vm_compute. reflexivity. Qed.

(* untyped Set: the CALLER'S OWN set (location 0) is stored, the heap is unchanged -- the sharing the hand model
   predicts (AliasIntake.pos, TSet false: "the caller's set itself is stored") *)
Example set_intake_untyped_retains :
  Src_Set_set ex_E ex_CK ex_recf ex_rec ex_sup (ex_field anone) (AObj []) (AV (CRef 0)) ex_hs =
  Ok (ex_hs, AObj [(s2p "a", AV (CRef 0))]).
Proof. vm_compute. reflexivity. Qed.

(* typed Map: a NEW _DictStruct (location 4) over the rebuilt key / value *)
Example map_intake_typed :
  Src_Map_set ex_E ex_CK ex_recf ex_rec ex_sup
     (ex_field (AList [item_field 0 (s2p "k"); item_field 1 (s2p "v")])) (AObj []) (AV (CRef 1)) ex_hs =
  Ok (ex_hs ++ [ {| o_kind := KTuple; o_kids := [(([] : pystr), CAtom (PStr (s2p "k")))] |};
                 {| o_kind := KTuple; o_kids := [(([] : pystr), CRef 0)] |};
                 {| o_kind := KWDict; o_kids := [(([] : pystr), CRef 2); (([] : pystr), CRef 3)] |} ],
      AObj [(s2p "a", AV (CRef 4))]).
Proof. vm_compute. reflexivity. Qed.

Print Assumptions src_extract_field_value.
Print Assumptions src_field_set_plain.
Print Assumptions src_field_set_immutable.
Print Assumptions array_intake_typed.
Print Assumptions array_intake_untyped.
Print Assumptions set_intake_typed.
Print Assumptions set_intake_untyped_retains.
Print Assumptions map_intake_typed.
Print Assumptions src_array_set_typed.
Print Assumptions src_array_set_untyped.
Print Assumptions src_array_set_typed_fresh.
