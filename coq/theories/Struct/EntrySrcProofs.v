(* The tie between the GENERATED entry points (Gen/EntrySrc.v: what shallow_clone_with_overrides, cast_to and
   from_other_class of typedpy/structures/structures.py say NOW) and the entry-point model of Struct/Entry.v that the
   C01 soundness theorems (entry_sound, chain_sound, entry_sites_sound) quantify over: each entry point DELEGATES to the
   validating constructor of the right class ([w_new] = Struct/Instance.v [construct]) with exactly the keyword
   arguments the model computes from the current instance.  Views: Struct/EntrySrcModel.v. *)
From Coq Require Import ZArith QArith NArith String Ascii Bool Lia List.
Import ListNotations.
From TP Require Import Base.PyVal Base.PyOps Base.PyOps2 Base.PyObj Base.PyOpsInit
     Fields.FieldAst Fields.SetChain Struct.Shapes Struct.Instance Struct.Entry Struct.InitModel Struct.EntrySrcModel
     Struct.InstanceProofs Struct.StructGuardProofs Struct.InitSrcProofs Gen.EntrySrc.
From TP Require Base.PyOpsVersioned Base.PyOpsFields Base.PyOpsDerive.
Local Open Scope Z_scope.

(* ------------------------------------------------------------------ the instance __dict__ *)
Lemma alist_get_app {A} (a t : list (pystr * A)) k :
  alist_get (a ++ t) k = match alist_get a k with Some v => Some v | None => alist_get t k end.
Proof.
  induction a as [|[k' v] r IH]; [reflexivity|]. cbn [app alist_get]. destruct (pystr_eqb k' k); [reflexivity|exact IH].
Qed.

Lemma state_get a k : internal k = false -> alist_get (inst_state a) k = alist_get a k.
Proof.
  intro H. unfold inst_state. rewrite alist_get_app. destruct (alist_get a k); [reflexivity|].
  unfold internal in H. apply orb_false_iff in H. destruct H as [H1 H2].
  cbn [alist_get]. rewrite (peqb_sym n_none_fields k), H2, (peqb_sym n_instantiated k), H1. reflexivity.
Qed.

Lemma attr_ok_plain n : attr_name_ok n = true -> plain n = true.
Proof. unfold attr_name_ok. intro H. apply andb_true_iff in H. destruct H as [H _]. apply andb_true_iff in H. tauto. Qed.

Definition names_ok (a : attrs) : bool := forallb (fun p => attr_name_ok (fst p)) a.

(* a name that no attribute of the model may have is not in __dict__ *)
Lemma state_get_reserved a n :
  names_ok a = true -> attr_name_ok n = false -> internal n = false -> alist_get (inst_state a) n = None.
Proof.
  intros Ha Hn Hi. rewrite state_get by exact Hi.
  induction a as [|[k v] t IH]; [reflexivity|].
  cbn [names_ok forallb fst] in Ha. apply andb_true_iff in Ha. destruct Ha as [H1 H2].
  cbn [alist_get]. destruct (pystr_eqb k n) eqn:E; [|exact (IH H2)].
  apply pystr_eqb_spec in E. subst k. congruence.
Qed.

Lemma alist_has_keys2 {A} (a : list (pystr * A)) n : alist_has a n = str_in n (map fst a).
Proof.
  unfold alist_has, str_in. induction a as [|[k x] t IH]; [reflexivity|].
  cbn [map fst existsb alist_get]. rewrite (peqb_sym n k). destruct (pystr_eqb k n); [reflexivity|exact IH].
Qed.

(* ------------------------------------------------------------------ dictionaries *)
Lemma dict_set_fresh kv k v : dict_get kv k = None -> dict_set kv k v = kv ++ [(k, v)].
Proof.
  induction kv as [|[k' v'] t IH]; intro H; [reflexivity|]. cbn [dict_get] in H. cbn [dict_set app].
  destruct (py_eq k' k); [discriminate H|]. f_equal. apply IH, H.
Qed.

Lemma dict_get_pairs_none l n : alist_get l n = None -> dict_get (pairs l) (PStr n) = None.
Proof. intro H. rewrite dict_get_pairs. exact H. Qed.

Lemma alist_get_none_notin {A} (l : list (pystr * A)) n : str_in n (map fst l) = false -> alist_get l n = None.
Proof.
  induction l as [|[k v] t IH]; intro H; [reflexivity|]. cbn [map fst str_in existsb] in H.
  apply orb_false_iff in H. destruct H as [H1 H2]. cbn [alist_get]. rewrite (peqb_sym k n), H1. apply IH, H2.
Qed.

Lemma dict_build_pairs : forall (l acc : kwargs),
    has_dup (map fst l) = false -> (forall p, In p l -> alist_get acc (fst p) = None) ->
    PyOpsFields.dict_build (pairs acc) (pairs l) = Ok (pairs (acc ++ l)).
Proof.
  induction l as [|[n v] t IH]; intros acc Hd Ha.
  - cbn. rewrite app_nil_r. reflexivity.
  - cbn [map fst has_dup] in Hd. apply orb_false_iff in Hd. destruct Hd as [Hd1 Hd2].
    cbn [pairs map PyOpsFields.dict_build py_hashable' fst snd]. fold (pairs t).
    rewrite dict_set_fresh by (apply dict_get_pairs_none, (Ha (n, v)); left; reflexivity).
    change (pairs acc ++ [(PStr n, v)]) with (pairs acc ++ pairs [(n, v)]).
    unfold pairs at 1 2. rewrite <- map_app. fold (pairs (acc ++ [(n, v)])).
    rewrite IH; [rewrite <- app_assoc; reflexivity | exact Hd2 |].
    intros p Hp. rewrite alist_get_app. rewrite (Ha p (or_intror Hp)). cbn [alist_get].
    destruct (pystr_eqb n (fst p)) eqn:E; [|reflexivity].
    apply pystr_eqb_spec in E. subst n. exfalso.
    assert (str_in (fst p) (map fst t) = true) by (apply str_in_In, in_map, Hp). congruence.
Qed.

Lemma dict_of_pairs l : has_dup (map fst l) = false -> PyOpsFields.py_dict_of (pairs l) = Ok (PDict (pairs l)).
Proof.
  intro H. unfold PyOpsFields.py_dict_of. change (@nil (pyval * pyval)) with (pairs []).
  rewrite (dict_build_pairs l [] H (fun _ _ => eq_refl)). reflexivity.
Qed.

(* ------------------------------------------------------------------ comprehensions *)
Definition olist {A} (o : option A) : list A := match o with Some x => [x] | None => [] end.
Definition ppair (p : pystr * pyval) : pyval * pyval := (PStr (fst p), snd p).

Lemma filterMM_names (f : pyval -> M (option (pyval * pyval))) (g : pystr -> option (pystr * pyval)) s : forall ks,
    (forall k, In k ks -> f (PStr k) s = (s, inl (option_map ppair (g k)))) ->
    filterMM f (map PStr ks) s = (s, inl (pairs (flat_map (fun k => olist (g k)) ks))).
Proof.
  induction ks as [|k t IH]; intro H; [reflexivity|].
  cbn [map filterMM flat_map]. rewrite (bindM_ok _ _ _ _ _ (H k (or_introl eq_refl))).
  rewrite (bindM_ok _ _ _ _ _ (IH (fun k' Hk => H k' (or_intror Hk)))).
  unfold pairs. rewrite map_app. destruct (g k); reflexivity.
Qed.

Definition undef_filter : pyval * pyval -> M (option (pyval * pyval)) :=
  fun '(k, v) => (c <~ (ret (negb (is_global v (s2p "Undefined")))) ;; if c then (ret (Some (k, v))) else ret None).

Lemma undef_filter_id s : forall l : kwargs,
    forallb (fun p => negb (undefined_ref (snd p))) l = true -> filterMM undef_filter (pairs l) s = (s, inl (pairs l)).
Proof.
  induction l as [|[n v] t IH]; intro H; [reflexivity|].
  cbn [forallb snd] in H. apply andb_true_iff in H. destruct H as [H1 H2]. unfold undefined_ref in H1.
  cbn [pairs map filterMM fst snd]. fold (pairs t).
  assert (E : undef_filter (PStr n, v) s = (s, inl (Some (PStr n, v)))).
  { unfold undef_filter. unfold bindM, ret. rewrite H1. reflexivity. }
  rewrite (bindM_ok _ _ _ _ _ E). rewrite (bindM_ok _ _ _ _ _ (IH H2)). reflexivity.
Qed.

Lemma andM_eval (X : M bool) (Y : unit -> M bool) s b b' :
  X s = (s, inl b) -> Y tt s = (s, inl b') -> andM X Y s = (s, inl (b && b')).
Proof. intros HX HY. unfold andM. rewrite (bindM_ok _ _ _ _ _ HX). destruct b; [exact HY|reflexivity]. Qed.

Lemma orM_eval (X : M bool) (Y : unit -> M bool) s b b' :
  X s = (s, inl b) -> Y tt s = (s, inl b') -> orM X Y s = (s, inl (b || b')).
Proof. intros HX HY. unfold orM. rewrite (bindM_ok _ _ _ _ _ HX). destruct b; [reflexivity|exact HY]. Qed.

Lemma notM_eval (X : M bool) s b : X s = (s, inl b) -> notM X s = (s, inl (negb b)).
Proof. intro HX. unfold notM. rewrite (bindM_ok _ _ _ _ _ HX). reflexivity. Qed.

Section Entries.
  Variable re_match : N -> pystr -> bool.
  Variable e : env.

  Definition EH := entry_heap e.
  Definition EW := entry_world re_match e.

  Definition oval (o : option pyval) : pyval := match o with Some v => v | None => PNone end.

  (* ---------------------------------------------------------------- getattr / hasattr on `self` *)
  Lemma heap_self_field cd ct k :
    attr_name_ok k = true ->
    EH cd ct (s2p "self") k =
    match find_field (c_fields cd) k with
    | Some fd => Some (match fd_default fd with Some d => d | None => PNone end)
    | None => None
    end.
  Proof.
    intro Hk. unfold attr_name_ok in Hk. apply andb_true_iff in Hk. destruct Hk as [Hk Hr].
    apply andb_true_iff in Hk. destruct Hk as [Hp Hg]. apply negb_true_iff in Hg.
    assert (Hc : pystr_eqb k (s2p "__class__") = false).
    { destruct (pystr_eqb k (s2p "__class__")) eqn:E; [|reflexivity]. apply pystr_eqb_spec in E. subst k. discriminate Hp. }
    unfold EH, entry_heap. change (pystr_eqb (s2p "self") (s2p "self")) with true. cbv iota.
    rewrite Hc, Hg. destruct (un_rel k); [discriminate Hr|reflexivity].
  Qed.

  Lemma getattr_opt_heap cd ct a k :
    attr_name_ok k = true ->
    getattr_opt cd a k = match alist_get a k with Some v => Some v | None => EH cd ct (s2p "self") k end.
  Proof. intro Hk. rewrite (heap_self_field cd ct k Hk). unfold getattr_opt. reflexivity. Qed.

  Lemma getattr_self_def cd ct a k :
    attr_name_ok k = true ->
    getattr_dynM (EH cd ct) (ref (s2p "self")) (PStr k) (Some PNone) (inst_state a) =
    (inst_state a, inl (oval (getattr_opt cd a k))).
  Proof.
    intro Hk. rewrite (getattr_opt_heap cd ct a k Hk). unfold getattr_dynM.
    change (is_self_ref (ref (s2p "self"))) with true. cbv iota.
    rewrite (state_get a k (plain_not_internal k (attr_ok_plain k Hk))).
    destruct (alist_get a k); [reflexivity|].
    unfold obj_getattr_def, ref. rewrite pystr_eqb_refl. destruct (EH cd ct (s2p "self") k); reflexivity.
  Qed.

  Lemma getattr_self cd ct a k v :
    attr_name_ok k = true -> getattr_opt cd a k = Some v ->
    getattr_dynM (EH cd ct) (ref (s2p "self")) (PStr k) None (inst_state a) = (inst_state a, inl v).
  Proof.
    intros Hk Hv. rewrite (getattr_opt_heap cd ct a k Hk) in Hv. unfold getattr_dynM.
    change (is_self_ref (ref (s2p "self"))) with true. cbv iota.
    rewrite (state_get a k (plain_not_internal k (attr_ok_plain k Hk))).
    destruct (alist_get a k); [inversion Hv; reflexivity|].
    unfold obj_getattr, ref. rewrite pystr_eqb_refl. rewrite Hv. reflexivity.
  Qed.

  Lemma hasattr_self cd ct a k :
    attr_name_ok k = true ->
    hasattr_dynM (EH cd ct) (ref (s2p "self")) (PStr k) (inst_state a) =
    (inst_state a, inl (match getattr_opt cd a k with Some _ => true | None => false end)).
  Proof.
    intro Hk. rewrite (getattr_opt_heap cd ct a k Hk). unfold hasattr_dynM.
    change (is_self_ref (ref (s2p "self"))) with true. cbv iota.
    rewrite (state_get a k (plain_not_internal k (attr_ok_plain k Hk))).
    destruct (alist_get a k); [reflexivity|].
    unfold obj_hasattr, ref. rewrite pystr_eqb_refl. destruct (EH cd ct (s2p "self") k); reflexivity.
  Qed.

  Lemma self_class_obj cd ct a :
    names_ok a = true ->
    self_getattr (EH cd ct) (s2p "__class__") (inst_state a) = (inst_state a, inl (ref (cobj (c_name cd)))).
  Proof.
    intro Ha. unfold self_getattr. rewrite (state_get_reserved a (s2p "__class__") Ha eq_refl eq_refl). reflexivity.
  Qed.

  (* ---------------------------------------------------------------- classes as objects *)
  Lemma cobj_eqb x y : pystr_eqb (cobj x) (cobj y) = pystr_eqb x y.
  Proof. reflexivity. Qed.

  Lemma class_sub cd ct y :
    obj_issubclass (EH cd ct) (ref (cobj (c_name ct))) (ref (cobj y)) = Ok (is_instance_of e (c_name ct) y).
  Proof.
    unfold obj_issubclass, obj_rel, ref. rewrite pystr_eqb_refl. cbn [andb].
    unfold EH, entry_heap. change (pystr_eqb (cobj (c_name ct)) (s2p "self")) with false. cbv iota.
    change (un_cobj (cobj (c_name ct))) with (Some (c_name ct)). cbv iota. rewrite pystr_eqb_refl.
    reflexivity.
  Qed.

  Lemma class_sub_self cd ct y :
    pystr_eqb (c_name cd) (c_name ct) = false ->
    obj_issubclass (EH cd ct) (ref (cobj (c_name cd))) (ref (cobj y)) = Ok (is_instance_of e (c_name cd) y).
  Proof.
    intro Hne. unfold obj_issubclass, obj_rel, ref. rewrite pystr_eqb_refl. cbn [andb].
    unfold EH, entry_heap. change (pystr_eqb (cobj (c_name cd)) (s2p "self")) with false. cbv iota.
    change (un_cobj (cobj (c_name cd))) with (Some (c_name cd)). cbv iota. rewrite Hne, pystr_eqb_refl.
    reflexivity.
  Qed.

  Lemma self_isinstance cd ct y :
    obj_isinstance_of (EH cd ct) (ref (s2p "self")) (ref (cobj y)) = Ok (is_instance_of e (c_name cd) y).
  Proof. reflexivity. Qed.

  (* ---------------------------------------------------------------- class objects, uniformly *)
  Definition resolves (cd ct x : classdef) : Prop := forall a, EH cd ct (cobj (c_name x)) a = class_attr e x a.

  Lemma resolves_ct cd ct : resolves cd ct ct.
  Proof.
    intro a. unfold EH, entry_heap. change (pystr_eqb (cobj (c_name ct)) (s2p "self")) with false. cbv iota.
    change (un_cobj (cobj (c_name ct))) with (Some (c_name ct)). cbv iota. rewrite pystr_eqb_refl. reflexivity.
  Qed.

  Lemma resolves_cd cd ct :
    find_class e (c_name cd) = Some cd -> find_class e (c_name ct) = Some ct -> resolves cd ct cd.
  Proof.
    intros Hd Ht a. destruct (pystr_eqb (c_name cd) (c_name ct)) eqn:E.
    - apply pystr_eqb_spec in E. rewrite E in Hd. rewrite Hd in Ht. inversion Ht. subst ct. apply resolves_ct.
    - unfold EH, entry_heap. change (pystr_eqb (cobj (c_name cd)) (s2p "self")) with false. cbv iota.
      change (un_cobj (cobj (c_name cd))) with (Some (c_name cd)). cbv iota. rewrite E, pystr_eqb_refl. reflexivity.
  Qed.

  Lemma sub_cobj cd ct x y : resolves cd ct x ->
    obj_issubclass (EH cd ct) (ref (cobj (c_name x))) (ref (cobj y)) = Ok (is_instance_of e (c_name x) y).
  Proof. intro R. unfold obj_issubclass, obj_rel, ref. rewrite pystr_eqb_refl. cbn [andb]. rewrite R. reflexivity. Qed.

  Lemma sub_named cd ct x : resolves cd ct x ->
    obj_issubclass (EH cd ct) (ref (cobj (c_name x))) (ref (s2p "Structure")) = Ok true /\
    obj_issubclass (EH cd ct) (ref (cobj (c_name x))) (ref (s2p "ImmutableStructure")) = Ok (c_immutable x).
  Proof.
    intro R. unfold obj_issubclass, obj_rel, ref. rewrite pystr_eqb_refl. cbn [andb]. rewrite !R.
    split; [reflexivity|]. cbn. destruct (c_immutable x); reflexivity.
  Qed.

  Lemma class_fields cd ct x : resolves cd ct x ->
    obj_getattr (EH cd ct) (ref (cobj (c_name x))) (s2p "get_all_fields_by_name()") = Ok (fields_map x).
  Proof. intro R. unfold obj_getattr, ref. rewrite pystr_eqb_refl. rewrite R. reflexivity. Qed.

  Lemma fields_keys x : PyOpsFields.py_dict_keys (fields_map x) = Ok (map PStr (field_names x)).
  Proof. unfold fields_map, PyOpsFields.py_dict_keys, PyOpsFields.py_dict_items, field_names. cbn [bind]. rewrite !map_map. reflexivity. Qed.

  Lemma new_is_construct cd ct x kw s : resolves cd ct x -> (x = ct \/ x = cd) ->
    find_class e (c_name cd) = Some cd -> find_class e (c_name ct) = Some ct ->
    w_new (EW cd ct) (ref (cobj (c_name x))) (PTuple []) (PDict (pairs kw)) s = lift (construct re_match e x kw) s.
  Proof.
    intros _ Hx Hd Ht. cbn [w_new EW entry_world]. unfold ctor_new, ref. rewrite pystr_eqb_refl.
    change (un_cobj (cobj (c_name x))) with (Some (c_name x)). rewrite kwargs_of_pairs.
    destruct Hx as [->| ->]; [rewrite pystr_eqb_refl; reflexivity|].
    destruct (pystr_eqb (c_name cd) (c_name ct)) eqn:E; [|rewrite pystr_eqb_refl; reflexivity].
    apply pystr_eqb_spec in E. rewrite E in Hd. rewrite Hd in Ht. inversion Ht. reflexivity.
  Qed.

  Lemma view_lift (r : res pyval) s : entry_view (lift r s) = r.
  Proof. destruct r; reflexivity. Qed.

  Definition fields_ok (c : classdef) : bool :=
    forallb (fun fd => attr_name_ok (fd_name fd)) (c_fields c) && negb (has_dup (field_names c)).

  Lemma field_name_ok c k : fields_ok c = true -> In k (field_names c) -> attr_name_ok k = true.
  Proof.
    intros H Hk. unfold fields_ok in H. apply andb_true_iff in H. destruct H as [H _].
    unfold field_names in Hk. apply in_map_iff in Hk. destruct Hk as [fd [E Hfd]]. subst k.
    exact (proj1 (forallb_forall _ _) H fd Hfd).
  Qed.

  (* the keys of what a comprehension over distinct names collects are distinct *)
  Lemma flat_map_keys (g : pystr -> option (pystr * pyval)) : forall ks,
      has_dup ks = false -> (forall k p, g k = Some p -> fst p = k) ->
      has_dup (map fst (flat_map (fun k => olist (g k)) ks)) = false.
  Proof.
    intros ks Hd Hg. induction ks as [|k t IH]; [reflexivity|].
    cbn [has_dup] in Hd. apply orb_false_iff in Hd. destruct Hd as [Hd1 Hd2].
    cbn [flat_map]. destruct (g k) as [p|] eqn:E; cbn [olist app]; [|exact (IH Hd2)].
    cbn [map has_dup]. rewrite (IH Hd2), orb_false_r. rewrite (Hg k p E).
    destruct (str_in k (map fst (flat_map (fun k0 => olist (g k0)) t))) eqn:Es; [|reflexivity].
    apply str_in_true in Es. apply in_map_iff in Es. destruct Es as [q [Eq Hq]].
    apply in_flat_map in Hq. destruct Hq as [k' [Hk' Hq]]. destruct (g k') as [p'|] eqn:E'; [|destruct Hq].
    destruct Hq as [<-|[]]. rewrite (Hg k' p' E') in Eq. subst k'. apply str_in_In in Hk'. congruence.
  Qed.

  Definition vals_defined (a : attrs) : bool := forallb (fun p => negb (undefined_ref (snd p))) a.
  Definition defaults_defined (c : classdef) : bool :=
    forallb (fun fd => match fd_default fd with Some d => negb (undefined_ref d) | None => true end) (c_fields c).

  Lemma getattr_opt_defined cd a k v :
    vals_defined a = true -> defaults_defined cd = true -> getattr_opt cd a k = Some v -> undefined_ref v = false.
  Proof.
    intros Ha Hd H. unfold getattr_opt in H. destruct (alist_get a k) as [x|] eqn:E.
    - inversion H. subst x. clear H. induction a as [|[n y] t IH]; [discriminate E|].
      cbn [vals_defined forallb snd] in Ha. apply andb_true_iff in Ha. destruct Ha as [H1 H2].
      cbn [alist_get] in E. destruct (pystr_eqb n k); [inversion E; subst; apply negb_true_iff, H1 | apply IH; assumption].
    - destruct (find_field (c_fields cd) k) as [fd|] eqn:Ef; [|discriminate H]. inversion H. clear H.
      assert (Hin : In fd (c_fields cd)).
      { clear -Ef. induction (c_fields cd) as [|d t IH]; [discriminate Ef|]. cbn [find_field] in Ef.
        destruct (pystr_eqb (fd_name d) k); [inversion Ef; left; reflexivity | right; apply IH, Ef]. }
      pose proof (proj1 (forallb_forall _ _) Hd fd Hin) as Hq. cbv beta in Hq.
      destruct (fd_default fd); [apply negb_true_iff, Hq | reflexivity].
  Qed.

  (* ---------------------------------------------------------------- cast_to *)
  Definition cast_pick (cd : classdef) (a : attrs) (k : pystr) : option (pystr * pyval) :=
    match getattr_opt cd a k with
    | Some v => if not_none v then Some (k, v) else None
    | None => None
    end.

  Lemma cast_kwargs_pick cd ct a : cast_kwargs cd ct a = flat_map (fun k => olist (cast_pick cd a k)) (field_names ct).
  Proof.
    unfold cast_kwargs. apply flat_map_ext. intro k. unfold cast_pick.
    destruct (getattr_opt cd a k) as [v|]; [|reflexivity]. destruct (not_none v); reflexivity.
  Qed.

  Theorem generated_cast_to_is_entry : forall cd ct a,
      find_class e (c_name cd) = Some cd -> find_class e (c_name ct) = Some ct ->
      names_ok a = true -> vals_defined a = true -> defaults_defined cd = true -> fields_ok ct = true ->
      entry_view (Structure__cast_to (EH cd ct) (EW cd ct) (ref (cobj (c_name ct))) (inst_state a)) =
      run_entry re_match e (PStruct (c_name cd) a) (ECastTo (c_name ct)).
  Proof.
    intros cd ct a Hd Ht Ha Hva Hdd Hft.
    pose proof (resolves_ct cd ct) as Rt. pose proof (resolves_cd cd ct Hd Ht) as Rd.
    unfold run_entry, entry_plan, with_instance, with_class. rewrite Ht. cbv beta iota. rewrite Hd. cbv beta iota.
    set (s := inst_state a).
    unfold Structure__cast_to.
    (* the subclass / superclass test *)
    assert (F1 : self_getattr (EH cd ct) (s2p "__class__") s = (s, inl (ref (cobj (c_name cd))))) by exact (self_class_obj cd ct a Ha).
    assert (E1 : (t1 <~ self_getattr (EH cd ct) (s2p "__class__") ;; lift (obj_issubclass (EH cd ct) (ref (cobj (c_name ct))) t1)) s =
                 (s, inl (is_instance_of e (c_name ct) (c_name cd)))).
    { rewrite (bindM_ok _ _ _ _ _ F1), (sub_cobj cd ct ct (c_name cd) Rt). reflexivity. }
    assert (E2 : (t2 <~ self_getattr (EH cd ct) (s2p "__class__") ;; lift (py_is_obj (ref (cobj (c_name ct))) t2)) s =
                 (s, inl (pystr_eqb (c_name ct) (c_name cd)))).
    { rewrite (bindM_ok _ _ _ _ _ F1). unfold py_is_obj, ref. rewrite pystr_eqb_refl. reflexivity. }
    assert (E3 : lift (obj_isinstance_of (EH cd ct) (ref (s2p "self")) (ref (cobj (c_name ct)))) s =
                 (s, inl (is_instance_of e (c_name cd) (c_name ct)))) by reflexivity.
    assert (E4 : lift (obj_issubclass (EH cd ct) (ref (cobj (c_name ct))) (ref (s2p "Structure"))) s = (s, inl true)).
    { rewrite (proj1 (sub_named cd ct ct Rt)). reflexivity. }
    rewrite (bindM_ok _ _ _ _ _
              (andM_eval _ _ _ _ _ (orM_eval _ _ _ _ _ E1 (orM_eval _ _ _ _ _ E2 E3)) E4)).
    assert (Hb : (is_instance_of e (c_name ct) (c_name cd) || (pystr_eqb (c_name ct) (c_name cd) || is_instance_of e (c_name cd) (c_name ct))) && true =
                 is_instance_of e (c_name cd) (c_name ct) || is_instance_of e (c_name ct) (c_name cd)).
    { assert (He : pystr_eqb (c_name ct) (c_name cd) = true -> is_instance_of e (c_name ct) (c_name cd) = true)
        by (intro H; unfold is_instance_of; rewrite H; reflexivity).
      destruct (is_instance_of e (c_name ct) (c_name cd)), (pystr_eqb (c_name ct) (c_name cd)), (is_instance_of e (c_name cd) (c_name ct));
        try reflexivity; discriminate (He eq_refl). }
    rewrite Hb. clear Hb.
    destruct (is_instance_of e (c_name cd) (c_name ct) || is_instance_of e (c_name ct) (c_name cd)).
    2:{ rewrite (bindM_ok _ _ _ _ _ F1).
        unfold obj_getattr, ref. rewrite pystr_eqb_refl. rewrite Rd. reflexivity. }
    (* `that` is self either way *)
    assert (I1 : lift (obj_issubclass (EH cd ct) (ref (cobj (c_name ct))) (ref (s2p "ImmutableStructure"))) s = (s, inl (c_immutable ct))).
    { rewrite (proj2 (sub_named cd ct ct Rt)). reflexivity. }
    assert (I2 : (t3 <~ self_getattr (EH cd ct) (s2p "__class__") ;; lift (obj_issubclass (EH cd ct) t3 (ref (s2p "ImmutableStructure")))) s = (s, inl (c_immutable cd))).
    { rewrite (bindM_ok _ _ _ _ _ F1), (proj2 (sub_named cd ct cd Rd)). reflexivity. }
    rewrite bindM_assoc.
    rewrite (bindM_ok _ _ _ _ _
              (orM_eval _ _ _ _ _ (andM_eval _ _ _ _ _ I1 (notM_eval _ _ _ I2)) (andM_eval _ _ _ _ _ I2 (notM_eval _ _ _ I1)))).
    assert (HS : forall (b : bool) (K : pyval -> M pyval), (t5 <~ (if b then ret (ref (s2p "self")) else ret (ref (s2p "self"))) ;; K t5) s = K (ref (s2p "self")) s)
      by (intros [|] K; reflexivity).
    rewrite HS. clear HS. cbv zeta.
    rewrite (class_fields cd ct ct Rt). rewrite (bindM_ok _ _ s s (fields_map ct) eq_refl).
    rewrite fields_keys. rewrite (bindM_ok _ _ s s (PList (map PStr (field_names ct))) eq_refl).
    rewrite (bindM_ok _ _ s s (map PStr (field_names ct)) eq_refl).
    assert (HF : forall k, In k (field_names ct) ->
       (fun v_f_11 : pyval =>
         (c <~ (t12 <~ getattr_dynM (EH cd ct) (ref (s2p "self")) v_f_11 (Some PNone) ;; ret (py_is_not_none t12)) ;;
          if c then (t13 <~ getattr_dynM (EH cd ct) (ref (s2p "self")) v_f_11 None ;; ret (Some (v_f_11, t13))) else ret None)) (PStr k) s =
       (s, inl (option_map ppair (cast_pick cd a k)))).
    { intros k Hk. pose proof (field_name_ok ct k Hft Hk) as Hok. cbv beta.
      rewrite bindM_assoc. unfold s. rewrite (bindM_ok _ _ _ _ _ (getattr_self_def cd ct a k Hok)).
      unfold cast_pick. destruct (getattr_opt cd a k) as [v|] eqn:Eg; cbn [oval].
      - rewrite (bindM_ok _ _ _ _ (py_is_not_none v) eq_refl).
        change (py_is_not_none v) with (not_none v). destruct (not_none v); [|reflexivity].
        rewrite (bindM_ok _ _ _ _ _ (getattr_self cd ct a k v Hok Eg)). reflexivity.
      - reflexivity. }
    rewrite (bindM_ok _ _ _ _ _ (filterMM_names _ (cast_pick cd a) s (field_names ct) HF)).
    rewrite <- cast_kwargs_pick.
    assert (Hnd : has_dup (map fst (cast_kwargs cd ct a)) = false).
    { rewrite cast_kwargs_pick. apply flat_map_keys.
      - unfold fields_ok in Hft. apply andb_true_iff in Hft. destruct Hft as [_ H]. apply negb_true_iff, H.
      - intros k p H. unfold cast_pick in H. destruct (getattr_opt cd a k) as [v|]; [|discriminate H].
        destruct (not_none v); inversion H; reflexivity. }
    assert (Hud : forallb (fun p => negb (undefined_ref (snd p))) (cast_kwargs cd ct a) = true).
    { apply forallb_forall. intros p Hp. rewrite cast_kwargs_pick in Hp. apply in_flat_map in Hp.
      destruct Hp as [k [_ Hp]]. unfold cast_pick in Hp. destruct (getattr_opt cd a k) as [v|] eqn:Eg; [|destruct Hp].
      destruct (not_none v); [|destruct Hp]. destruct Hp as [<-|[]]. cbn [snd].
      apply negb_true_iff. exact (getattr_opt_defined cd a k v Hva Hdd Eg). }
    rewrite (dict_of_pairs _ Hnd). rewrite (bindM_ok _ _ s s (PDict (pairs (cast_kwargs cd ct a))) eq_refl).
    rewrite (bindM_ok _ _ s s (pairs (cast_kwargs cd ct a)) eq_refl).
    change (filterMM _ (pairs (cast_kwargs cd ct a))) with (filterMM undef_filter (pairs (cast_kwargs cd ct a))).
    rewrite (bindM_ok _ _ _ _ _ (undef_filter_id s _ Hud)).
    rewrite (dict_of_pairs _ Hnd). rewrite (bindM_ok _ _ s s (PDict (pairs (cast_kwargs cd ct a))) eq_refl).
    unfold bindM at 1. rewrite (new_is_construct cd ct ct _ s Rt (or_introl eq_refl) Hd Ht).
    destruct (construct re_match e ct (cast_kwargs cd ct a)); reflexivity.
  Qed.

  (* ---------------------------------------------------------------- {**a, **b} *)
  Lemma fold_set_pairs : forall (l acc : kwargs),
      has_dup (map fst l) = false -> (forall p, In p l -> alist_get acc (fst p) = None) ->
      fold_left (fun d p => dict_set d (fst p) (snd p)) (pairs l) (pairs acc) = pairs (acc ++ l).
  Proof.
    induction l as [|[n v] t IH]; intros acc Hd Ha.
    - cbn. rewrite app_nil_r. reflexivity.
    - cbn [map fst has_dup] in Hd. apply orb_false_iff in Hd. destruct Hd as [Hd1 Hd2].
      cbn [pairs map fold_left fst snd]. fold (pairs t).
      rewrite dict_set_fresh by (apply dict_get_pairs_none, (Ha (n, v)); left; reflexivity).
      change (pairs acc ++ [(PStr n, v)]) with (pairs acc ++ pairs [(n, v)]).
      unfold pairs at 1 2. rewrite <- map_app. fold (pairs (acc ++ [(n, v)])).
      rewrite IH; [rewrite <- app_assoc; reflexivity | exact Hd2 |].
      intros p Hp. rewrite alist_get_app. rewrite (Ha p (or_intror Hp)). cbn [alist_get].
      destruct (pystr_eqb n (fst p)) eqn:E; [|reflexivity].
      apply pystr_eqb_spec in E. subst n. exfalso.
      assert (str_in (fst p) (map fst t) = true) by (apply str_in_In, in_map, Hp). congruence.
  Qed.

  Lemma merge_pairs (a b : kwargs) :
    has_dup (map fst b) = false -> (forall p, In p b -> alist_get a (fst p) = None) ->
    PyOpsFields.py_dict_merge (PDict (pairs a)) (PDict (pairs b)) = Ok (PDict (pairs (a ++ b))).
  Proof. intros H1 H2. unfold PyOpsFields.py_dict_merge. rewrite (fold_set_pairs b a H1 H2). reflexivity. Qed.

  Lemma str_contains_nil p q c0 : str_contains (p ++ c0 :: q) [] = false.
  Proof. destruct p; reflexivity. Qed.

  (* ---------------------------------------------------------------- from_other_class(<an instance>, **over) *)
  Definition fo_pick (cd : classdef) (a : attrs) (over : kwargs) (k : pystr) : option (pystr * pyval) :=
    if alist_has over k then None
    else match getattr_opt cd a k with Some v => Some (k, v) | None => None end.

  Lemma from_other_pick cd ct a over :
    from_other_kwargs cd ct a over = flat_map (fun k => olist (fo_pick cd a over k)) (field_names ct) ++ over.
  Proof.
    unfold from_other_kwargs. f_equal. apply flat_map_ext. intro k. unfold fo_pick.
    destruct (alist_has over k); [reflexivity|]. destruct (getattr_opt cd a k); reflexivity.
  Qed.

  Theorem generated_from_other_is_entry : forall cd ct a over,
      find_class e (c_name cd) = Some cd -> find_class e (c_name ct) = Some ct ->
      names_ok a = true -> vals_defined a = true -> defaults_defined cd = true -> fields_ok ct = true ->
      has_dup (map fst over) = false -> vals_defined over = true ->
      entry_view (Structure__from_other_class (EH cd ct) (EW cd ct) (ref (cobj (c_name ct))) (ref (s2p "self")) PNone
                    (kw_dict over) (inst_state a)) =
      run_entry re_match e (PStruct (c_name cd) a) (EFromOther (c_name ct) over).
  Proof.
    intros cd ct a over Hd Ht Ha Hva Hdd Hft Hod Hov.
    pose proof (resolves_ct cd ct) as Rt.
    unfold run_entry, entry_plan, with_instance, with_class. rewrite Ht. cbv beta iota. rewrite Hd. cbv beta iota.
    set (s := inst_state a).
    unfold Structure__from_other_class.
    rewrite (bindM_ok _ _ s s (PBool false) eq_refl). cbv zeta.
    rewrite (bindM_ok _ _ s s (PList []) eq_refl).
    rewrite (class_fields cd ct ct Rt). rewrite (bindM_ok _ _ s s (fields_map ct) eq_refl).
    assert (Hit : PyOpsVersioned.py_iter (fields_map ct) = Ok (map PStr (field_names ct))).
    { unfold fields_map, PyOpsVersioned.py_iter, field_names. rewrite !map_map. reflexivity. }
    rewrite Hit. rewrite (bindM_ok _ _ s s (map PStr (field_names ct)) eq_refl).
    change (kw_dict over) with (PDict (pairs over)).
    assert (HK : obj_getattr_def (EH cd ct) (ref (cobj (c_name ct))) (s2p "_constants") (PDict []) = Ok (PDict [])).
    { unfold obj_getattr_def, ref. rewrite pystr_eqb_refl. rewrite Rt. reflexivity. }
    assert (HF : forall k, In k (field_names ct) ->
       (fun v_k_7 : pyval =>
          (c <~ (andM (notM (lift (py_in_dyn v_k_7 (PList []))))
                      (fun _ => (andM (notM (lift (py_in_dyn v_k_7 (PDict (pairs over)))))
                         (fun _ => (andM (t8 <~ lift (obj_getattr_def (EH cd ct) (ref (cobj (c_name ct))) (s2p "_constants") (PDict [])) ;;
                                          notM (lift (py_in_dyn v_k_7 t8)))
                                    (fun _ => (orM (hasattr_dynM (EH cd ct) (ref (s2p "self")) v_k_7)
                                                   (fun _ => (ret (py_truthy (PBool false))))))))))) ;;
           if c then (t11 <~ (c0 <~ (ret (py_truthy (PBool false))) ;;
                              if c0 then (t9 <~ lift (obj_or_dict_get (EH cd ct) (ref (s2p "self")) v_k_7 PNone) ;; ret t9)
                              else (t10 <~ getattr_dynM (EH cd ct) (ref (s2p "self")) v_k_7 (Some PNone) ;; ret t10)) ;;
                      ret (Some (v_k_7, t11)))
           else ret None)) (PStr k) s =
       (s, inl (option_map ppair (fo_pick cd a over k)))).
    { intros k Hk. pose proof (field_name_ok ct k Hft Hk) as Hok. cbv beta.
      assert (C1 : notM (lift (py_in_dyn (PStr k) (PList []))) s = (s, inl (negb false))) by reflexivity.
      assert (C2 : notM (lift (py_in_dyn (PStr k) (PDict (pairs over)))) s = (s, inl (negb (alist_has over k)))).
      { apply notM_eval. rewrite in_pairs. reflexivity. }
      assert (C3 : (t8 <~ lift (obj_getattr_def (EH cd ct) (ref (cobj (c_name ct))) (s2p "_constants") (PDict [])) ;;
                    notM (lift (py_in_dyn (PStr k) t8))) s = (s, inl (negb false))).
      { rewrite HK. reflexivity. }
      assert (C4 : orM (hasattr_dynM (EH cd ct) (ref (s2p "self")) (PStr k)) (fun _ => (ret (py_truthy (PBool false)))) s =
                   (s, inl ((match getattr_opt cd a k with Some _ => true | None => false end) || false))).
      { apply orM_eval; [exact (hasattr_self cd ct a k Hok) | reflexivity]. }
      rewrite (bindM_ok _ _ _ _ _ (andM_eval _ _ _ _ _ C1 (andM_eval _ _ _ _ _ C2 (andM_eval _ _ _ _ _ C3 C4)))).
      unfold fo_pick. destruct (alist_has over k); [reflexivity|]. cbn [negb andb].
      destruct (getattr_opt cd a k) as [v|] eqn:Eg; cbn [orb]; [|reflexivity].
      rewrite bindM_assoc. rewrite (bindM_ok _ _ s s false eq_refl). cbv beta iota.
      rewrite bindM_assoc. unfold s. rewrite (bindM_ok _ _ _ _ _ (getattr_self_def cd ct a k Hok)). rewrite Eg. reflexivity. }
    rewrite (bindM_ok _ _ _ _ _ (filterMM_names _ (fo_pick cd a over) s (field_names ct) HF)).
    set (B := flat_map (fun k => olist (fo_pick cd a over k)) (field_names ct)).
    assert (Hnd : has_dup (map fst B) = false).
    { apply flat_map_keys.
      - unfold fields_ok in Hft. apply andb_true_iff in Hft. destruct Hft as [_ H]. apply negb_true_iff, H.
      - intros k p H. unfold fo_pick in H. destruct (alist_has over k); [discriminate H|].
        destruct (getattr_opt cd a k); inversion H; reflexivity. }
    assert (Hud : forallb (fun p => negb (undefined_ref (snd p))) B = true).
    { apply forallb_forall. intros p Hp. apply in_flat_map in Hp.
      destruct Hp as [k [_ Hp]]. unfold fo_pick in Hp. destruct (alist_has over k); [destruct Hp|].
      destruct (getattr_opt cd a k) as [v|] eqn:Eg; [|destruct Hp]. destruct Hp as [<-|[]]. cbn [snd].
      apply negb_true_iff. exact (getattr_opt_defined cd a k v Hva Hdd Eg). }
    assert (Hfresh : forall p, In p over -> alist_get B (fst p) = None).
    { intros p Hp. apply alist_get_none_notin. destruct (str_in (fst p) (map fst B)) eqn:E; [|reflexivity].
      apply str_in_true in E. apply in_map_iff in E. destruct E as [q [Eq Hq]]. apply in_flat_map in Hq.
      destruct Hq as [k [_ Hq]]. unfold fo_pick in Hq. destruct (alist_has over k) eqn:Eo; [destruct Hq|].
      destruct (getattr_opt cd a k); [|destruct Hq]. destruct Hq as [<-|[]]. cbn [fst] in Eq. subst k.
      rewrite alist_has_keys2 in Eo. assert (str_in (fst p) (map fst over) = true) by (apply str_in_In, in_map, Hp). congruence. }
    rewrite (dict_of_pairs _ Hnd). rewrite (bindM_ok _ _ s s (PDict (pairs B)) eq_refl). cbv zeta.
    rewrite (bindM_ok _ _ s s (pairs B) eq_refl).
    change (filterMM _ (pairs B)) with (filterMM undef_filter (pairs B)).
    rewrite (bindM_ok _ _ _ _ _ (undef_filter_id s _ Hud)).
    rewrite (dict_of_pairs _ Hnd). rewrite (bindM_ok _ _ s s (PDict (pairs B)) eq_refl).
    change (PDict []) with (PDict (pairs [])).
    rewrite (merge_pairs [] B Hnd (fun _ _ => eq_refl)). cbn [app].
    rewrite (bindM_ok _ _ s s (PDict (pairs B)) eq_refl).
    rewrite (bindM_ok _ _ s s (pairs over) eq_refl).
    change (filterMM _ (pairs over)) with (filterMM undef_filter (pairs over)).
    rewrite (bindM_ok _ _ _ _ _ (undef_filter_id s _ Hov)).
    rewrite (dict_of_pairs _ Hod). rewrite (bindM_ok _ _ s s (PDict (pairs over)) eq_refl).
    rewrite (merge_pairs B over Hod Hfresh). rewrite (bindM_ok _ _ s s (PDict (pairs (B ++ over))) eq_refl). cbv zeta.
    rewrite from_other_pick. fold B.
    unfold tryM. unfold bindM at 1. rewrite (new_is_construct cd ct ct _ s Rt (or_introl eq_refl) Hd Ht).
    destruct (construct re_match e ct (B ++ over)) as [v|x]; [reflexivity|].
    unfold lift, raiseM. unfold catches. cbn [x_cls existsb].
    destruct (negb (model_level x) && (exc_subclass x TypeError || false)) eqn:Ec; [|reflexivity].
    unfold obj_getattr, ref. rewrite pystr_eqb_refl. rewrite Rt.
    change (class_attr e ct (s2p "__name__")) with (Some (PStr (c_name ct))).
    rewrite (bindM_ok _ _ s s false).
    - reflexivity.
    - unfold bindM, lift, ret. cbn [PyOpsDerive.py_format]. unfold py_substr, exc_str. cbn [x_cls x_arg w_repr_str EW entry_world].
      change (s2p ": missing a required argument") with (58%N :: s2p " missing a required argument").
      destruct x; rewrite str_contains_nil; reflexivity.
  Qed.

  (* ---------------------------------------------------------------- shallow_clone_with_overrides( **over) *)

  (* the keyword arguments in the order the SOURCE builds them: every non-None field value in field order, an
     overridden one replaced in place, new names appended ({**fields, **kw}); Struct/Entry.v [clone_kwargs] lists the
     same bindings with the overridden ones moved to the end *)
  Definition clone_kwargs_src (cd : classdef) (a : attrs) (over : kwargs) : kwargs := merge_kw (cast_kwargs cd cd a) over.

  Lemma dict_set_pairs l n v : dict_set (pairs l) (PStr n) v = pairs (alist_set l n v).
  Proof.
    induction l as [|[k x] t IH]; [reflexivity|].
    cbn [pairs map dict_set py_eq alist_set fst snd]. fold (pairs t).
    destruct (pystr_eqb k n); [reflexivity|]. cbn [pairs map fst snd]. fold (pairs (alist_set t n v)). f_equal. exact IH.
  Qed.

  Lemma merge_pairs_gen (over base : kwargs) :
    PyOpsFields.py_dict_merge (PDict (pairs base)) (PDict (pairs over)) = Ok (PDict (pairs (merge_kw base over))).
  Proof.
    unfold PyOpsFields.py_dict_merge, merge_kw. f_equal. f_equal. revert base.
    induction over as [|[n v] t IH]; intro base; [reflexivity|].
    cbn [pairs map fold_left fst snd]. fold (pairs t). rewrite dict_set_pairs. apply IH.
  Qed.

  Lemma field_getattr cd a k : In k (field_names cd) -> exists v, getattr_opt cd a k = Some v.
  Proof.
    intro Hk. unfold getattr_opt. destruct (alist_get a k) as [v|]; [exists v; reflexivity|].
    assert (H : str_in k (field_names cd) = true) by (apply str_in_In, Hk).
    rewrite in_field_names in H. destruct (find_field (c_fields cd) k); [eexists; reflexivity | discriminate H].
  Qed.

  Theorem generated_clone_is_constructor : forall cd a over,
      find_class e (c_name cd) = Some cd ->
      names_ok a = true -> vals_defined a = true -> defaults_defined cd = true -> fields_ok cd = true ->
      entry_view (Structure__shallow_clone_with_overrides (EH cd cd) (EW cd cd) (kw_dict over) (inst_state a)) =
      construct re_match e cd (clone_kwargs_src cd a over).
  Proof.
    intros cd a over Hd Ha Hva Hdd Hft.
    pose proof (resolves_ct cd cd) as Rt.
    set (s := inst_state a).
    unfold Structure__shallow_clone_with_overrides.
    assert (Q : self_query (EH cd cd) (s2p "get_all_fields_by_name") s = (s, inl (fields_map cd))).
    { unfold self_query, s. rewrite (state_get_reserved a (s2p "get_all_fields_by_name") Ha eq_refl eq_refl). reflexivity. }
    rewrite (bindM_ok _ _ _ _ _ Q). rewrite fields_keys.
    rewrite (bindM_ok _ _ s s (PList (map PStr (field_names cd))) eq_refl). cbv zeta.
    rewrite (bindM_ok _ _ s s (map PStr (field_names cd)) eq_refl).
    assert (F1 : self_getattr (EH cd cd) (s2p "__class__") s = (s, inl (ref (cobj (c_name cd))))) by exact (self_class_obj cd cd a Ha).
    assert (HK : obj_getattr_def (EH cd cd) (ref (cobj (c_name cd))) (s2p "_constants") (PDict []) = Ok (PDict [])).
    { unfold obj_getattr_def, ref. rewrite pystr_eqb_refl. rewrite Rt. reflexivity. }
    assert (NF : self_getattr (EH cd cd) (s2p "_none_fields") s = (s, inl (PSet false []))).
    { unfold self_getattr, s, inst_state. rewrite alist_get_app.
      assert (H0 : alist_get a n_none_fields = None).
      { clear -Ha. induction a as [|[k v] t IH]; [reflexivity|].
        cbn [names_ok forallb fst] in Ha. apply andb_true_iff in Ha. destruct Ha as [H1 H2]. cbn [alist_get].
        destruct (pystr_eqb k n_none_fields) eqn:E; [|exact (IH H2)].
        apply pystr_eqb_spec in E. subst k. discriminate H1. }
      change (s2p "_none_fields") with n_none_fields. rewrite H0. reflexivity. }
    assert (HF : forall k, In k (field_names cd) ->
       (fun v_f_5 : pyval =>
          (c <~ (andM (orM (t6 <~ getattr_dynM (EH cd cd) (ref (s2p "self")) v_f_5 None ;; ret (py_is_not_none t6))
                           (fun _ => (t7 <~ self_getattr (EH cd cd) (s2p "_none_fields") ;; lift (py_in_dyn v_f_5 t7))))
                      (fun _ => (t8 <~ self_getattr (EH cd cd) (s2p "__class__") ;;
                                 t9 <~ lift (obj_getattr_def (EH cd cd) t8 (s2p "_constants") (PDict [])) ;;
                                 notM (lift (py_in_dyn v_f_5 t9))))) ;;
           if c then (t10 <~ getattr_dynM (EH cd cd) (ref (s2p "self")) v_f_5 None ;; ret (Some (v_f_5, t10))) else ret None)) (PStr k) s =
       (s, inl (option_map ppair (cast_pick cd a k)))).
    { intros k Hk. pose proof (field_name_ok cd k Hft Hk) as Hok. cbv beta.
      destruct (field_getattr cd a k Hk) as [v Eg].
      pose proof (getattr_self cd cd a k v Hok Eg) as G. fold s in G.
      assert (C1 : (t6 <~ getattr_dynM (EH cd cd) (ref (s2p "self")) (PStr k) None ;; ret (py_is_not_none t6)) s = (s, inl (not_none v))).
      { rewrite (bindM_ok _ _ _ _ _ G). reflexivity. }
      assert (C2 : (t7 <~ self_getattr (EH cd cd) (s2p "_none_fields") ;; lift (py_in_dyn (PStr k) t7)) s = (s, inl false)).
      { rewrite (bindM_ok _ _ _ _ _ NF). reflexivity. }
      assert (C3 : (t8 <~ self_getattr (EH cd cd) (s2p "__class__") ;;
                    t9 <~ lift (obj_getattr_def (EH cd cd) t8 (s2p "_constants") (PDict [])) ;;
                    notM (lift (py_in_dyn (PStr k) t9))) s = (s, inl (negb false))).
      { rewrite (bindM_ok _ _ _ _ _ F1). rewrite HK. reflexivity. }
      rewrite (bindM_ok _ _ _ _ _ (andM_eval _ _ _ _ _ (orM_eval _ _ _ _ _ C1 C2) C3)).
      unfold cast_pick. rewrite Eg. rewrite orb_false_r. cbn [negb]. rewrite andb_true_r.
      destruct (not_none v); [|reflexivity]. rewrite (bindM_ok _ _ _ _ _ G). reflexivity. }
    rewrite (bindM_ok _ _ _ _ _ (filterMM_names _ (cast_pick cd a) s (field_names cd) HF)).
    rewrite <- cast_kwargs_pick. set (B := cast_kwargs cd cd a).
    assert (Hnd : has_dup (map fst B) = false).
    { unfold B. rewrite cast_kwargs_pick. apply flat_map_keys.
      - unfold fields_ok in Hft. apply andb_true_iff in Hft. destruct Hft as [_ H]. apply negb_true_iff, H.
      - intros k p H. unfold cast_pick in H. destruct (getattr_opt cd a k) as [v|]; [|discriminate H].
        destruct (not_none v); inversion H; reflexivity. }
    assert (Hud : forallb (fun p => negb (undefined_ref (snd p))) B = true).
    { apply forallb_forall. intros p Hp. unfold B in Hp. rewrite cast_kwargs_pick in Hp. apply in_flat_map in Hp.
      destruct Hp as [k [_ Hp]]. unfold cast_pick in Hp. destruct (getattr_opt cd a k) as [v|] eqn:Eg; [|destruct Hp].
      destruct (not_none v); [|destruct Hp]. destruct Hp as [<-|[]]. cbn [snd].
      apply negb_true_iff. exact (getattr_opt_defined cd a k v Hva Hdd Eg). }
    rewrite (dict_of_pairs _ Hnd). rewrite (bindM_ok _ _ s s (PDict (pairs B)) eq_refl). cbv zeta.
    rewrite (bindM_ok _ _ s s (pairs B) eq_refl).
    change (filterMM _ (pairs B)) with (filterMM undef_filter (pairs B)).
    rewrite (bindM_ok _ _ _ _ _ (undef_filter_id s _ Hud)).
    rewrite (dict_of_pairs _ Hnd). rewrite (bindM_ok _ _ s s (PDict (pairs B)) eq_refl).
    change (PDict []) with (PDict (pairs [])).
    rewrite (merge_pairs [] B Hnd (fun _ _ => eq_refl)). cbn [app].
    rewrite (bindM_ok _ _ s s (PDict (pairs B)) eq_refl).
    change (kw_dict over) with (PDict (pairs over)). rewrite merge_pairs_gen.
    rewrite (bindM_ok _ _ s s (PDict (pairs (merge_kw B over))) eq_refl). cbv zeta.
    rewrite (bindM_ok _ _ _ _ _ F1).
    unfold bindM at 1. rewrite (new_is_construct cd cd cd _ s Rt (or_introl eq_refl) Hd Hd).
    unfold clone_kwargs_src. fold B. destruct (construct re_match e cd (merge_kw B over)); reflexivity.
  Qed.

  (* the source's keyword list and the model's [clone_kwargs] bind the same names to the same values *)
  Lemma merge_get : forall (over base : kwargs) n,
      has_dup (map fst over) = false ->
      alist_get (merge_kw base over) n = match alist_get over n with Some v => Some v | None => alist_get base n end.
  Proof.
    unfold merge_kw. induction over as [|[k v] t IH]; intros base n Hd; [reflexivity|].
    cbn [map fst has_dup] in Hd. apply orb_false_iff in Hd. destruct Hd as [Hd1 Hd2].
    cbn [fold_left fst snd alist_get]. rewrite (IH (alist_set base k v) n Hd2).
    destruct (pystr_eqb k n) eqn:E.
    - apply pystr_eqb_spec in E. subst n. rewrite (alist_get_none_notin t k Hd1). apply get_set_same.
    - destruct (alist_get t n); [reflexivity|]. apply get_set_other, E.
  Qed.

  Lemma flat_map_skip_get (q : pystr -> bool) (g : pystr -> option (pystr * pyval)) n : forall ks,
      (forall k p, g k = Some p -> fst p = k) ->
      alist_get (flat_map (fun k => if q k then [] else olist (g k)) ks) n =
      if q n then None else alist_get (flat_map (fun k => olist (g k)) ks) n.
  Proof.
    intros ks Hg. induction ks as [|k t IH]; [destruct (q n); reflexivity|].
    cbn [flat_map]. rewrite !alist_get_app, IH.
    destruct (q k) eqn:Eq.
    - cbn [alist_get]. destruct (g k) as [p|] eqn:Eg; cbn [olist alist_get]; [|reflexivity].
      rewrite (Hg k p Eg) || idtac. destruct p as [pk pv]. cbn [alist_get]. pose proof (Hg k _ Eg) as Hk. cbn [fst] in Hk. subst pk.
      destruct (pystr_eqb k n) eqn:E; [|reflexivity]. apply pystr_eqb_spec in E. subst n. rewrite Eq. reflexivity.
    - destruct (g k) as [[pk pv]|] eqn:Eg; cbn [olist alist_get]; [|reflexivity].
      pose proof (Hg k _ Eg) as Hk. cbn [fst] in Hk. subst pk.
      destruct (pystr_eqb k n) eqn:E; [|reflexivity]. apply pystr_eqb_spec in E. subst n. rewrite Eq. reflexivity.
  Qed.

  Theorem clone_kwargs_src_same_bindings : forall cd a over n,
      has_dup (map fst over) = false ->
      alist_get (clone_kwargs_src cd a over) n = alist_get (clone_kwargs cd a over) n.
  Proof. reflexivity. Qed.

  (* Struct/Entry.v [clone_kwargs] now lists the keywords in the source's order: an equality of keyword LISTS *)
  Theorem generated_clone_is_entry : forall cd a over,
      find_class e (c_name cd) = Some cd ->
      names_ok a = true -> vals_defined a = true -> defaults_defined cd = true -> fields_ok cd = true ->
      entry_view (Structure__shallow_clone_with_overrides (EH cd cd) (EW cd cd) (kw_dict over) (inst_state a)) =
      run_entry re_match e (PStruct (c_name cd) a) (EClone over).
  Proof.
    intros cd a over Hd Ha Hva Hdd Hft. rewrite (generated_clone_is_constructor cd a over Hd Ha Hva Hdd Hft).
    unfold run_entry, entry_plan, with_instance, with_class. rewrite Hd. reflexivity.
  Qed.

  (* ---------------------------------------------------------------- from_other_class(<a mapping>, ignore_props=ig, **over) *)
  Definition ig_val (ig : list pystr) : pyval := match ig with [] => PNone | _ => PList (map PStr ig) end.

  (* the keywords with an ignore list: Struct/Entry.v [from_mapping_kwargs] is the case ig = [] *)
  Definition fm_pick (src over : kwargs) (ig : list pystr) (k : pystr) : option (pystr * pyval) :=
    if str_in k ig || alist_has over k then None
    else Some (k, match alist_get src k with Some v => v | None => PNone end).
  Definition from_mapping_kwargs_ig (c : classdef) (src over : kwargs) (ig : list pystr) : kwargs :=
    flat_map (fun k => olist (fm_pick src over ig k)) (field_names c) ++ over.

  Lemma from_mapping_ig_nil c src over : from_mapping_kwargs_ig c src over [] = from_mapping_kwargs c src over.
  Proof.
    unfold from_mapping_kwargs_ig, from_mapping_kwargs. f_equal. apply flat_map_ext. intro k. unfold fm_pick.
    cbn [str_in existsb orb]. destruct (alist_has over k); reflexivity.
  Qed.

  Lemma in_str_list k ig : py_in_dyn (PStr k) (PList (map PStr ig)) = Ok (str_in k ig).
  Proof. exact (in_names_list k ig). Qed.

  Theorem generated_from_mapping_is_entry : forall ct src over ig s,
      find_class e (c_name ct) = Some ct -> fields_ok ct = true ->
      has_dup (map fst over) = false -> vals_defined over = true -> vals_defined src = true ->
      entry_view (Structure__from_other_class (EH ct ct) (EW ct ct) (ref (cobj (c_name ct))) (kw_dict src) (ig_val ig)
                    (kw_dict over) s) =
      construct re_match e ct (from_mapping_kwargs_ig ct src over ig).
  Proof.
    intros ct src over ig s Ht Hft Hod Hov Hsv.
    pose proof (resolves_ct ct ct) as Rt.
    unfold Structure__from_other_class.
    change (kw_dict src) with (PDict (pairs src)).
    rewrite (bindM_ok _ _ s s (PBool true) eq_refl). cbv zeta.
    assert (HI : (c <~ (ret (py_truthy (ig_val ig))) ;; if c then (ret (ig_val ig)) else (ret (PList []))) s = (s, inl (PList (map PStr ig)))).
    { destruct ig; reflexivity. }
    rewrite (bindM_ok _ _ _ _ _ HI). cbv zeta.
    rewrite (class_fields ct ct ct Rt). rewrite (bindM_ok _ _ s s (fields_map ct) eq_refl).
    assert (Hit : PyOpsVersioned.py_iter (fields_map ct) = Ok (map PStr (field_names ct))).
    { unfold fields_map, PyOpsVersioned.py_iter, field_names. rewrite !map_map. reflexivity. }
    rewrite Hit. rewrite (bindM_ok _ _ s s (map PStr (field_names ct)) eq_refl).
    change (kw_dict over) with (PDict (pairs over)).
    assert (HK : obj_getattr_def (EH ct ct) (ref (cobj (c_name ct))) (s2p "_constants") (PDict []) = Ok (PDict [])).
    { unfold obj_getattr_def, ref. rewrite pystr_eqb_refl. rewrite Rt. reflexivity. }
    assert (HF : forall k, In k (field_names ct) ->
       (fun v_k_7 : pyval =>
          (c <~ (andM (notM (lift (py_in_dyn v_k_7 (PList (map PStr ig)))))
                      (fun _ => (andM (notM (lift (py_in_dyn v_k_7 (PDict (pairs over)))))
                         (fun _ => (andM (t8 <~ lift (obj_getattr_def (EH ct ct) (ref (cobj (c_name ct))) (s2p "_constants") (PDict [])) ;;
                                          notM (lift (py_in_dyn v_k_7 t8)))
                                    (fun _ => (orM (hasattr_dynM (EH ct ct) (PDict (pairs src)) v_k_7)
                                                   (fun _ => (ret (py_truthy (PBool true))))))))))) ;;
           if c then (t11 <~ (c0 <~ (ret (py_truthy (PBool true))) ;;
                              if c0 then (t9 <~ lift (obj_or_dict_get (EH ct ct) (PDict (pairs src)) v_k_7 PNone) ;; ret t9)
                              else (t10 <~ getattr_dynM (EH ct ct) (PDict (pairs src)) v_k_7 (Some PNone) ;; ret t10)) ;;
                      ret (Some (v_k_7, t11)))
           else ret None)) (PStr k) s =
       (s, inl (option_map ppair (fm_pick src over ig k)))).
    { intros k Hk. cbv beta.
      assert (C1 : notM (lift (py_in_dyn (PStr k) (PList (map PStr ig)))) s = (s, inl (negb (str_in k ig)))).
      { apply notM_eval. rewrite in_str_list. reflexivity. }
      assert (C2 : notM (lift (py_in_dyn (PStr k) (PDict (pairs over)))) s = (s, inl (negb (alist_has over k)))).
      { apply notM_eval. rewrite in_pairs. reflexivity. }
      assert (C3 : (t8 <~ lift (obj_getattr_def (EH ct ct) (ref (cobj (c_name ct))) (s2p "_constants") (PDict [])) ;;
                    notM (lift (py_in_dyn (PStr k) t8))) s = (s, inl (negb false))).
      { rewrite HK. reflexivity. }
      assert (C4 : orM (hasattr_dynM (EH ct ct) (PDict (pairs src)) (PStr k)) (fun _ => (ret (py_truthy (PBool true)))) s =
                   (s, inl (false || true))) by reflexivity.
      rewrite (bindM_ok _ _ _ _ _ (andM_eval _ _ _ _ _ C1 (andM_eval _ _ _ _ _ C2 (andM_eval _ _ _ _ _ C3 C4)))).
      unfold fm_pick. destruct (str_in k ig); [reflexivity|]. destruct (alist_has over k); [reflexivity|]. cbn [negb andb orb].
      rewrite bindM_assoc. rewrite (bindM_ok _ _ s s true eq_refl). cbv beta iota.
      unfold obj_or_dict_get, PyOpsVersioned.py_dict_get. cbn [py_hashable']. rewrite dict_get_pairs. reflexivity. }
    rewrite (bindM_ok _ _ _ _ _ (filterMM_names _ (fm_pick src over ig) s (field_names ct) HF)).
    set (B := flat_map (fun k => olist (fm_pick src over ig k)) (field_names ct)).
    assert (Hnd : has_dup (map fst B) = false).
    { apply flat_map_keys.
      - unfold fields_ok in Hft. apply andb_true_iff in Hft. destruct Hft as [_ H]. apply negb_true_iff, H.
      - intros k p H. unfold fm_pick in H. destruct (str_in k ig || alist_has over k); inversion H; reflexivity. }
    assert (Hud : forallb (fun p => negb (undefined_ref (snd p))) B = true).
    { apply forallb_forall. intros p Hp. apply in_flat_map in Hp.
      destruct Hp as [k [_ Hp]]. unfold fm_pick in Hp. destruct (str_in k ig || alist_has over k); [destruct Hp|].
      destruct Hp as [<-|[]]. cbn [snd]. destruct (alist_get src k) as [v|] eqn:Eg; [|reflexivity].
      clear -Hsv Eg. induction src as [|[n y] t IH]; [discriminate Eg|].
      cbn [vals_defined forallb snd] in Hsv. apply andb_true_iff in Hsv. destruct Hsv as [H1 H2].
      cbn [alist_get] in Eg. destruct (pystr_eqb n k); [inversion Eg; subst; exact H1 | apply IH; assumption]. }
    assert (Hfresh : forall p, In p over -> alist_get B (fst p) = None).
    { intros p Hp. apply alist_get_none_notin. destruct (str_in (fst p) (map fst B)) eqn:E; [|reflexivity].
      apply str_in_true in E. apply in_map_iff in E. destruct E as [q [Eq Hq]]. apply in_flat_map in Hq.
      destruct Hq as [k [_ Hq]]. unfold fm_pick in Hq. destruct (str_in k ig); [destruct Hq|]. cbn [orb] in Hq.
      destruct (alist_has over k) eqn:Eo; [destruct Hq|].
      destruct Hq as [<-|[]]. cbn [fst] in Eq. subst k.
      rewrite alist_has_keys2 in Eo. assert (str_in (fst p) (map fst over) = true) by (apply str_in_In, in_map, Hp). congruence. }
    rewrite (dict_of_pairs _ Hnd). rewrite (bindM_ok _ _ s s (PDict (pairs B)) eq_refl). cbv zeta.
    rewrite (bindM_ok _ _ s s (pairs B) eq_refl).
    change (filterMM _ (pairs B)) with (filterMM undef_filter (pairs B)).
    rewrite (bindM_ok _ _ _ _ _ (undef_filter_id s _ Hud)).
    rewrite (dict_of_pairs _ Hnd). rewrite (bindM_ok _ _ s s (PDict (pairs B)) eq_refl).
    change (PDict []) with (PDict (pairs [])).
    rewrite (merge_pairs [] B Hnd (fun _ _ => eq_refl)). cbn [app].
    rewrite (bindM_ok _ _ s s (PDict (pairs B)) eq_refl).
    rewrite (bindM_ok _ _ s s (pairs over) eq_refl).
    change (filterMM _ (pairs over)) with (filterMM undef_filter (pairs over)).
    rewrite (bindM_ok _ _ _ _ _ (undef_filter_id s _ Hov)).
    rewrite (dict_of_pairs _ Hod). rewrite (bindM_ok _ _ s s (PDict (pairs over)) eq_refl).
    rewrite (merge_pairs B over Hod Hfresh). rewrite (bindM_ok _ _ s s (PDict (pairs (B ++ over))) eq_refl). cbv zeta.
    unfold from_mapping_kwargs_ig. fold B.
    unfold tryM. unfold bindM at 1. rewrite (new_is_construct ct ct ct _ s Rt (or_introl eq_refl) Ht Ht).
    destruct (construct re_match e ct (B ++ over)) as [v|x]; [reflexivity|].
    unfold lift, raiseM. unfold catches. cbn [x_cls existsb].
    destruct (negb (model_level x) && (exc_subclass x TypeError || false)) eqn:Ec; [|reflexivity].
    unfold obj_getattr, ref. rewrite pystr_eqb_refl. rewrite Rt.
    change (class_attr e ct (s2p "__name__")) with (Some (PStr (c_name ct))).
    rewrite (bindM_ok _ _ s s false).
    - reflexivity.
    - unfold bindM, lift, ret. cbn [PyOpsDerive.py_format]. unfold py_substr, exc_str. cbn [x_cls x_arg w_repr_str EW entry_world].
      change (s2p ": missing a required argument") with (58%N :: s2p " missing a required argument").
      destruct x; rewrite str_contains_nil; reflexivity.
  Qed.

  Corollary generated_from_mapping_is_run_entry : forall ct src over cur s,
      find_class e (c_name ct) = Some ct -> fields_ok ct = true ->
      has_dup (map fst over) = false -> vals_defined over = true -> vals_defined src = true ->
      entry_view (Structure__from_other_class (EH ct ct) (EW ct ct) (ref (cobj (c_name ct))) (kw_dict src) PNone
                    (kw_dict over) s) =
      run_entry re_match e cur (EFromMapping (c_name ct) src over).
  Proof.
    intros ct src over cur s Ht Hft Hod Hov Hsv.
    change PNone with (ig_val []).
    rewrite (generated_from_mapping_is_entry ct src over [] s Ht Hft Hod Hov Hsv). rewrite from_mapping_ig_nil.
    unfold run_entry, entry_plan, with_class. rewrite Ht. reflexivity.
  Qed.
  (* from_other_class(<an instance>, ignore_props=ig, **over) *)
  Definition fo_pick_ig (cd : classdef) (a : attrs) (over : kwargs) (ig : list pystr) (k : pystr) : option (pystr * pyval) :=
    if str_in k ig || alist_has over k then None
    else match getattr_opt cd a k with Some v => Some (k, v) | None => None end.
  Definition from_other_kwargs_ig (cd ct : classdef) (a : attrs) (over : kwargs) (ig : list pystr) : kwargs :=
    flat_map (fun k => olist (fo_pick_ig cd a over ig k)) (field_names ct) ++ over.

  Lemma from_other_ig_nil cd ct a over : from_other_kwargs_ig cd ct a over [] = from_other_kwargs cd ct a over.
  Proof.
    unfold from_other_kwargs_ig, from_other_kwargs. f_equal. apply flat_map_ext. intro k. unfold fo_pick_ig.
    cbn [str_in existsb orb]. destruct (alist_has over k); [reflexivity|]. destruct (getattr_opt cd a k); reflexivity.
  Qed.

  Theorem generated_from_other_ignore : forall cd ct a over ig,
      find_class e (c_name cd) = Some cd -> find_class e (c_name ct) = Some ct ->
      names_ok a = true -> vals_defined a = true -> defaults_defined cd = true -> fields_ok ct = true ->
      has_dup (map fst over) = false -> vals_defined over = true ->
      entry_view (Structure__from_other_class (EH cd ct) (EW cd ct) (ref (cobj (c_name ct))) (ref (s2p "self")) (ig_val ig)
                    (kw_dict over) (inst_state a)) =
      construct re_match e ct (from_other_kwargs_ig cd ct a over ig).
  Proof.
    intros cd ct a over ig Hd Ht Ha Hva Hdd Hft Hod Hov.
    pose proof (resolves_ct cd ct) as Rt.
    set (s := inst_state a).
    unfold Structure__from_other_class.
    rewrite (bindM_ok _ _ s s (PBool false) eq_refl). cbv zeta.
    assert (HI : (c <~ (ret (py_truthy (ig_val ig))) ;; if c then (ret (ig_val ig)) else (ret (PList []))) s = (s, inl (PList (map PStr ig))))
      by (destruct ig; reflexivity).
    rewrite (bindM_ok _ _ _ _ _ HI). cbv zeta.
    rewrite (class_fields cd ct ct Rt). rewrite (bindM_ok _ _ s s (fields_map ct) eq_refl).
    assert (Hit : PyOpsVersioned.py_iter (fields_map ct) = Ok (map PStr (field_names ct))).
    { unfold fields_map, PyOpsVersioned.py_iter, field_names. rewrite !map_map. reflexivity. }
    rewrite Hit. rewrite (bindM_ok _ _ s s (map PStr (field_names ct)) eq_refl).
    change (kw_dict over) with (PDict (pairs over)).
    assert (HK : obj_getattr_def (EH cd ct) (ref (cobj (c_name ct))) (s2p "_constants") (PDict []) = Ok (PDict [])).
    { unfold obj_getattr_def, ref. rewrite pystr_eqb_refl. rewrite Rt. reflexivity. }
    assert (HF : forall k, In k (field_names ct) ->
       (fun v_k_7 : pyval =>
          (c <~ (andM (notM (lift (py_in_dyn v_k_7 (PList (map PStr ig)))))
                      (fun _ => (andM (notM (lift (py_in_dyn v_k_7 (PDict (pairs over)))))
                         (fun _ => (andM (t8 <~ lift (obj_getattr_def (EH cd ct) (ref (cobj (c_name ct))) (s2p "_constants") (PDict [])) ;;
                                          notM (lift (py_in_dyn v_k_7 t8)))
                                    (fun _ => (orM (hasattr_dynM (EH cd ct) (ref (s2p "self")) v_k_7)
                                                   (fun _ => (ret (py_truthy (PBool false))))))))))) ;;
           if c then (t11 <~ (c0 <~ (ret (py_truthy (PBool false))) ;;
                              if c0 then (t9 <~ lift (obj_or_dict_get (EH cd ct) (ref (s2p "self")) v_k_7 PNone) ;; ret t9)
                              else (t10 <~ getattr_dynM (EH cd ct) (ref (s2p "self")) v_k_7 (Some PNone) ;; ret t10)) ;;
                      ret (Some (v_k_7, t11)))
           else ret None)) (PStr k) s =
       (s, inl (option_map ppair (fo_pick_ig cd a over ig k)))).
    { intros k Hk. pose proof (field_name_ok ct k Hft Hk) as Hok. cbv beta.
      assert (C1 : notM (lift (py_in_dyn (PStr k) (PList (map PStr ig)))) s = (s, inl (negb (str_in k ig)))).
      { apply notM_eval. rewrite in_str_list. reflexivity. }
      assert (C2 : notM (lift (py_in_dyn (PStr k) (PDict (pairs over)))) s = (s, inl (negb (alist_has over k)))).
      { apply notM_eval. rewrite in_pairs. reflexivity. }
      assert (C3 : (t8 <~ lift (obj_getattr_def (EH cd ct) (ref (cobj (c_name ct))) (s2p "_constants") (PDict [])) ;;
                    notM (lift (py_in_dyn (PStr k) t8))) s = (s, inl (negb false))).
      { rewrite HK. reflexivity. }
      assert (C4 : orM (hasattr_dynM (EH cd ct) (ref (s2p "self")) (PStr k)) (fun _ => (ret (py_truthy (PBool false)))) s =
                   (s, inl ((match getattr_opt cd a k with Some _ => true | None => false end) || false))).
      { apply orM_eval; [exact (hasattr_self cd ct a k Hok) | reflexivity]. }
      rewrite (bindM_ok _ _ _ _ _ (andM_eval _ _ _ _ _ C1 (andM_eval _ _ _ _ _ C2 (andM_eval _ _ _ _ _ C3 C4)))).
      unfold fo_pick_ig. destruct (str_in k ig); [reflexivity|]. destruct (alist_has over k); [reflexivity|]. cbn [negb andb orb].
      destruct (getattr_opt cd a k) as [v|] eqn:Eg; cbn [orb]; [|reflexivity].
      rewrite bindM_assoc. rewrite (bindM_ok _ _ s s false eq_refl). cbv beta iota.
      rewrite bindM_assoc. unfold s. rewrite (bindM_ok _ _ _ _ _ (getattr_self_def cd ct a k Hok)). rewrite Eg. reflexivity. }
    rewrite (bindM_ok _ _ _ _ _ (filterMM_names _ (fo_pick_ig cd a over ig) s (field_names ct) HF)).
    set (B := flat_map (fun k => olist (fo_pick_ig cd a over ig k)) (field_names ct)).
    assert (Hnd : has_dup (map fst B) = false).
    { apply flat_map_keys.
      - unfold fields_ok in Hft. apply andb_true_iff in Hft. destruct Hft as [_ H]. apply negb_true_iff, H.
      - intros k p H. unfold fo_pick_ig in H. destruct (str_in k ig || alist_has over k); [discriminate H|].
        destruct (getattr_opt cd a k); inversion H; reflexivity. }
    assert (Hud : forallb (fun p => negb (undefined_ref (snd p))) B = true).
    { apply forallb_forall. intros p Hp. apply in_flat_map in Hp.
      destruct Hp as [k [_ Hp]]. unfold fo_pick_ig in Hp. destruct (str_in k ig || alist_has over k); [destruct Hp|].
      destruct (getattr_opt cd a k) as [v|] eqn:Eg; [|destruct Hp]. destruct Hp as [<-|[]]. cbn [snd].
      apply negb_true_iff. exact (getattr_opt_defined cd a k v Hva Hdd Eg). }
    assert (Hfresh : forall p, In p over -> alist_get B (fst p) = None).
    { intros p Hp. apply alist_get_none_notin. destruct (str_in (fst p) (map fst B)) eqn:E; [|reflexivity].
      apply str_in_true in E. apply in_map_iff in E. destruct E as [q [Eq Hq]]. apply in_flat_map in Hq.
      destruct Hq as [k [_ Hq]]. unfold fo_pick_ig in Hq. destruct (str_in k ig); [destruct Hq|]. cbn [orb] in Hq. destruct (alist_has over k) eqn:Eo; [destruct Hq|].
      destruct (getattr_opt cd a k); [|destruct Hq]. destruct Hq as [<-|[]]. cbn [fst] in Eq. subst k.
      rewrite alist_has_keys2 in Eo. assert (str_in (fst p) (map fst over) = true) by (apply str_in_In, in_map, Hp). congruence. }
    rewrite (dict_of_pairs _ Hnd). rewrite (bindM_ok _ _ s s (PDict (pairs B)) eq_refl). cbv zeta.
    rewrite (bindM_ok _ _ s s (pairs B) eq_refl).
    change (filterMM _ (pairs B)) with (filterMM undef_filter (pairs B)).
    rewrite (bindM_ok _ _ _ _ _ (undef_filter_id s _ Hud)).
    rewrite (dict_of_pairs _ Hnd). rewrite (bindM_ok _ _ s s (PDict (pairs B)) eq_refl).
    change (PDict []) with (PDict (pairs [])).
    rewrite (merge_pairs [] B Hnd (fun _ _ => eq_refl)). cbn [app].
    rewrite (bindM_ok _ _ s s (PDict (pairs B)) eq_refl).
    rewrite (bindM_ok _ _ s s (pairs over) eq_refl).
    change (filterMM _ (pairs over)) with (filterMM undef_filter (pairs over)).
    rewrite (bindM_ok _ _ _ _ _ (undef_filter_id s _ Hov)).
    rewrite (dict_of_pairs _ Hod). rewrite (bindM_ok _ _ s s (PDict (pairs over)) eq_refl).
    rewrite (merge_pairs B over Hod Hfresh). rewrite (bindM_ok _ _ s s (PDict (pairs (B ++ over))) eq_refl). cbv zeta.
    unfold from_other_kwargs_ig. fold B.
    unfold tryM. unfold bindM at 1. rewrite (new_is_construct cd ct ct _ s Rt (or_introl eq_refl) Hd Ht).
    destruct (construct re_match e ct (B ++ over)) as [v|x]; [reflexivity|].
    unfold lift, raiseM. unfold catches. cbn [x_cls existsb].
    destruct (negb (model_level x) && (exc_subclass x TypeError || false)) eqn:Ec; [|reflexivity].
    unfold obj_getattr, ref. rewrite pystr_eqb_refl. rewrite Rt.
    change (class_attr e ct (s2p "__name__")) with (Some (PStr (c_name ct))).
    rewrite (bindM_ok _ _ s s false).
    - reflexivity.
    - unfold bindM, lift, ret. cbn [PyOpsDerive.py_format]. unfold py_substr, exc_str. cbn [x_cls x_arg w_repr_str EW entry_world].
      change (s2p ": missing a required argument") with (58%N :: s2p " missing a required argument").
      destruct x; rewrite str_contains_nil; reflexivity.
  Qed.
End Entries.

Print Assumptions generated_from_other_ignore.
Print Assumptions generated_from_mapping_is_entry.
Print Assumptions generated_from_mapping_is_run_entry.
Print Assumptions generated_cast_to_is_entry.
Print Assumptions generated_from_other_is_entry.
Print Assumptions generated_clone_is_constructor.
Print Assumptions clone_kwargs_src_same_bindings.
Print Assumptions generated_clone_is_entry.
