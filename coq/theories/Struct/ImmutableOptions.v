(* C04: histories of attribute assignments on an instance, over the CLASS OPTIONS that Structure.__setattr__
   branches on (_enable_undefined_value, _ignore_none, _additional_properties, _required) — on the two-component
   instance state of Struct/NoneFields.v (attributes, explicit-None markers).  Executable; no proofs here. *)
From Coq Require Import ZArith NArith String List Bool. Import ListNotations.
From TP Require Import Base.PyVal Fields.FieldAst Fields.SetChain Struct.Shapes Struct.Instance Struct.NoneFields.

(* a one-field class description for every combination of the options *)
Definition opt_int : field := FNumber KInteger SAny no_numc.
Definition opt_class (imm fimm ign ap req : bool) : classdef :=
  {| c_name := s2p "K"; c_ancestors := [];
     c_fields := [ {| fd_name := s2p "f"; fd_field := opt_int; fd_immutable := fimm; fd_default := None |} ];
     c_required := if req then [s2p "f"] else []; c_additional := ap; c_ignore_none := ign; c_immutable := imm;
     c_hook := HookNone |}.

Section WithOracle.
  Variable re_match : N -> pystr -> bool.
  Variable e : env.

  (* a history of assignments x.n = v on one instantiated instance; exceptions are caught by the client *)
  Fixpoint run_sets (c : classdef) (u : bool) (st : ustate) (ops : list (pystr * pyval)) : ustate :=
    match ops with
    | [] => st
    | (n, v) :: t => run_sets c u (fst (setattr_u re_match e c u true st n v)) t
    end.

  Definition all_raise (c : classdef) (u : bool) (st : ustate) (ops : list (pystr * pyval)) : bool :=
    forallb (fun nv => match snd (setattr_u re_match e c u true st (fst nv) (snd nv)) with
                       | Raised ValueError => true | _ => false end) ops.

  (* what the client observes of field n: its attribute and whether it is marked explicit-None *)
  Definition field_view (st : ustate) (n : pystr) : option pyval * bool :=
    (alist_get (u_attrs st) n, str_in n (u_none st)).

  (* the one assignment that the immutable-field test of Field.__set__ never sees: None under
     _enable_undefined_value to a non-required field (the marker is added by __setattr__ itself, which refuses
     when the field is declared immutable and holds a value: NoneFields.marker_blocked) *)
  Definition none_marker_path (c : classdef) (u : bool) (n : pystr) (v : pyval) : bool :=
    u && is_none_val v && negb (is_required c n) && str_in n (field_names c).
End WithOracle.
