(* Bridging theorems: the GENERATED translations Gen/AliasSrc.v (harness/genmods/py2v_alias.py, from the current
   source of ImmutableMixin and of the wrappers _ListStruct / _DequeStruct / _DictStruct) compute, for EVERY heap,
   every wrapper and every deepcopy function [rec], what the hand model Struct/CopyHeap.v prescribes.

   How a model-level description is seen as the Python-level `self`.  The hand model's wrapper is a heap object
   of kind KWList / KWDeque / KWDict whose children are the items; its binding (the Field it belongs to, the owning
   instance) is not in the heap.  Python-level `self` is [wview b fimm ib nm]:
       "@body"             b     the container: AV (CRef l) for an allocated wrapper
       "_field_definition" fdesc fimm          a Field whose `_immutable` attribute is fimm
       "_instance"         inst_of ib          None (ib = None) or a Structure instance described by its identity,
                                               `_immutable` and `_disable_protection` (ib = Some (i, iimm, dp))
       "_name"             nm
   [simm fimm ib] is the model-level "this wrapper is bound to an immutable owner" (AliasIntake's fimm || iimm). *)
From Coq Require Import ZArith NArith Bool List Arith String Lia.
Import ListNotations.
From TP Require Import Base.PyVal Struct.CopyHeap Struct.CopyHeapProofs Base.PyOpsAlias Gen.AliasSrc Gen.CopySites.

Definition fdesc (fimm : bool) : aval := AObj [(s2p "_immutable", abool fimm)].
Definition ibind := option (option loc * bool * bool).
Definition inst_of (ib : ibind) : aval :=
  match ib with
  | None => anone
  | Some (i, iimm, dp) =>
      AObj [(id_key, AId i); (s2p "_immutable", abool iimm); (s2p "_disable_protection", abool dp)]
  end.
Definition wattrs (fd inst nm : aval) : list (pystr * aval) :=
  [(s2p "_field_definition", fd); (s2p "_instance", inst); (s2p "_name", nm)].
Definition wview (b : aval) (fimm : bool) (ib : ibind) (nm : aval) : aval :=
  AObj ((body_key, b) :: wattrs (fdesc fimm) (inst_of ib) nm).
Definition simm (fimm : bool) (ib : ibind) : bool :=
  fimm || match ib with Some (_, iimm, _) => iimm | None => false end.

Ltac acbv := cbv -[get map_kidsR map_kids alloc List.length app kid_pairs map as_kids run_thunks a_fold same_refs
                   child_isinstance existsb kind_isinstance py_truthy nth_kid Z.of_nat Z.to_nat Z.ltb Z.add
                   proxy_thunks plain_kind is_wrapper].

(* ------------------------------------------------------------------ ImmutableMixin *)

Lemma src_is_immutable E rec b fimm ib nm h :
  Src_ImmutableMixin_is_immutable E rec (wview b fimm ib nm) h = Ok (h, abool (simm fimm ib)).
Proof.
  destruct fimm; [reflexivity |].
  destruct ib as [[[i iimm] dp]|]; [destruct iimm |]; reflexivity.
Qed.

(* the binding of the allocated wrappers, model level; the environment the generated code reads it from *)
Record wbind := { wb_fimm : bool; wb_inst : ibind; wb_name : aval }.
Definition env_of (tbl : loc -> option wbind) (iattr : loc -> pystr -> option pyval) (dflt : pystr -> option pyval) : aenv :=
  {| e_wattrs := fun l => match tbl l with
                          | Some wb => Some (wattrs (fdesc (wb_fimm wb)) (inst_of (wb_inst wb)) (wb_name wb))
                          | None => None
                          end;
     e_iattr := iattr; e_defaults := dflt |}.

(* the isinstance exemptions of _get_defensive_copy_if_needed, as the hand models read them (CopyHeap.tyname) *)
Definition atom_tys : list tyname := [TInt; TFloat; TStr; TTuple; TBool; TEnum; TImmStructure].

(* `isinstance(value, <atom_tys>) or (isinstance(value, ImmutableMixin) and value._is_immutable())` *)
Definition exempt (tbl : loc -> option wbind) (h : heap) (c : child) : res bool :=
  if child_isinstance h c atom_tys then Ok true
  else if child_isinstance h c [TImmMixin]
       then match c with
            | CRef l => match tbl l with Some wb => Ok (simm (wb_fimm wb) (wb_inst wb)) | None => Raise Unmodelled end
            | CAtom _ => Ok false
            end
       else Ok false.

Lemma atom_not_mixin v : atom_isinstance v TImmMixin = false.
Proof. destruct v as [| |n| | | | |fr l| | | |]; try reflexivity; [destruct n | destruct fr]; reflexivity. Qed.

(* a fresh plain container is never exempt: it is deep-copied exactly when the wrapper is bound immutable *)
Lemma src_defcopy_tmp E rec b fimm ib nm k kids h :
  plain_kind k = true ->
  Src_ImmutableMixin_get_defensive_copy_if_needed E rec (wview b fimm ib nm) (ATmp k kids) h =
  if simm fimm ib then a_deepcopy rec (ATmp k kids) h else Ok (h, ATmp k kids).
Proof.
  intro P. unfold Src_ImmutableMixin_get_defensive_copy_if_needed.
  unfold mbind at 1. unfold m_and at 1. unfold mbind at 1. unfold m_not at 1. unfold mbind at 1.
  assert (A : forall tys, (t5 <~ mret (ATmp k kids) ;; a_isinstance t5 tys) h = Ok (h, existsb (kind_isinstance k) tys)) by reflexivity.
  rewrite A.
  assert (K1 : existsb (kind_isinstance k) [TInt; TFloat; TStr; TTuple; TBool; TEnum; TImmStructure] = false)
    by (destruct k; try discriminate P; reflexivity).
  rewrite K1. cbn [negb mret].
  unfold m_and at 1. unfold mbind at 1. unfold m_not at 1. unfold mbind at 1. unfold m_and at 1. unfold mbind at 1.
  rewrite A.
  assert (K2 : existsb (kind_isinstance k) [TImmMixin] = false) by (destruct k; try discriminate P; reflexivity).
  rewrite K2. cbn [negb mret]. unfold mbind at 1. rewrite src_is_immutable.
  destruct (simm fimm ib); reflexivity.
Qed.

(* an item / a value read through the wrapper: handed out as it is unless the wrapper is bound immutable and the
   value is not exempt *)
Lemma src_defcopy_child tbl ia df rec b fimm ib nm c h :
  Src_ImmutableMixin_get_defensive_copy_if_needed (env_of tbl ia df) rec (wview b fimm ib nm) (AV c) h =
  match exempt tbl h c with
  | Raise e => Raise e
  | Ok ex => if negb ex && simm fimm ib then a_deepcopy rec (AV c) h else Ok (h, AV c)
  end.
Proof.
  unfold Src_ImmutableMixin_get_defensive_copy_if_needed, exempt.
  unfold mbind at 1. unfold m_and at 1. unfold mbind at 1. unfold m_not at 1. unfold mbind at 1.
  assert (A : forall tys, (t5 <~ mret (AV c) ;; a_isinstance t5 tys) h = Ok (h, child_isinstance h c tys)) by reflexivity.
  rewrite A. fold atom_tys.
  destruct (child_isinstance h c atom_tys) eqn:K1; [reflexivity |].
  cbn [negb mret].
  unfold m_and at 1. unfold mbind at 1. unfold m_not at 1. unfold mbind at 1. unfold m_and at 1. unfold mbind at 1.
  rewrite A.
  destruct (child_isinstance h c [TImmMixin]) eqn:K2.
  - destruct c as [v|l]; [cbn [child_isinstance existsb] in K2; rewrite atom_not_mixin in K2; discriminate K2 |].
    cbn [child_isinstance] in K2.
    unfold mbind at 1. unfold mbind at 1. unfold mbind at 1. unfold mret at 1. unfold a_with_self. unfold mbind at 1.
    unfold a_as_self.
    destruct (get h l) as [o|] eqn:G; [| discriminate K2].
    assert (W : is_wrapper (o_kind o) = true).
    { destruct (o_kind o) as [| | | | | |cls imm| | |]; simpl in K2; try discriminate K2; try reflexivity. destruct imm; discriminate K2. }
    rewrite W. cbn [e_wattrs env_of].
    destruct (tbl l) as [wb|]; [| reflexivity].
    change (AObj ((body_key, AV (CRef l)) :: wattrs (fdesc (wb_fimm wb)) (inst_of (wb_inst wb)) (wb_name wb)))
      with (wview (AV (CRef l)) (wb_fimm wb) (wb_inst wb) (wb_name wb)).
    rewrite src_is_immutable.
    destruct (simm (wb_fimm wb) (wb_inst wb)); cbn -[Src_ImmutableMixin_is_immutable wview].
    + reflexivity.
    + unfold mbind at 1. rewrite src_is_immutable. destruct (simm fimm ib); reflexivity.
  - cbn [negb mret]. unfold mbind at 1. rewrite src_is_immutable. destruct (simm fimm ib); reflexivity.
Qed.

Lemma a_body_wview b fimm ib nm h : a_body (wview b fimm ib nm) h = Ok (h, b).
Proof. reflexivity. Qed.

(* ------------------------------------------------------------------ iteration helpers *)

(* the children as a comprehension / list(x) / super().__init__(x) re-labels them (list items carry no label) *)
Definition unlabel (kids : list (pystr * child)) : list (pystr * child) := map (fun p => (([] : pystr), snd p)) kids.

Definition labels_emptyb (kids : list (pystr * child)) : bool :=
  forallb (fun p => match fst p with [] => true | _ => false end) kids.

Lemma unlabel_id kids : labels_emptyb kids = true -> unlabel kids = kids.
Proof.
  induction kids as [|[k c] t IH]; [reflexivity |]. simpl. intro H.
  destruct k; [| discriminate H]. rewrite (IH H). reflexivity.
Qed.

Lemma unlabel_idem kids : unlabel (unlabel kids) = unlabel kids.
Proof. unfold unlabel. rewrite map_map. reflexivity. Qed.

Lemma run_plain_thunks kids h :
  run_thunks (map (fun p : pystr * child => mret (AV (snd p))) kids) h = Ok (h, map (fun p => AV (snd p)) kids).
Proof.
  induction kids as [|p t IH]; [reflexivity |].
  cbn [map run_thunks]. unfold mbind at 1. unfold mret at 1. unfold mbind at 1. rewrite IH. reflexivity.
Qed.

Lemma as_kids_plain kids : as_kids (map (fun p : pystr * child => AV (snd p)) kids) = Some (unlabel kids).
Proof. induction kids as [|p t IH]; [reflexivity |]. cbn [map as_kids]. rewrite IH. reflexivity. Qed.

Definition lift_kids {A} (r : res (heap * list (pystr * child))) (k : heap -> list (pystr * child) -> res A) : res A :=
  match r with Ok (h1, ks) => k h1 ks | Raise e => Raise e end.

(* [f(v) for v in <a plain list>] with f = deepcopy: the children copied one after the other *)
Lemma listcomp_deepcopy rec (f : aval -> M aval) :
  (forall x h, f x h = a_deepcopy rec x h) ->
  forall kids acc h,
    a_fold (fun acc x => y <~ f x ;; c <~ a_child y ;; mret (acc ++ [(([] : pystr), c)]))
           (map (fun p : pystr * child => mret (AV (snd p))) kids) acc h =
    lift_kids (map_kidsR rec h (unlabel kids)) (fun h1 ks => Ok (h1, acc ++ ks)).
Proof.
  intro F. induction kids as [|[k c] t IH]; intros acc h.
  - cbn. rewrite app_nil_r. reflexivity.
  - cbn [map a_fold unlabel snd map_kidsR]. unfold mbind at 1. unfold mret at 1. unfold mbind at 1. unfold mbind at 1.
    rewrite F. unfold a_deepcopy.
    destruct (rec h c) as [[h1 c1]|e]; [| reflexivity].
    unfold mbind at 1. unfold a_child at 1. unfold mret at 1. unfold mret at 1.
    rewrite IH. fold (unlabel t).
    destruct (map_kidsR rec h1 (unlabel t)) as [[h2 t2]|e]; [| reflexivity].
    cbn [lift_kids]. rewrite <- app_assoc. reflexivity.
Qed.

Lemma listcomp_deepcopy_plain rec (f : aval -> M aval) kids h :
  (forall x h, f x h = a_deepcopy rec x h) ->
  a_listcomp f (map (fun p : pystr * child => mret (AV (snd p))) kids) h =
  lift_kids (map_kidsR rec h (unlabel kids)) (fun h1 ks => Ok (h1, ATmp KList ks)).
Proof.
  intro F. unfold a_listcomp. unfold mbind at 1. rewrite (listcomp_deepcopy rec f F).
  destruct (map_kidsR rec h (unlabel kids)) as [[h1 ks]|e]; reflexivity.
Qed.

Definition opt_copy (b : bool) (rec : heap -> child -> res (heap * child)) (h : heap) (kids : list (pystr * child))
  : res (heap * list (pystr * child)) := if b then map_kidsR rec h kids else Ok (h, kids).

(* ------------------------------------------------------------------ _ListStruct *)

Section ListStruct.
  Variables (E : aenv) (rec : heap -> child -> res (heap * child)).
  Variables (fimm : bool) (ib : ibind) (nm : aval).

  (* self[:] and copy(): a NEW plain list of the items (deep copies of them when bound immutable) -- never the
     live list *)
  Lemma src_list_slice l h o :
    get h l = Some o -> o_kind o = KWList ->
    Src_ListStruct_getitem E rec (wview (AV (CRef l)) fimm ib nm) ASliceAll h =
    lift_kids (opt_copy (simm fimm ib) rec h (o_kids o)) (fun h1 ks => Ok (h1, ATmp KList ks)).
  Proof.
    intros G K. unfold Src_ListStruct_getitem. unfold mbind at 1.
    assert (A : (t1 <~ mret ASliceAll ;; a_super_getitem (wview (AV (CRef l)) fimm ib nm) t1) h = Ok (h, ATmp KList (o_kids o))).
    { unfold mbind at 1. unfold mret at 1. unfold a_super_getitem, mbind. rewrite a_body_wview.
      unfold kind_of, a_kids. repeat (first [rewrite G | rewrite K | progress cbn beta iota]). reflexivity. }
    rewrite A. unfold mbind at 1. unfold mret at 1.
    rewrite src_defcopy_tmp by reflexivity. unfold opt_copy.
    destruct (simm fimm ib); [| reflexivity]. unfold a_deepcopy. cbn [plain_kind].
    destruct (map_kidsR rec h (o_kids o)) as [[h1 ks]|e]; reflexivity.
  Qed.

  Theorem src_list_copy l h o :
    get h l = Some o -> o_kind o = KWList ->
    Src_ListStruct_copy E rec (wview (AV (CRef l)) fimm ib nm) h =
    lift_kids (opt_copy (simm fimm ib) rec h (o_kids o)) (fun h1 ks => Ok (h1, ATmp KList ks)).
  Proof.
    intros G K. unfold Src_ListStruct_copy. unfold mbind at 1.
    assert (A : a_super_copy (wview (AV (CRef l)) fimm ib nm) h = Ok (h, ATmp KList (o_kids o))).
    { unfold a_super_copy, mbind. rewrite a_body_wview. unfold kind_of, a_kids. repeat (first [rewrite G | rewrite K | progress cbn beta iota]). reflexivity. }
    rewrite A. unfold mbind at 1. unfold mbind at 1. rewrite src_is_immutable. unfold opt_copy.
    destruct (simm fimm ib); [| reflexivity].
    cbn -[map_kidsR]. destruct (map_kidsR rec h (o_kids o)) as [[h1 ks]|e]; reflexivity.
  Qed.

  (* _ListStruct(field, instance, <a fresh plain list>, name): the new wrapper's body holds the items of the list
     (deep copies of them when bound immutable) *)
  Lemma src_list_init kids h :
    Src_ListStruct_init E rec (AObj []) (fdesc fimm) (inst_of ib) (ATmp KList kids) nm h =
    lift_kids (opt_copy (simm fimm ib) rec h kids) (fun h1 ks => Ok (h1, wview (ATmp KWList (unlabel ks)) fimm ib nm)).
  Proof.
    unfold Src_ListStruct_init.
    unfold mbind at 1. unfold mbind at 1. unfold mret at 1. unfold a_setattr at 1. cbn [alist_set]. unfold mret at 1.
    unfold mbind at 1. unfold mbind at 1. unfold mret at 1. unfold a_setattr at 1. unfold mret at 1.
    unfold mbind at 1. unfold mbind at 1. unfold mret at 1. unfold a_setattr at 1. unfold mret at 1.
    unfold mbind at 1. unfold mbind at 1. unfold mbind at 1. unfold mret at 1.
    match goal with |- context [Src_ImmutableMixin_get_defensive_copy_if_needed E rec ?s _ _] =>
      change s with (AObj (wattrs (fdesc fimm) (inst_of ib) nm)) end.
    assert (D : forall v, Src_ImmutableMixin_get_defensive_copy_if_needed E rec (AObj (wattrs (fdesc fimm) (inst_of ib) nm)) v h =
                          Src_ImmutableMixin_get_defensive_copy_if_needed E rec (wview anone fimm ib nm) v h).
    { intro v. destruct fimm; destruct ib as [[[i iimm] dp]|]; try destruct iimm; reflexivity. }
    rewrite D. rewrite src_defcopy_tmp by reflexivity. unfold opt_copy.
    assert (I : forall h1 ks,
      a_super_init E (Src_wrapper_iter E rec) (Src_wrapper_getitem E rec) KWList (AObj (wattrs (fdesc fimm) (inst_of ib) nm)) (ATmp KList ks) h1 =
      Ok (h1, wview (ATmp KWList (unlabel ks)) fimm ib nm)).
    { intros h1 ks. unfold a_super_init.
      assert (N : alist_get (wattrs (fdesc fimm) (inst_of ib) nm) body_key = None) by reflexivity.
      rewrite N. unfold mbind at 1. cbn [a_iterate]. unfold mret at 1. unfold mbind at 1.
      rewrite run_plain_thunks. rewrite as_kids_plain. reflexivity. }
    destruct (simm fimm ib).
    - unfold a_deepcopy. cbn [plain_kind].
      destruct (map_kidsR rec h kids) as [[h1 ks]|e]; [| reflexivity].
      cbn [lift_kids]. rewrite I. reflexivity.
    - cbn [lift_kids]. rewrite I. reflexivity.
  Qed.
End ListStruct.

(* ------------------------------------------------------------------ attribute reads of `self` *)

Lemma getattr_instance E b fimm ib nm h : a_getattr E (wview b fimm ib nm) (s2p "_instance") h = Ok (h, inst_of ib).
Proof. reflexivity. Qed.
Lemma getattr_fielddef E b fimm ib nm h : a_getattr E (wview b fimm ib nm) (s2p "_field_definition") h = Ok (h, fdesc fimm).
Proof. reflexivity. Qed.
Lemma getattr_name E b fimm ib nm h : a_getattr E (wview b fimm ib nm) (s2p "_name") h = Ok (h, nm).
Proof. reflexivity. Qed.

Definition id_of (ib : ibind) : option loc := match ib with Some (i, _, _) => i | None => None end.

Lemma a_id_inst ib h : a_id (inst_of ib) h = Ok (h, AId (id_of ib)).
Proof. destruct ib as [[[i iimm] dp]|]; reflexivity. Qed.

(* memo.get(id(self._instance), self._instance): the owner the copy is bound to *)
Definition rebind (m : list (loc * aval)) (ib : ibind) : aval :=
  match id_of ib with
  | Some i => match memo_find m i with Some x => x | None => inst_of ib end
  | None => inst_of ib
  end.

Lemma memo_get_inst m ib h : a_memo_get (AMemo m) (AId (id_of ib)) (inst_of ib) h = Ok (h, rebind m ib).
Proof. unfold rebind. destruct (id_of ib); reflexivity. Qed.

Lemma deepcopy_fdesc rec fimm h : a_deepcopy rec (fdesc fimm) h = Ok (h, fdesc fimm).
Proof. reflexivity. Qed.

(* what a wrapper's __deepcopy__ computes.  s1: the wrapper is bound immutable (reading it deep-copies), s2: the
   copy is bound immutable (its __init__ deep-copies).  The hand model CopyHeap.dc is the case s1 = s2 = false. *)
Definition deepcopy_wrapper_spec (k : okind) (rec : heap -> child -> res (heap * child)) (s1 s2 : bool)
           (h : heap) (kids : list (pystr * child)) : res (heap * child) :=
  lift_kids (opt_copy s1 rec h kids) (fun h1 k1 =>
  lift_kids (map_kidsR rec h1 (unlabel k1)) (fun h2 k2 =>
  lift_kids (opt_copy s2 rec h2 k2) (fun h3 k3 => Ok (alloc h3 {| o_kind := k; o_kids := unlabel k3 |})))).

Ltac mstep := unfold mbind, mret; cbn beta iota.

Theorem src_list_deepcopy E rec fimm ib nm l h o m ib' :
  get h l = Some o -> o_kind o = KWList -> rebind m ib = inst_of ib' ->
  (r <~ Src_ListStruct_deepcopy E rec (wview (AV (CRef l)) fimm ib nm) (AMemo m) ;; a_to_child r) h =
  deepcopy_wrapper_spec KWList rec (simm fimm ib) (simm fimm ib') h (o_kids o).
Proof.
  intros G K R. unfold Src_ListStruct_deepcopy, deepcopy_wrapper_spec. mstep.
  rewrite (src_list_slice E rec fimm ib nm l h o G K).
  destruct (opt_copy (simm fimm ib) rec h (o_kids o)) as [[h1 k1]|e]; [| reflexivity].
  cbn [lift_kids a_iterate]. mstep.
  match goal with |- context [a_listcomp ?f ?ths ?hh] =>
    replace (a_listcomp f ths hh) with (lift_kids (map_kidsR rec hh (unlabel k1)) (fun h1 ks => Ok (h1, ATmp KList ks)))
      by (symmetry; apply (listcomp_deepcopy_plain rec); intros; reflexivity) end.
  destruct (map_kidsR rec h1 (unlabel k1)) as [[h2 k2]|e]; [| reflexivity].
  cbn [lift_kids]. mstep.
  rewrite getattr_instance. mstep. rewrite a_id_inst. mstep.
  rewrite getattr_fielddef. mstep. rewrite deepcopy_fdesc. mstep.
  rewrite getattr_instance. mstep. rewrite memo_get_inst. mstep.
  rewrite getattr_name. mstep. rewrite R.
  rewrite src_list_init.
  destruct (opt_copy (simm fimm ib') rec h2 k2) as [[h3 k3]|e]; [| reflexivity].
  reflexivity.
Qed.
