(* Bridging theorems: the GENERATED translations Gen/AliasSrc.v (harness/genmods/py2v_alias.py, from the current
   source of ImmutableMixin and of the wrappers _ListStruct / _DequeStruct / _DictStruct) compute, for EVERY heap,
   every wrapper and every deepcopy function [rec], what the hand model Struct/CopyHeap.v prescribes.

   How a model-level description is seen as the Python-level `self`.  The hand model's wrapper is a heap object
   of kind KWList / KWDeque / KWDict whose children are the items; its binding (the Field it belongs to, the owning
   instance) is not in the heap.  Python-level `self` is [wview b fimm ib nm]:
       "@body"             b     the container: AV (CRef l) for an allocated wrapper
       "_field_definition" fdesc fimm          a Field whose `_immutable` attribute is fimm
       "_instance"         inst_of ib          None (ib = None) or a Structure instance described by its identity,
                                               `_immutable` and `_disable_protection` (ib = Some (i, iimm, dp))
       "_name"             nm
   [simm fimm ib] is the model-level "this wrapper is bound to an immutable owner" (AliasIntake's fimm || iimm). *)
From Coq Require Import ZArith NArith Bool List Arith String Lia.
Import ListNotations.
From TP Require Import Base.PyVal Struct.CopyHeap Struct.CopyHeapProofs Base.PyOpsAlias Gen.AliasSrc Gen.CopySites.

Definition fdesc (fimm : bool) : aval := AObj [(s2p "_immutable", abool fimm)].
Definition ibind := option (option loc * bool * bool).
Definition inst_of (ib : ibind) : aval :=
  match ib with
  | None => anone
  | Some (i, iimm, dp) =>
      AObj [(id_key, AId i); (s2p "_immutable", abool iimm); (s2p "_disable_protection", abool dp)]
  end.
Definition wattrs (fd inst nm : aval) : list (pystr * aval) :=
  [(s2p "_field_definition", fd); (s2p "_instance", inst); (s2p "_name", nm)].
Definition wview (b : aval) (fimm : bool) (ib : ibind) (nm : aval) : aval :=
  AObj ((body_key, b) :: wattrs (fdesc fimm) (inst_of ib) nm).
Definition simm (fimm : bool) (ib : ibind) : bool :=
  fimm || match ib with Some (_, iimm, _) => iimm | None => false end.

Ltac acbv := cbv -[get map_kidsR map_kids alloc List.length app kid_pairs map as_kids run_thunks a_fold same_refs
                   child_isinstance existsb kind_isinstance py_truthy nth_kid Z.of_nat Z.to_nat Z.ltb Z.add
                   proxy_thunks plain_kind is_wrapper].

(* ------------------------------------------------------------------ ImmutableMixin *)

Lemma src_is_immutable E rec b fimm ib nm h :
  Src_ImmutableMixin_is_immutable E rec (wview b fimm ib nm) h = Ok (h, abool (simm fimm ib)).
Proof.
  destruct fimm; [reflexivity |].
  destruct ib as [[[i iimm] dp]|]; [destruct iimm |]; reflexivity.
Qed.

(* the binding of the allocated wrappers, model level; the environment the generated code reads it from *)
Record wbind := { wb_fimm : bool; wb_inst : ibind; wb_name : aval }.
Definition env_of (tbl : loc -> option wbind) (iattr : loc -> pystr -> option pyval) (dflt : pystr -> option pyval) : aenv :=
  {| e_wattrs := fun l => match tbl l with
                          | Some wb => Some (wattrs (fdesc (wb_fimm wb)) (inst_of (wb_inst wb)) (wb_name wb))
                          | None => None
                          end;
     e_iattr := iattr; e_defaults := dflt |}.

(* the isinstance exemptions of _get_defensive_copy_if_needed, as the hand models read them (CopyHeap.tyname) *)
Definition atom_tys : list tyname := [TInt; TFloat; TStr; TTuple; TBool; TEnum; TImmStructure].

(* `isinstance(value, <atom_tys>) or (isinstance(value, ImmutableMixin) and value._is_immutable())` *)
Definition exempt (tbl : loc -> option wbind) (h : heap) (c : child) : res bool :=
  if child_isinstance h c atom_tys then Ok true
  else if child_isinstance h c [TImmMixin]
       then match c with
            | CRef l => match tbl l with Some wb => Ok (simm (wb_fimm wb) (wb_inst wb)) | None => Raise Unmodelled end
            | CAtom _ => Ok false
            end
       else Ok false.

Lemma atom_not_mixin v : atom_isinstance v TImmMixin = false.
Proof. destruct v as [| |n| | | | |fr l| | | |]; try reflexivity; [destruct n | destruct fr]; reflexivity. Qed.

(* a fresh plain container is never exempt: it is deep-copied exactly when the wrapper is bound immutable *)
Lemma src_defcopy_tmp E rec b fimm ib nm k kids h :
  plain_kind k = true ->
  Src_ImmutableMixin_get_defensive_copy_if_needed E rec (wview b fimm ib nm) (ATmp k kids) h =
  if simm fimm ib then a_deepcopy rec (ATmp k kids) h else Ok (h, ATmp k kids).
Proof.
  intro P. unfold Src_ImmutableMixin_get_defensive_copy_if_needed.
  unfold mbind at 1. unfold m_and at 1. unfold mbind at 1. unfold m_not at 1. unfold mbind at 1.
  assert (A : forall tys, (t5 <~ mret (ATmp k kids) ;; a_isinstance t5 tys) h = Ok (h, existsb (kind_isinstance k) tys)) by reflexivity.
  rewrite A.
  assert (K1 : existsb (kind_isinstance k) [TInt; TFloat; TStr; TTuple; TBool; TEnum; TImmStructure] = false)
    by (destruct k; try discriminate P; reflexivity).
  rewrite K1. cbn [negb mret].
  unfold m_and at 1. unfold mbind at 1. unfold m_not at 1. unfold mbind at 1. unfold m_and at 1. unfold mbind at 1.
  rewrite A.
  assert (K2 : existsb (kind_isinstance k) [TImmMixin] = false) by (destruct k; try discriminate P; reflexivity).
  rewrite K2. cbn [negb mret]. unfold mbind at 1. rewrite src_is_immutable.
  destruct (simm fimm ib); reflexivity.
Qed.

(* an item / a value read through the wrapper: handed out as it is unless the wrapper is bound immutable and the
   value is not exempt *)
Lemma src_defcopy_child tbl ia df rec b fimm ib nm c h :
  Src_ImmutableMixin_get_defensive_copy_if_needed (env_of tbl ia df) rec (wview b fimm ib nm) (AV c) h =
  match exempt tbl h c with
  | Raise e => Raise e
  | Ok ex => if negb ex && simm fimm ib then a_deepcopy rec (AV c) h else Ok (h, AV c)
  end.
Proof.
  unfold Src_ImmutableMixin_get_defensive_copy_if_needed, exempt.
  unfold mbind at 1. unfold m_and at 1. unfold mbind at 1. unfold m_not at 1. unfold mbind at 1.
  assert (A : forall tys, (t5 <~ mret (AV c) ;; a_isinstance t5 tys) h = Ok (h, child_isinstance h c tys)) by reflexivity.
  rewrite A. fold atom_tys.
  destruct (child_isinstance h c atom_tys) eqn:K1; [reflexivity |].
  cbn [negb mret].
  unfold m_and at 1. unfold mbind at 1. unfold m_not at 1. unfold mbind at 1. unfold m_and at 1. unfold mbind at 1.
  rewrite A.
  destruct (child_isinstance h c [TImmMixin]) eqn:K2.
  - destruct c as [v|l]; [cbn [child_isinstance existsb] in K2; rewrite atom_not_mixin in K2; discriminate K2 |].
    cbn [child_isinstance] in K2.
    unfold mbind at 1. unfold mbind at 1. unfold mbind at 1. unfold mret at 1. unfold a_with_self. unfold mbind at 1.
    unfold a_as_self.
    destruct (get h l) as [o|] eqn:G; [| discriminate K2].
    assert (W : is_wrapper (o_kind o) = true).
    { destruct (o_kind o) as [| | | | | |cls imm| | |]; simpl in K2; try discriminate K2; try reflexivity. destruct imm; discriminate K2. }
    rewrite W. cbn [e_wattrs env_of].
    destruct (tbl l) as [wb|]; [| reflexivity].
    change (AObj ((body_key, AV (CRef l)) :: wattrs (fdesc (wb_fimm wb)) (inst_of (wb_inst wb)) (wb_name wb)))
      with (wview (AV (CRef l)) (wb_fimm wb) (wb_inst wb) (wb_name wb)).
    rewrite src_is_immutable.
    destruct (simm (wb_fimm wb) (wb_inst wb)); cbn -[Src_ImmutableMixin_is_immutable wview].
    + reflexivity.
    + unfold mbind at 1. rewrite src_is_immutable. destruct (simm fimm ib); reflexivity.
  - cbn [negb mret]. unfold mbind at 1. rewrite src_is_immutable. destruct (simm fimm ib); reflexivity.
Qed.

Lemma a_body_wview b fimm ib nm h : a_body (wview b fimm ib nm) h = Ok (h, b).
Proof. reflexivity. Qed.

(* ------------------------------------------------------------------ iteration helpers *)

(* the children as a comprehension / list(x) / super().__init__(x) re-labels them (list items carry no label) *)
Definition unlabel (kids : list (pystr * child)) : list (pystr * child) := map (fun p => (([] : pystr), snd p)) kids.

Definition labels_emptyb (kids : list (pystr * child)) : bool :=
  forallb (fun p => match fst p with [] => true | _ => false end) kids.

Lemma unlabel_id kids : labels_emptyb kids = true -> unlabel kids = kids.
Proof.
  induction kids as [|[k c] t IH]; [reflexivity |]. simpl. intro H.
  destruct k; [| discriminate H]. rewrite (IH H). reflexivity.
Qed.

Lemma unlabel_idem kids : unlabel (unlabel kids) = unlabel kids.
Proof. unfold unlabel. rewrite map_map. reflexivity. Qed.

Lemma run_plain_thunks kids h :
  run_thunks (map (fun p : pystr * child => mret (AV (snd p))) kids) h = Ok (h, map (fun p => AV (snd p)) kids).
Proof.
  induction kids as [|p t IH]; [reflexivity |].
  cbn [map run_thunks]. unfold mbind at 1. unfold mret at 1. unfold mbind at 1. rewrite IH. reflexivity.
Qed.

Lemma as_kids_plain kids : as_kids (map (fun p : pystr * child => AV (snd p)) kids) = Some (unlabel kids).
Proof. induction kids as [|p t IH]; [reflexivity |]. cbn [map as_kids]. rewrite IH. reflexivity. Qed.

Definition lift_kids {A} (r : res (heap * list (pystr * child))) (k : heap -> list (pystr * child) -> res A) : res A :=
  match r with Ok (h1, ks) => k h1 ks | Raise e => Raise e end.

(* [f(v) for v in <a plain list>] with f = deepcopy: the children copied one after the other *)
Lemma listcomp_deepcopy rec (f : aval -> M aval) :
  (forall x h, f x h = a_deepcopy rec x h) ->
  forall kids acc h,
    a_fold (fun acc x => y <~ f x ;; c <~ a_child y ;; mret (acc ++ [(([] : pystr), c)]))
           (map (fun p : pystr * child => mret (AV (snd p))) kids) acc h =
    lift_kids (map_kidsR rec h (unlabel kids)) (fun h1 ks => Ok (h1, acc ++ ks)).
Proof.
  intro F. induction kids as [|[k c] t IH]; intros acc h.
  - cbn. rewrite app_nil_r. reflexivity.
  - cbn [map a_fold unlabel snd map_kidsR]. unfold mbind at 1. unfold mret at 1. unfold mbind at 1. unfold mbind at 1.
    rewrite F. unfold a_deepcopy.
    destruct (rec h c) as [[h1 c1]|e]; [| reflexivity].
    unfold mbind at 1. unfold a_child at 1. unfold mret at 1. unfold mret at 1.
    rewrite IH. fold (unlabel t).
    destruct (map_kidsR rec h1 (unlabel t)) as [[h2 t2]|e]; [| reflexivity].
    cbn [lift_kids]. rewrite <- app_assoc. reflexivity.
Qed.

Lemma listcomp_deepcopy_plain rec (f : aval -> M aval) kids h :
  (forall x h, f x h = a_deepcopy rec x h) ->
  a_listcomp f (map (fun p : pystr * child => mret (AV (snd p))) kids) h =
  lift_kids (map_kidsR rec h (unlabel kids)) (fun h1 ks => Ok (h1, ATmp KList ks)).
Proof.
  intro F. unfold a_listcomp. unfold mbind at 1. rewrite (listcomp_deepcopy rec f F).
  destruct (map_kidsR rec h (unlabel kids)) as [[h1 ks]|e]; reflexivity.
Qed.

Definition opt_copy (b : bool) (rec : heap -> child -> res (heap * child)) (h : heap) (kids : list (pystr * child))
  : res (heap * list (pystr * child)) := if b then map_kidsR rec h kids else Ok (h, kids).

(* ------------------------------------------------------------------ _ListStruct *)

Section ListStruct.
  Variables (E : aenv) (rec : heap -> child -> res (heap * child)).
  Variables (fimm : bool) (ib : ibind) (nm : aval).

  (* self[:] and copy(): a NEW plain list of the items (deep copies of them when bound immutable) -- never the
     live list *)
  Lemma src_list_slice l h o :
    get h l = Some o -> o_kind o = KWList ->
    Src_ListStruct_getitem E rec (wview (AV (CRef l)) fimm ib nm) ASliceAll h =
    lift_kids (opt_copy (simm fimm ib) rec h (o_kids o)) (fun h1 ks => Ok (h1, ATmp KList ks)).
  Proof.
    intros G K. unfold Src_ListStruct_getitem. unfold mbind at 1.
    assert (A : (t1 <~ mret ASliceAll ;; a_super_getitem (wview (AV (CRef l)) fimm ib nm) t1) h = Ok (h, ATmp KList (o_kids o))).
    { unfold mbind at 1. unfold mret at 1. unfold a_super_getitem, mbind. rewrite a_body_wview.
      unfold kind_of, a_kids. repeat (first [rewrite G | rewrite K | progress cbn beta iota]). reflexivity. }
    rewrite A. unfold mbind at 1. unfold mret at 1.
    rewrite src_defcopy_tmp by reflexivity. unfold opt_copy.
    destruct (simm fimm ib); [| reflexivity]. unfold a_deepcopy. cbn [plain_kind].
    destruct (map_kidsR rec h (o_kids o)) as [[h1 ks]|e]; reflexivity.
  Qed.

  Theorem src_list_copy l h o :
    get h l = Some o -> o_kind o = KWList ->
    Src_ListStruct_copy E rec (wview (AV (CRef l)) fimm ib nm) h =
    lift_kids (opt_copy (simm fimm ib) rec h (o_kids o)) (fun h1 ks => Ok (h1, ATmp KList ks)).
  Proof.
    intros G K. unfold Src_ListStruct_copy. unfold mbind at 1.
    assert (A : a_super_copy (wview (AV (CRef l)) fimm ib nm) h = Ok (h, ATmp KList (o_kids o))).
    { unfold a_super_copy, mbind. rewrite a_body_wview. unfold kind_of, a_kids. repeat (first [rewrite G | rewrite K | progress cbn beta iota]). reflexivity. }
    rewrite A. unfold mbind at 1. unfold mbind at 1. rewrite src_is_immutable. unfold opt_copy.
    destruct (simm fimm ib); [| reflexivity].
    cbn -[map_kidsR]. destruct (map_kidsR rec h (o_kids o)) as [[h1 ks]|e]; reflexivity.
  Qed.

  (* _ListStruct(field, instance, <a fresh plain list>, name): the new wrapper's body holds the items of the list
     (deep copies of them when bound immutable) *)
  Lemma src_list_init kids h :
    Src_ListStruct_init E rec (AObj []) (fdesc fimm) (inst_of ib) (ATmp KList kids) nm h =
    lift_kids (opt_copy (simm fimm ib) rec h kids) (fun h1 ks => Ok (h1, wview (ATmp KWList (unlabel ks)) fimm ib nm)).
  Proof.
    unfold Src_ListStruct_init.
    unfold mbind at 1. unfold mbind at 1. unfold mret at 1. unfold a_setattr at 1. cbn [alist_set]. unfold mret at 1.
    unfold mbind at 1. unfold mbind at 1. unfold mret at 1. unfold a_setattr at 1. unfold mret at 1.
    unfold mbind at 1. unfold mbind at 1. unfold mret at 1. unfold a_setattr at 1. unfold mret at 1.
    unfold mbind at 1. unfold mbind at 1. unfold mbind at 1. unfold mret at 1.
    match goal with |- context [Src_ImmutableMixin_get_defensive_copy_if_needed E rec ?s _ _] =>
      change s with (AObj (wattrs (fdesc fimm) (inst_of ib) nm)) end.
    assert (D : forall v, Src_ImmutableMixin_get_defensive_copy_if_needed E rec (AObj (wattrs (fdesc fimm) (inst_of ib) nm)) v h =
                          Src_ImmutableMixin_get_defensive_copy_if_needed E rec (wview anone fimm ib nm) v h).
    { intro v. destruct fimm; destruct ib as [[[i iimm] dp]|]; try destruct iimm; reflexivity. }
    rewrite D. rewrite src_defcopy_tmp by reflexivity. unfold opt_copy.
    assert (I : forall h1 ks,
      a_super_init E (Src_wrapper_iter E rec) (Src_wrapper_getitem E rec) KWList (AObj (wattrs (fdesc fimm) (inst_of ib) nm)) (ATmp KList ks) h1 =
      Ok (h1, wview (ATmp KWList (unlabel ks)) fimm ib nm)).
    { intros h1 ks. unfold a_super_init.
      assert (N : alist_get (wattrs (fdesc fimm) (inst_of ib) nm) body_key = None) by reflexivity.
      rewrite N. unfold mbind at 1. cbn [a_iterate]. unfold mret at 1. unfold mbind at 1.
      rewrite run_plain_thunks. rewrite as_kids_plain. reflexivity. }
    destruct (simm fimm ib).
    - unfold a_deepcopy. cbn [plain_kind].
      destruct (map_kidsR rec h kids) as [[h1 ks]|e]; [| reflexivity].
      cbn [lift_kids]. rewrite I. reflexivity.
    - cbn [lift_kids]. rewrite I. reflexivity.
  Qed.
End ListStruct.

(* ------------------------------------------------------------------ attribute reads of `self` *)

Lemma getattr_instance E b fimm ib nm h : a_getattr E (wview b fimm ib nm) (s2p "_instance") h = Ok (h, inst_of ib).
Proof. reflexivity. Qed.
Lemma getattr_fielddef E b fimm ib nm h : a_getattr E (wview b fimm ib nm) (s2p "_field_definition") h = Ok (h, fdesc fimm).
Proof. reflexivity. Qed.
Lemma getattr_name E b fimm ib nm h : a_getattr E (wview b fimm ib nm) (s2p "_name") h = Ok (h, nm).
Proof. reflexivity. Qed.

Definition id_of (ib : ibind) : option loc := match ib with Some (i, _, _) => i | None => None end.

Lemma a_id_inst ib h : a_id (inst_of ib) h = Ok (h, AId (id_of ib)).
Proof. destruct ib as [[[i iimm] dp]|]; reflexivity. Qed.

(* memo.get(id(self._instance), self._instance): the owner the copy is bound to *)
Definition rebind (m : list (loc * aval)) (ib : ibind) : aval :=
  match id_of ib with
  | Some i => match memo_find m i with Some x => x | None => inst_of ib end
  | None => inst_of ib
  end.

Lemma memo_get_inst m ib h : a_memo_get (AMemo m) (AId (id_of ib)) (inst_of ib) h = Ok (h, rebind m ib).
Proof. unfold rebind. destruct (id_of ib); reflexivity. Qed.

Lemma deepcopy_fdesc rec fimm h : a_deepcopy rec (fdesc fimm) h = Ok (h, fdesc fimm).
Proof. reflexivity. Qed.

(* what a wrapper's __deepcopy__ computes.  s1: the wrapper is bound immutable (reading it deep-copies), s2: the
   copy is bound immutable (its __init__ deep-copies).  The hand model CopyHeap.dc is the case s1 = s2 = false. *)
Definition deepcopy_wrapper_spec (k : okind) (rec : heap -> child -> res (heap * child)) (s1 s2 : bool)
           (h : heap) (kids : list (pystr * child)) : res (heap * child) :=
  lift_kids (opt_copy s1 rec h kids) (fun h1 k1 =>
  lift_kids (map_kidsR rec h1 (unlabel k1)) (fun h2 k2 =>
  lift_kids (opt_copy s2 rec h2 k2) (fun h3 k3 => Ok (alloc h3 {| o_kind := k; o_kids := unlabel k3 |})))).

Ltac mstep := unfold mbind, mret; cbn beta iota.

Theorem src_list_deepcopy E rec fimm ib nm l h o m ib' :
  get h l = Some o -> o_kind o = KWList -> rebind m ib = inst_of ib' ->
  (r <~ Src_ListStruct_deepcopy E rec (wview (AV (CRef l)) fimm ib nm) (AMemo m) ;; a_to_child r) h =
  deepcopy_wrapper_spec KWList rec (simm fimm ib) (simm fimm ib') h (o_kids o).
Proof.
  intros G K R. unfold Src_ListStruct_deepcopy, deepcopy_wrapper_spec. mstep.
  rewrite (src_list_slice E rec fimm ib nm l h o G K).
  destruct (opt_copy (simm fimm ib) rec h (o_kids o)) as [[h1 k1]|e]; [| reflexivity].
  cbn [lift_kids a_iterate]. mstep.
  match goal with |- context [a_listcomp ?f ?ths ?hh] =>
    replace (a_listcomp f ths hh) with (lift_kids (map_kidsR rec hh (unlabel k1)) (fun h1 ks => Ok (h1, ATmp KList ks)))
      by (symmetry; apply (listcomp_deepcopy_plain rec); intros; reflexivity) end.
  destruct (map_kidsR rec h1 (unlabel k1)) as [[h2 k2]|e]; [| reflexivity].
  cbn [lift_kids]. mstep.
  rewrite getattr_instance. mstep. rewrite a_id_inst. mstep.
  rewrite getattr_fielddef. mstep. rewrite deepcopy_fdesc. mstep.
  rewrite getattr_instance. mstep. rewrite memo_get_inst. mstep.
  rewrite getattr_name. mstep. rewrite R.
  rewrite src_list_init.
  destruct (opt_copy (simm fimm ib') rec h2 k2) as [[h3 k3]|e]; [| reflexivity].
  reflexivity.
Qed.

(* ------------------------------------------------------------------ _DequeStruct *)

Definition defaults_ok (E : aenv) : bool :=
  match e_defaults E (s2p "defensive_copy_on_get") with Some _ => true | None => false end.

Section DequeStruct.
  Variables (E : aenv) (rec : heap -> child -> res (heap * child)).
  Variables (fimm : bool) (ib : ibind) (nm : aval).

  (* iterating a wrapper that is not bound immutable yields the items as they are *)
  Lemma src_deque_iter_plain b h :
    defaults_ok E = true -> simm fimm ib = false ->
    Src_DequeStruct_iter E rec (wview b fimm ib nm) h = a_super_iter (wview b fimm ib nm) h.
  Proof.
    unfold defaults_ok. intros D S. unfold Src_DequeStruct_iter.
    destruct (e_defaults E (s2p "defensive_copy_on_get")) as [v|] eqn:Dv; [| discriminate D].
    destruct fimm; [discriminate S |].
    assert (A : (t1 <~ a_defaults E (s2p "defensive_copy_on_get") ;; a_truthy t1) h = Ok (h, py_truthy v)).
    { unfold mbind, a_defaults. rewrite Dv. reflexivity. }
    set (dpv := match ib with Some (_, _, dp) => dp | None => false end).
    assert (B : (t2 <~ (t3 <~ mret (wview b false ib nm) ;; a_getattr E t3 (s2p "_instance")) ;;
                 t4 <~ mret (abool false) ;; a_getattr_def E t2 (s2p "_disable_protection") t4) h = Ok (h, abool dpv)).
    { subst dpv. destruct ib as [[[i iimm] dp]|]; reflexivity. }
    unfold mbind at 1. unfold m_or_val at 1. unfold mbind at 1. rewrite B.
    assert (I : Src_ImmutableMixin_is_immutable E rec (wview b false ib nm) h = Ok (h, abool false)).
    { rewrite src_is_immutable. rewrite S. reflexivity. }
    destruct dpv.
    - unfold mbind at 1. cbn [a_truthy abool py_truthy]. cbn [mret]. reflexivity.
    - unfold mbind at 1. cbn [a_truthy abool py_truthy]. unfold m_boolval at 1. unfold mbind at 1.
      unfold m_not at 1. unfold mbind at 1. rewrite A.
      destruct (py_truthy v); cbn [negb mret abool].
      + unfold mbind at 1. unfold m_and at 1. unfold mbind at 1. unfold m_not at 1. unfold mbind at 1.
        unfold mbind at 1. cbn [mret a_truthy abool py_truthy negb]. unfold mbind at 1. rewrite I.
        reflexivity.
      + reflexivity.
  Qed.

  Lemma src_wrapper_iter_deque l h o :
    defaults_ok E = true -> simm fimm ib = false -> get h l = Some o -> o_kind o = KWDeque ->
    Src_wrapper_iter E rec (wview (AV (CRef l)) fimm ib nm) h =
    Ok (h, AGen (map (fun p : pystr * child => mret (AV (snd p))) (o_kids o))).
  Proof.
    intros D S G K. unfold Src_wrapper_iter, mbind. rewrite a_body_wview. unfold kind_of. rewrite G. cbn beta iota.
    rewrite K. rewrite src_deque_iter_plain by assumption.
    unfold a_super_iter, mbind. rewrite a_body_wview. unfold kind_of, a_kids.
    repeat (first [rewrite G | rewrite K | progress cbn beta iota]). reflexivity.
  Qed.

  (* copy() of a deque wrapper not bound immutable: a NEW plain deque of the items, never the live one *)
  Theorem src_deque_copy l h o :
    defaults_ok E = true -> simm fimm ib = false -> get h l = Some o -> o_kind o = KWDeque ->
    Src_DequeStruct_copy E rec (wview (AV (CRef l)) fimm ib nm) h = Ok (h, ATmp KDeque (unlabel (o_kids o))).
  Proof.
    intros D S G K. unfold Src_DequeStruct_copy. unfold mbind at 1. unfold mbind at 1. unfold mret at 1.
    unfold a_new_from. unfold mbind at 1. unfold a_iterate. unfold wview at 1. unfold mbind at 1.
    fold (wview (AV (CRef l)) fimm ib nm).
    rewrite (src_wrapper_iter_deque l h o D S G K). unfold mret at 1. unfold mbind at 1.
    rewrite run_plain_thunks. rewrite as_kids_plain. unfold mret at 1.
    unfold mbind at 1. unfold mbind at 1. rewrite src_is_immutable. rewrite S. reflexivity.
  Qed.

  Lemma src_deque_init kids h :
    Src_DequeStruct_init E rec (AObj []) (fdesc fimm) (inst_of ib) (ATmp KList kids) nm h =
    lift_kids (opt_copy (simm fimm ib) rec h kids) (fun h1 ks => Ok (h1, wview (ATmp KWDeque (unlabel ks)) fimm ib nm)).
  Proof.
    unfold Src_DequeStruct_init.
    unfold mbind at 1. unfold mbind at 1. unfold mret at 1. unfold a_setattr at 1. cbn [alist_set]. unfold mret at 1.
    unfold mbind at 1. unfold mbind at 1. unfold mret at 1. unfold a_setattr at 1. unfold mret at 1.
    unfold mbind at 1. unfold mbind at 1. unfold mret at 1. unfold a_setattr at 1. unfold mret at 1.
    unfold mbind at 1. unfold m_not at 1. unfold mbind at 1. unfold mbind at 1. unfold mret at 1.
    unfold a_is_none at 1. unfold mret at 1. cbn [negb]. unfold mret at 1.
    unfold mbind at 1. unfold mbind at 1. unfold mbind at 1. unfold mret at 1.
    match goal with |- context [Src_ImmutableMixin_get_defensive_copy_if_needed E rec ?s _ _] =>
      change s with (AObj (wattrs (fdesc fimm) (inst_of ib) nm)) end.
    assert (D : forall v, Src_ImmutableMixin_get_defensive_copy_if_needed E rec (AObj (wattrs (fdesc fimm) (inst_of ib) nm)) v h =
                          Src_ImmutableMixin_get_defensive_copy_if_needed E rec (wview anone fimm ib nm) v h).
    { intro v. destruct fimm; destruct ib as [[[i iimm] dp]|]; try destruct iimm; reflexivity. }
    rewrite D. rewrite src_defcopy_tmp by reflexivity. unfold opt_copy.
    assert (I : forall h1 ks,
      a_super_init E (Src_wrapper_iter E rec) (Src_wrapper_getitem E rec) KWDeque (AObj (wattrs (fdesc fimm) (inst_of ib) nm)) (ATmp KList ks) h1 =
      Ok (h1, wview (ATmp KWDeque (unlabel ks)) fimm ib nm)).
    { intros h1 ks. unfold a_super_init.
      assert (N : alist_get (wattrs (fdesc fimm) (inst_of ib) nm) body_key = None) by reflexivity.
      rewrite N. unfold mbind at 1. cbn [a_iterate]. unfold mret at 1. unfold mbind at 1.
      rewrite run_plain_thunks. rewrite as_kids_plain. reflexivity. }
    destruct (simm fimm ib).
    - unfold a_deepcopy. cbn [plain_kind].
      destruct (map_kidsR rec h kids) as [[h1 ks]|e]; [| reflexivity].
      cbn [lift_kids]. rewrite I. reflexivity.
    - cbn [lift_kids]. rewrite I. reflexivity.
  Qed.

End DequeStruct.

Theorem src_deque_deepcopy E rec fimm ib nm l h o m ib' :
    defaults_ok E = true -> simm fimm ib = false -> get h l = Some o -> o_kind o = KWDeque ->
    rebind m ib = inst_of ib' ->
    (r <~ Src_DequeStruct_deepcopy E rec (wview (AV (CRef l)) fimm ib nm) (AMemo m) ;; a_to_child r) h =
    deepcopy_wrapper_spec KWDeque rec false (simm fimm ib') h (o_kids o).
  Proof.
    intros D S G K R. unfold Src_DequeStruct_deepcopy, deepcopy_wrapper_spec. mstep.
    rewrite (src_deque_copy E rec fimm ib nm l h o D S G K).
    cbn [lift_kids a_iterate opt_copy]. mstep.
    match goal with |- context [a_listcomp ?f ?ths ?hh] =>
      replace (a_listcomp f ths hh) with (lift_kids (map_kidsR rec hh (unlabel (unlabel (o_kids o)))) (fun h1 ks => Ok (h1, ATmp KList ks)))
        by (symmetry; apply (listcomp_deepcopy_plain rec); intros; reflexivity) end.
    rewrite unlabel_idem.
    destruct (map_kidsR rec h (unlabel (o_kids o))) as [[h2 k2]|e]; [| reflexivity].
    cbn [lift_kids]. mstep.
    rewrite getattr_instance. mstep. rewrite a_id_inst. mstep.
    rewrite getattr_fielddef. mstep. rewrite deepcopy_fdesc. mstep.
    rewrite getattr_instance. mstep. rewrite memo_get_inst. mstep.
    rewrite getattr_name. mstep. rewrite R.
    rewrite src_deque_init.
    destruct (opt_copy (simm fimm ib') rec h2 k2) as [[h3 k3]|e]; [| reflexivity].
    reflexivity.
  Qed.

(* ------------------------------------------------------------------ _DictStruct *)

(* key, value, key, value ... as the children of a dict *)
Fixpoint flat_pairs (ps : list (child * child)) : list (pystr * child) :=
  match ps with [] => [] | (k, v) :: t => (([] : pystr), k) :: (([] : pystr), v) :: flat_pairs t end.

Lemma kid_pairs_flat : forall n kids ps, List.length kids <= n -> kid_pairs kids = Some ps -> flat_pairs ps = unlabel kids.
Proof.
  induction n as [|n IH]; intros kids ps L H.
  - destruct kids; [| simpl in L; lia]. inversion H. reflexivity.
  - destruct kids as [|[a k] [|[b v] t]]; try (inversion H; reflexivity); try discriminate H.
    cbn [kid_pairs] in H. destruct (kid_pairs t) as [r|] eqn:Kt; [| discriminate H]. inversion H; subst ps.
    cbn [flat_pairs unlabel map snd]. f_equal. f_equal. apply IH; [simpl in L; lia | exact Kt].
Qed.

Lemma dictcomp_deepcopy rec (fk fv : aval -> M aval) :
  (forall k v h, fk (APair (AV k) (AV v)) h = a_deepcopy rec (AV k) h) ->
  (forall k v h, fv (APair (AV k) (AV v)) h = a_deepcopy rec (AV v) h) ->
  forall ps ths,
    Forall2 (fun (t : M aval) (p : child * child) => forall h, t h = Ok (h, APair (AV (fst p)) (AV (snd p)))) ths ps ->
    forall h, a_dictcomp fk fv ths h =
              lift_kids (map_kidsR rec h (flat_pairs ps)) (fun h1 ks => Ok (h1, ATmp KDict ks)).
Proof.
  intros Fk Fv ps ths F2 h. unfold a_dictcomp. unfold mbind at 1.
  assert (G : forall acc h,
    a_fold (fun acc x => k <~ fk x ;; kc <~ a_child k ;; v <~ fv x ;; vc <~ a_child v ;;
                         mret (acc ++ [(([] : pystr), kc); (([] : pystr), vc)])) ths acc h =
    lift_kids (map_kidsR rec h (flat_pairs ps)) (fun h1 ks => Ok (h1, acc ++ ks))).
  { clear h. induction F2 as [|t [k v] ths ps T F2 IH]; intros acc h.
    - cbn. rewrite app_nil_r. reflexivity.
    - cbn [a_fold flat_pairs map_kidsR]. unfold mbind at 1. rewrite T. cbn [fst snd].
      unfold mbind at 1. unfold mbind at 1. rewrite Fk. unfold a_deepcopy at 1.
      destruct (rec h k) as [[h1 k1]|e]; [| reflexivity].
      unfold mbind at 1. unfold a_child at 1. unfold mret at 1. unfold mbind at 1. rewrite Fv. unfold a_deepcopy at 1.
      destruct (rec h1 v) as [[h2 v1]|e]; [| reflexivity].
      unfold mbind at 1. unfold a_child at 1. unfold mret at 1. unfold mret at 1.
      rewrite IH. destruct (map_kidsR rec h2 (flat_pairs ps)) as [[h3 ks]|e]; [| reflexivity].
      cbn [lift_kids]. rewrite <- app_assoc. reflexivity. }
  rewrite G. destruct (map_kidsR rec h (flat_pairs ps)) as [[h1 ks]|e]; reflexivity.
Qed.

Section DictStruct.
  Variables (tb : loc -> wbind) (ia : loc -> pystr -> option pyval) (df : pystr -> option pyval).
  Variable rec : heap -> child -> res (heap * child).
  Variables (fimm : bool) (ib : ibind) (nm : aval).
  Let E := env_of (fun l => Some (tb l)) ia df.

  (* a value read through a wrapper not bound immutable is handed out as it is *)
  Lemma src_defcopy_child_plain b c h :
    simm fimm ib = false ->
    Src_ImmutableMixin_get_defensive_copy_if_needed E rec (wview b fimm ib nm) (AV c) h = Ok (h, AV c).
  Proof.
    intro S. unfold E. rewrite src_defcopy_child. rewrite S. unfold exempt.
    destruct (child_isinstance h c atom_tys); [reflexivity |].
    destruct (child_isinstance h c [TImmMixin]); [| reflexivity].
    destruct c; [reflexivity |]. destruct (negb _); reflexivity.
  Qed.

  Theorem src_dict_copy l h o :
    get h l = Some o -> o_kind o = KWDict ->
    Src_DictStruct_copy E rec (wview (AV (CRef l)) fimm ib nm) h =
    lift_kids (opt_copy (simm fimm ib) rec h (o_kids o)) (fun h1 ks => Ok (h1, ATmp KDict ks)).
  Proof.
    intros G K. unfold Src_DictStruct_copy. unfold mbind at 1.
    assert (A : a_super_copy (wview (AV (CRef l)) fimm ib nm) h = Ok (h, ATmp KDict (o_kids o))).
    { unfold a_super_copy, mbind. rewrite a_body_wview. unfold kind_of, a_kids.
      repeat (first [rewrite G | rewrite K | progress cbn beta iota]). reflexivity. }
    rewrite A. unfold mbind at 1. unfold mbind at 1. rewrite src_is_immutable. unfold opt_copy.
    destruct (simm fimm ib); [| reflexivity].
    cbn -[map_kidsR]. destruct (map_kidsR rec h (o_kids o)) as [[h1 ks]|e]; reflexivity.
  Qed.

  (* _DictStruct(map, instance, <a fresh plain dict>, name), not bound immutable: the body holds the entries *)
  Lemma src_dict_init kids ps h :
    simm fimm ib = false -> kid_pairs kids = Some ps ->
    Src_DictStruct_init E rec (AObj []) (fdesc fimm) (inst_of ib) (ATmp KDict kids) nm h =
    Ok (h, wview (ATmp KWDict kids) fimm ib nm).
  Proof.
    intros S P. unfold Src_DictStruct_init.
    unfold mbind at 1. unfold mbind at 1. unfold mret at 1. unfold a_setattr at 1. cbn [alist_set]. unfold mret at 1.
    unfold mbind at 1. unfold mbind at 1. unfold mret at 1. unfold a_setattr at 1. unfold mret at 1.
    unfold mbind at 1. unfold mbind at 1. unfold mret at 1. unfold a_setattr at 1. unfold mret at 1.
    unfold mbind at 1. unfold mbind at 1. unfold mbind at 1. unfold mret at 1.
    match goal with |- context [Src_ImmutableMixin_get_defensive_copy_if_needed E rec ?s _ _] =>
      change s with (AObj (wattrs (fdesc fimm) (inst_of ib) nm)) end.
    assert (D : forall v, Src_ImmutableMixin_get_defensive_copy_if_needed E rec (AObj (wattrs (fdesc fimm) (inst_of ib) nm)) v h =
                          Src_ImmutableMixin_get_defensive_copy_if_needed E rec (wview anone fimm ib nm) v h).
    { intro v. destruct fimm; destruct ib as [[[i iimm] dp]|]; try destruct iimm; reflexivity. }
    rewrite D. rewrite src_defcopy_tmp by reflexivity. rewrite S.
    unfold a_super_init.
    assert (N : alist_get (wattrs (fdesc fimm) (inst_of ib) nm) body_key = None) by reflexivity.
    rewrite N. unfold mbind at 1. unfold a_dict_entries. unfold mbind at 1. cbn [kind_of]. unfold mbind at 1.
    cbn [a_kids]. rewrite P. reflexivity.
  Qed.

  (* self.items() of a wrapper not bound immutable: the entries as they are, whenever they are consumed *)
  Lemma src_dict_items l h o ps :
    simm fimm ib = false -> get h l = Some o -> o_kind o = KWDict -> kid_pairs (o_kids o) = Some ps ->
    exists ths, Src_DictStruct_items E rec (wview (AV (CRef l)) fimm ib nm) h = Ok (h, AGen ths) /\
      Forall2 (fun (t : M aval) (p : child * child) => forall h, t h = Ok (h, APair (AV (fst p)) (AV (snd p)))) ths ps.
  Proof.
    intros S G K P. unfold Src_DictStruct_items. unfold mbind at 1. unfold mbind at 1.
    assert (A : a_super_items (wview (AV (CRef l)) fimm ib nm) h =
                Ok (h, AGen (map (fun p : child * child => mret (APair (AV (fst p)) (AV (snd p)))) ps))).
    { unfold a_super_items, mbind. rewrite a_body_wview. unfold kind_of, a_kids.
      repeat (first [rewrite G | rewrite K | rewrite P | progress cbn beta iota]). reflexivity. }
    rewrite A. cbn [a_iterate]. unfold mret at 1. unfold a_genexp. unfold mret at 1.
    eexists. split; [reflexivity |].
    clear A P. induction ps as [|[k v] t IH]; [constructor |].
    cbn [map]. constructor; [| exact IH].
    intro h'. cbn [fst snd]. unfold mbind at 1. unfold mret at 1. unfold mbind at 1. unfold a_unpair at 1. unfold mret at 1.
    unfold mbind at 1. unfold mret at 1. unfold mbind at 1. unfold mbind at 1. unfold mret at 1.
    rewrite (src_defcopy_child_plain (AV (CRef l)) v h' S). reflexivity.
  Qed.
End DictStruct.

Lemma map_kidsR_unlabel rec : forall kids h h2 k2,
  map_kidsR rec h (unlabel kids) = Ok (h2, k2) -> unlabel k2 = k2.
Proof.
  induction kids as [|[a c] t IH]; intros h h2 k2 H.
  - inversion H. reflexivity.
  - cbn [unlabel map snd map_kidsR] in H. destruct (rec h c) as [[h1 c1]|e]; [| discriminate H].
    fold (unlabel t) in H. destruct (map_kidsR rec h1 (unlabel t)) as [[h3 t3]|e] eqn:M; [| discriminate H].
    inversion H; subst. cbn [unlabel map snd]. fold (unlabel t3). rewrite (IH _ _ _ M). reflexivity.
Qed.

Lemma map_kidsR_pairs rec : forall ps kids h h2 k2,
  kid_pairs kids = Some ps -> map_kidsR rec h (unlabel kids) = Ok (h2, k2) -> exists ps2, kid_pairs k2 = Some ps2.
Proof.
  induction ps as [|p ps IH]; intros kids h h2 k2 P H.
  - destruct kids as [|[a k] [|[b v] t]]; try discriminate P.
    + inversion H. exists []. reflexivity.
    + cbn [kid_pairs] in P. destruct (kid_pairs t); discriminate P.
  - destruct kids as [|[a k] [|[b v] t]]; try discriminate P.
    cbn [kid_pairs] in P. destruct (kid_pairs t) as [r|] eqn:Kt; [| discriminate P]. inversion P; subst.
    cbn [unlabel map snd map_kidsR] in H. fold (unlabel t) in H.
    destruct (rec h k) as [[h1 k1]|e]; [| discriminate H].
    destruct (rec h1 v) as [[h3 v1]|e]; [| discriminate H].
    destruct (map_kidsR rec h3 (unlabel t)) as [[h4 t4]|e] eqn:M; [| discriminate H].
    inversion H; subst. destruct (IH t h3 _ t4 Kt M) as [ps2 P2].
    exists ((k1, v1) :: ps2). cbn [kid_pairs]. rewrite P2. reflexivity.
Qed.

(* d[k] through a dict wrapper not bound immutable: the stored VALUE (the entry the caller put there), never the
   wrapper's body; a missing key raises KeyError *)
Theorem src_dict_getitem tb ia df rec fimm ib nm l h o ps kc :
  simm fimm ib = false -> get h l = Some o -> o_kind o = KWDict -> kid_pairs (o_kids o) = Some ps ->
  Src_DictStruct_getitem (env_of (fun l => Some (tb l)) ia df) rec (wview (AV (CRef l)) fimm ib nm) (AV kc) h =
  match dict_find ps kc with Some v => Ok (h, AV v) | None => Raise KeyError end.
Proof.
  intros S G K P. unfold Src_DictStruct_getitem. unfold mbind at 1.
  assert (A : (t1 <~ mret (AV kc) ;; a_super_getitem (wview (AV (CRef l)) fimm ib nm) t1) h =
              match dict_find ps kc with Some v => Ok (h, AV v) | None => Raise KeyError end).
  { unfold mbind at 1. unfold mret at 1. unfold a_super_getitem, mbind. rewrite a_body_wview.
    unfold kind_of, a_kids. repeat (first [rewrite G | rewrite K | rewrite P | progress cbn beta iota]).
    destruct (dict_find ps kc); reflexivity. }
  rewrite A. destruct (dict_find ps kc) as [v|]; [| reflexivity].
  unfold mbind at 1. unfold mret at 1.
  exact (src_defcopy_child_plain tb ia df rec fimm ib nm (AV (CRef l)) v h S).
Qed.

Theorem src_dict_deepcopy tb ia df rec fimm ib nm l h o ps m ib' :
  simm fimm ib = false -> simm fimm ib' = false -> get h l = Some o -> o_kind o = KWDict ->
  kid_pairs (o_kids o) = Some ps -> rebind m ib = inst_of ib' ->
  (r <~ Src_DictStruct_deepcopy (env_of (fun l => Some (tb l)) ia df) rec (wview (AV (CRef l)) fimm ib nm) (AMemo m) ;; a_to_child r) h =
  deepcopy_wrapper_spec KWDict rec false false h (o_kids o).
Proof.
  intros S S' G K P R. unfold Src_DictStruct_deepcopy, deepcopy_wrapper_spec. mstep.
  destruct (src_dict_items tb ia df rec fimm ib nm l h o ps S G K P) as [ths [I F2]].
  rewrite I. cbn [a_iterate opt_copy lift_kids]. mstep.
  match goal with |- context [a_dictcomp ?fk ?fv ths ?hh] =>
    replace (a_dictcomp fk fv ths hh) with (lift_kids (map_kidsR rec hh (flat_pairs ps)) (fun h1 ks => Ok (h1, ATmp KDict ks)))
      by (symmetry; apply (dictcomp_deepcopy rec); [intros; reflexivity | intros; reflexivity | exact F2]) end.
  rewrite (kid_pairs_flat _ _ _ (le_n _) P).
  destruct (map_kidsR rec h (unlabel (o_kids o))) as [[h2 k2]|e] eqn:MK; [| reflexivity].
  cbn [lift_kids]. mstep.
  rewrite getattr_instance. mstep. rewrite a_id_inst. mstep.
  rewrite getattr_fielddef. mstep.
  rewrite getattr_instance. mstep. rewrite memo_get_inst. mstep.
  rewrite getattr_name. mstep. rewrite R.
  destruct (map_kidsR_pairs rec ps (o_kids o) h h2 k2 P MK) as [ps2 P2].
  rewrite (src_dict_init tb ia df rec fimm ib' nm k2 ps2 h2 S' P2).
  rewrite (map_kidsR_unlabel rec _ _ _ _ MK). reflexivity.
Qed.

(* ------------------------------------------------------------------ the hand model's deepcopy branch *)

Lemma ro_map_kidsR rec g :
  (forall h c, ro (rec h c) = g h c) ->
  forall kids h, ro (map_kidsR rec h kids) = map_kids g h kids.
Proof.
  intro H. induction kids as [|[k c] t IH]; intro h; [reflexivity |].
  cbn [map_kidsR map_kids]. rewrite <- H. destruct (rec h c) as [[h1 c1]|e]; [| reflexivity].
  cbn [ro]. rewrite <- IH. destruct (map_kidsR rec h1 t) as [[h2 t2]|e]; reflexivity.
Qed.

Lemma rebind_nil ib : rebind [] ib = inst_of ib.
Proof. unfold rebind. destruct (id_of ib); reflexivity. Qed.

(* The wrappers' __deepcopy__ of the CURRENT source, closed into copy.deepcopy, IS the wrapper branch of the hand
   model's CopyHeap.dc under the policy "items: Deep" -- for every heap, every wrapper not bound to an immutable
   owner, and every deepcopy function [rec] that agrees with dc one unit of fuel below.  (This is the induction
   step of `Src_deepcopy = dc` at the wrapper kinds.)  Replacing deepcopy(v) by v in a wrapper's __deepcopy__,
   or handing the live list to the new wrapper, breaks it. *)
Theorem src_wrapper_deepcopy_is_dc pol f tb ia df rec h l o :
  (forall l', simm (wb_fimm (tb l')) (wb_inst (tb l')) = false) ->
  defaults_ok (env_of (fun l => Some (tb l)) ia df) = true ->
  get h l = Some o -> is_wrapper (o_kind o) = true -> labels_emptyb (o_kids o) = true ->
  (o_kind o = KWDict -> exists ps, kid_pairs (o_kids o) = Some ps) ->
  cp_wlist pol = Deep -> cp_wdeque pol = Deep -> cp_wdict pol = Deep ->
  (forall h c, ro (rec h c) = dc pol f h c) ->
  ro (Src_wrapper_deepcopy (env_of (fun l => Some (tb l)) ia df) (AMemo []) rec l h) = dc pol (S f) h (CRef l).
Proof.
  intros NI D G W L DP PL PQ PD H.
  assert (Spec : forall k, o_kind o = k ->
            ro (deepcopy_wrapper_spec k rec false false h (o_kids o)) =
            fresh_obj k (map_kids (by_policy (dc pol f) Deep) h (o_kids o))).
  { intros k _. unfold deepcopy_wrapper_spec. cbn [opt_copy lift_kids]. rewrite (unlabel_id _ L).
    rewrite <- (ro_map_kidsR rec (by_policy (dc pol f) Deep)) by (intros; apply H).
    destruct (map_kidsR rec h (o_kids o)) as [[h2 k2]|e] eqn:MK; [| reflexivity].
    cbn [lift_kids ro fresh_obj]. rewrite <- (unlabel_id _ L) in MK. rewrite (map_kidsR_unlabel rec _ _ _ _ MK). reflexivity. }
  unfold Src_wrapper_deepcopy. unfold mbind at 1. unfold a_as_self. rewrite G, W. cbn [e_wattrs env_of].
  unfold mbind at 1. unfold kind_of at 1. rewrite G.
  change (AObj ((body_key, AV (CRef l)) :: wattrs (fdesc (wb_fimm (tb l))) (inst_of (wb_inst (tb l))) (wb_name (tb l))))
    with (wview (AV (CRef l)) (wb_fimm (tb l)) (wb_inst (tb l)) (wb_name (tb l))).
  cbn [dc]. rewrite G.
  destruct (o_kind o) eqn:K; try discriminate W.
  - rewrite (src_list_deepcopy _ rec _ _ _ l h o [] (wb_inst (tb l)) G K (rebind_nil _)).
    rewrite (NI l). rewrite PL. apply Spec. reflexivity.
  - rewrite (src_deque_deepcopy _ rec _ _ _ l h o [] (wb_inst (tb l)) D (NI l) G K (rebind_nil _)).
    rewrite (NI l). rewrite PQ. apply Spec. reflexivity.
  - destruct (DP eq_refl) as [ps P].
    rewrite (src_dict_deepcopy tb ia df rec _ _ _ l h o ps [] (wb_inst (tb l)) (NI l) (NI l) G K P (rebind_nil _)).
    rewrite PD. apply Spec. reflexivity.
Qed.

(* at the policy GENERATED from the same source by copy_sites.py (Gen/CopySites.v) *)
Theorem src_wrapper_deepcopy_is_dc_today f tb ia df rec h l o :
  (forall l', simm (wb_fimm (tb l')) (wb_inst (tb l')) = false) ->
  defaults_ok (env_of (fun l => Some (tb l)) ia df) = true ->
  get h l = Some o -> is_wrapper (o_kind o) = true -> labels_emptyb (o_kids o) = true ->
  (o_kind o = KWDict -> exists ps, kid_pairs (o_kids o) = Some ps) ->
  (forall h c, ro (rec h c) = dc copy_sites f h c) ->
  ro (Src_wrapper_deepcopy (env_of (fun l => Some (tb l)) ia df) (AMemo []) rec l h) = dc copy_sites (S f) h (CRef l).
Proof.
  intros NI D G W L DP H.
  exact (src_wrapper_deepcopy_is_dc copy_sites f tb ia df rec h l o NI D G W L DP eq_refl eq_refl eq_refl H).
Qed.

(* ------------------------------------------------------------------ hand-out: copy() and the pickled state *)

(* copy() of a list wrapper not bound immutable, handed to the caller: a NEW object (location length h) holding
   the items -- the hand model's one-level copy (CopyHeap.alloc), never the live wrapper l *)
Corollary src_list_copy_fresh E rec fimm ib nm l h o :
  simm fimm ib = false -> get h l = Some o -> o_kind o = KWList ->
  (r <~ Src_ListStruct_copy E rec (wview (AV (CRef l)) fimm ib nm) ;; a_to_child r) h =
  Ok (alloc h {| o_kind := KList; o_kids := o_kids o |}).
Proof.
  intros S G K. unfold mbind at 1. rewrite (src_list_copy E rec fimm ib nm l h o G K). rewrite S. reflexivity.
Qed.

(* __getstate__: the pickled values are self[:] -- a new list, not the wrapper *)
Theorem src_list_getstate E rec fimm ib nm l h o :
  get h l = Some o -> o_kind o = KWList ->
  Src_ListStruct_getstate E rec (wview (AV (CRef l)) fimm ib nm) h =
  lift_kids (opt_copy (simm fimm ib) rec h (o_kids o)) (fun h1 ks =>
    Ok (h1, ADict [(s2p "the_instance", inst_of ib); (s2p "the_array", fdesc fimm); (s2p "the_name", nm);
                   (s2p "the_values", ATmp KList ks)])).
Proof.
  intros G K. unfold Src_ListStruct_getstate. mstep.
  rewrite getattr_instance. mstep. rewrite getattr_fielddef. mstep. rewrite getattr_name. mstep.
  rewrite (src_list_slice E rec fimm ib nm l h o G K).
  destruct (opt_copy (simm fimm ib) rec h (o_kids o)) as [[h1 ks]|e]; reflexivity.
Qed.

(* __setstate__ on a new object: its body holds the pickled values (a one-level copy of them) *)
Theorem src_list_setstate E rec fimm ib nm ks h :
  (s <~ Src_ListStruct_setstate E rec (AObj [])
          (ADict [(s2p "the_instance", inst_of ib); (s2p "the_array", fdesc fimm); (s2p "the_name", nm);
                  (s2p "the_values", ATmp KList ks)]) ;; r <~ a_finish_new KWList s ;; a_to_child r) h =
  Ok (alloc h {| o_kind := KWList; o_kids := unlabel ks |}).
Proof.
  unfold Src_ListStruct_setstate. mstep. cbn [a_dict_subscript alist_get pystr_eqb]. 
  unfold a_super_init. cbn -[run_thunks as_kids unlabel alloc].
  unfold mbind. rewrite run_plain_thunks. rewrite as_kids_plain. reflexivity.
Qed.

(* ------------------------------------------------------------------ the side conditions are satisfiable *)

Definition ex_heap : heap :=
  [ {| o_kind := KList; o_kids := [(([] : pystr), CAtom (PNum (NInt 1)))] |};
    {| o_kind := KWList; o_kids := [(([] : pystr), CRef 0)] |};
    {| o_kind := KWDict; o_kids := [(([] : pystr), CAtom (PStr (s2p "k"))); (([] : pystr), CRef 1)] |} ].
Definition ex_tb (l : loc) : wbind := {| wb_fimm := false; wb_inst := Some (Some 7, false, false); wb_name := astr (s2p "f") |}.
Definition ex_df (n : pystr) : option pyval := Some (PBool true).

Example side_conditions_satisfiable :
  (forall l', simm (wb_fimm (ex_tb l')) (wb_inst (ex_tb l')) = false) /\
  defaults_ok (env_of (fun l => Some (ex_tb l)) (fun _ _ => None) ex_df) = true /\
  labels_emptyb (o_kids (nth 2 ex_heap {| o_kind := KList; o_kids := [] |})) = true /\
  kid_pairs (o_kids (nth 2 ex_heap {| o_kind := KList; o_kids := [] |})) = Some [(CAtom (PStr (s2p "k")), CRef 1)] /\
  (* the generated deepcopy, closed with fuel, on the nested example: equal to the hand model's dc *)
  ro (Src_deepcopy (env_of (fun l => Some (ex_tb l)) (fun _ _ => None) ex_df) (AMemo [])
        (fun _ _ _ _ => Raise Unmodelled) 5 ex_heap (CRef 2)) = dc copy_sites 5 ex_heap (CRef 2) /\
  (* an immutable binding: three passes over the items instead of one (more garbage, same sharing) *)
  simm true None = true.
Proof. repeat split; vm_compute; reflexivity. Qed.

Print Assumptions src_is_immutable.
Print Assumptions src_defcopy_tmp.
Print Assumptions src_defcopy_child.
Print Assumptions src_list_copy.
Print Assumptions src_list_copy_fresh.
Print Assumptions src_list_deepcopy.
Print Assumptions src_deque_copy.
Print Assumptions src_deque_deepcopy.
Print Assumptions src_dict_copy.
Print Assumptions src_dict_deepcopy.
Print Assumptions src_dict_getitem.
Print Assumptions src_list_getstate.
Print Assumptions src_list_setstate.
Print Assumptions src_wrapper_deepcopy_is_dc.
Print Assumptions src_wrapper_deepcopy_is_dc_today.
Print Assumptions side_conditions_satisfiable.
