(* Re-validation after construction, on GENERATED text: once `_instantiated`, every assignment goes through the source's
   Structure.__setattr__ (Gen/StructGuards.v [Structure__setattr], bridged in Struct/StructGuardProofs.v) and the
   descriptor hand-over, which runs __validate__; composed with the step theorem of C03 (Struct/MutateProofs.v):
   a successful assignment on a valid instance yields a valid instance, a rejected one leaves it as it was. *)
From Coq Require Import ZArith QArith NArith String Ascii Bool Lia List.
Import ListNotations.
From TP Require Import Base.PyVal Base.PyObj Fields.FieldAst Fields.SetChain Fields.Doc Struct.Shapes Struct.Instance
     Struct.Mutate Struct.MutateProofs Struct.StructGuardProofs Gen.StructGuards.
Local Open Scope Z_scope.

Section Revalidate.
  Variable re_match : N -> pystr -> bool.
  Variable e : env.

  (* what the source does with `x.n = v` on an instantiated instance with attributes a *)
  Definition src_assign (c : classdef) (a : attrs) (n : pystr) (v : pyval) : attrs * outcome :=
    match Structure__setattr (struct_heap c true) (PStr n) v with
    | Ok (Some vr) => handover re_match e c true a n vr
    | Ok None => (a, Done)
    | Raise x => (a, Raised x)
    end.

  Theorem src_mutation_revalidates : forall c a n v a' r,
      ordinary_name n = true ->
      hook_wf c = true -> struct_ok re_match e c a = true ->
      value_safe re_match e c a (SetAttr n v) = true ->
      src_assign c a n v = (a', r) ->
      (r = Done -> struct_ok re_match e c a' = true) /\ (forall x, r = Raised x -> a' = a).
  Proof.
    intros c a n v a' r Hn Hwf Hok Hv H. unfold src_assign in H.
    rewrite <- (generated_setattr_is_model re_match e c true a n v Hn) in H.
    apply (step_safe_cases re_match e c a (SetAttr n v) a' r); assumption.
  Qed.
End Revalidate.

Print Assumptions src_mutation_revalidates.
