(* Proofs for C14: faults make `define` raise; subclasses keep the fields and the required names of
   their bases (any number of bases, hierarchies of any depth). *)
From Coq Require Import ZArith NArith String Ascii Bool Lia List.
Import ListNotations.
From TP Require Import Base.PyVal Fields.FieldAst Fields.SetChain Struct.Define Struct.DefineProofs Struct.Faults.

(* ------------------------------------------------------------------ C3: nothing is lost *)

Lemma in_filter_nonempty s seqs x : In s seqs -> In x s -> In s (filter nonempty seqs).
Proof. intros Hs Hx. apply filter_In. split; [exact Hs | destruct s; [destruct Hx | reflexivity]]. Qed.

Lemma first_good_in cands seqs h : first_good cands seqs = Some h -> In h cands.
Proof.
  induction cands as [|c t IH]; cbn [first_good]; [discriminate|].
  destruct (existsb _ seqs); intro H; [right; auto | inversion H; left; reflexivity].
Qed.

Lemma c3_merge_contains fuel : forall seqs r,
    c3_merge fuel seqs = Some r -> forall s x, In s seqs -> In x s -> In x r.
Proof.
  induction fuel as [|f IH]; intros seqs r H s x Hs Hx; cbn [c3_merge] in H; [discriminate|].
  pose proof (in_filter_nonempty s seqs x Hs Hx) as Hs'.
  destruct (filter nonempty seqs) as [|s0 rest] eqn:Ef; [destruct Hs'|].
  rewrite <- Ef in *. clear Ef s0 rest.
  destruct (first_good (heads (filter nonempty seqs)) (filter nonempty seqs)) as [h|]; [|discriminate].
  destruct (c3_merge f (map (drop_head h) (filter nonempty seqs))) as [r'|] eqn:Er; [|discriminate].
  inversion H; subst r; clear H.
  destruct s as [|y t]; [destruct Hx|].
  destruct (pystr_eqb y h) eqn:E.
  - apply pystr_eqb_spec in E; subst y. destruct Hx as [Hx|Hx]; [left; auto|].
    right. apply (IH _ _ Er (drop_head h (h :: t)) x).
    + apply in_map. exact Hs'.
    + cbn [drop_head]. rewrite pystr_eqb_refl. exact Hx.
  - right. apply (IH _ _ Er (drop_head h (y :: t)) x).
    + apply in_map. exact Hs'.
    + cbn [drop_head]. rewrite E. exact Hx.
Qed.

Lemma mros_of_in g bases ms b kb :
  mros_of g bases = Ok ms -> In b bases -> find_klass g b = Some kb -> In (k_mro kb) ms.
Proof.
  revert ms. induction bases as [|b0 t IH]; intros ms H Hin Hf; [destruct Hin|].
  cbn [mros_of] in H. destruct (find_klass g b0) as [k0|] eqn:E0; [|discriminate].
  apply bind_ok in H as [r [Hr H]]. inversion H; subst ms.
  destruct Hin as [->|Hin]; [rewrite Hf in E0; inversion E0; left; reflexivity | right; eapply IH; eauto].
Qed.

(* the MRO of a new class contains its bases and everything in their MROs *)
Lemma mro_of_contains g name bases mro :
  mro_of g name bases = Ok mro ->
  (forall b, In b bases -> In b (tl_str mro)) /\
  (forall b kb c, In b bases -> find_klass g b = Some kb -> In c (k_mro kb) -> In c (tl_str mro)).
Proof.
  unfold mro_of. destruct (has_dup_str bases); [discriminate|]. intro H.
  apply bind_ok in H as [ms [Hms H]].
  destruct (c3_merge _ (ms ++ [bases])) as [r|] eqn:Er; [|discriminate]. inversion H; subst mro. cbn [tl_str].
  split.
  - intros b Hb. apply (c3_merge_contains _ _ _ Er bases b); [apply in_or_app; right; left; reflexivity | exact Hb].
  - intros b kb c Hb Hf Hc. apply (c3_merge_contains _ _ _ Er (k_mro kb) c); [|exact Hc].
    apply in_or_app. left. eapply mros_of_in; eauto.
Qed.

Section InheritProofs.
  Variable re_match : N -> pystr -> bool.
  Variable e : env.
  Variable gd : guards.

  Notation define := (define re_match e gd).
  Notation build_members := (build_members re_match e).
  Notation build_member := (build_member re_match e).

  (* ---------------------------------------------------------------- faults *)

  Ltac inv_def H :=
    pose proof (df_nodup _ _ _ _ _ _ H) as df_nodup0; pose proof (df_own _ _ _ _ _ _ H) as df_own0;
    pose proof (df_bp _ _ _ _ _ _ H) as df_bp0; pose proof (df_mro _ _ _ _ _ _ H) as df_mro0;
    pose proof (df_all _ _ _ _ _ _ H) as df_all0; pose proof (df_keys _ _ _ _ _ _ H) as df_keys0;
    pose proof (df_name _ _ _ _ _ _ H) as df_name0; pose proof (df_struct _ _ _ _ _ _ H) as df_struct0.

  Ltac skip := apply is_ok_bind_false; intros ? ?.
  Ltac hit H := rewrite (check_true _ _ H); reflexivity.

  Lemma build_members_raise l :
    existsb (fun nm => negb (is_ok (build_member (snd nm)))) l = true -> is_ok (build_members l) = false.
  Proof.
    induction l as [|[n ms] t IH]; cbn [existsb Define.build_members snd]; [discriminate|].
    intro H. destruct (build_member ms) as [m|x] eqn:E; cbn [bind is_ok negb orb] in *; [|reflexivity].
    specialize (IH H). destruct (build_members t); cbn [bind is_ok] in *; [discriminate | reflexivity].
  Qed.

  Lemma define_members_raise g s :
    existsb (fun nm => negb (is_ok (build_member (snd nm)))) (s_members s) = true -> is_ok (define g s) = false.
  Proof.
    intro H. unfold Define.define. skip. apply is_ok_bind_false. intros own Hown.
    apply build_members_raise in H. rewrite Hown in H. discriminate.
  Qed.

  Lemma existsb_impl {A} (p q : A -> bool) l : (forall x, p x = true -> q x = true) -> existsb p l = true -> existsb q l = true.
  Proof.
    intros Hpq H. apply existsb_exists in H as [x [Hin Hp]]. apply existsb_exists. exists x. auto.
  Qed.

  Lemma try_default_raises f d : default_raises re_match e f d = true -> is_ok (try_default re_match e f d) = false.
  Proof. unfold default_raises, try_default. destruct (vset re_match e f (defval_value d)); [discriminate | reflexivity]. Qed.

  Theorem fault_kw_default_truthy_raises g s :
    any_member (fault_kw_default_truthy re_match e) s = true -> is_ok (define g s) = false.
  Proof.
    intro H. apply define_members_raise. revert H. unfold any_member. apply existsb_impl. intros [n ms]. cbn [snd].
    destruct ms as [f imm kwd eqd| |]; cbn [fault_kw_default_truthy]; try discriminate.
    intro H. cbn [Define.build_member]. unfold field_init. destruct (norm_default kwd) as [d|]; [|discriminate].
    apply andb_true_iff in H as [Ht Hr]. rewrite Ht. apply try_default_raises in Hr.
    destruct (try_default re_match e f d); [discriminate | reflexivity].
  Qed.

  Theorem fault_eq_default_raises g s :
    any_member (fault_eq_default re_match e) s = true -> is_ok (define g s) = false.
  Proof.
    intro H. apply define_members_raise. revert H. unfold any_member. apply existsb_impl. intros [n ms]. cbn [snd].
    destruct ms as [f imm kwd [d|]| |]; cbn [fault_eq_default]; try discriminate.
    intro H. apply andb_true_iff in H as [H Hr]. apply andb_true_iff in H as [Hk Hm].
    apply negb_true_iff in Hk, Hm. cbn [Define.build_member]. unfold field_init, kw_truthy in *.
    destruct (norm_default kwd) as [d0|] eqn:En.
    - rewrite Hk. cbn [bind]. unfold apply_eq_default. cbn [fo_default]. rewrite Hk, Hm.
      apply try_default_raises in Hr. cbn [fo_field]. destruct (try_default re_match e f d); [discriminate | reflexivity].
    - cbn [bind]. unfold apply_eq_default. cbn [fo_default]. rewrite Hm.
      apply try_default_raises in Hr. cbn [fo_field]. destruct (try_default re_match e f d); [discriminate | reflexivity].
  Qed.

  Theorem fault_mutable_default_raises g s :
    any_member fault_mutable_default s = true -> is_ok (define g s) = false.
  Proof.
    intro H. apply define_members_raise. revert H. unfold any_member. apply existsb_impl. intros [n ms]. cbn [snd].
    destruct ms as [f imm kwd [d|]| |]; cbn [fault_mutable_default]; try discriminate.
    intro H. apply andb_true_iff in H as [Hk Hm]. apply negb_true_iff in Hk.
    cbn [Define.build_member]. unfold field_init, kw_truthy in *.
    destruct (norm_default kwd) as [d0|] eqn:En.
    - rewrite Hk. cbn [bind]. unfold apply_eq_default. cbn [fo_default]. rewrite Hk, Hm. reflexivity.
    - cbn [bind]. unfold apply_eq_default. cbn [fo_default]. rewrite Hm. reflexivity.
  Qed.

  Theorem fault_name_raises g s : fault_name s = true -> is_ok (define g s) = false.
  Proof. intro H. unfold Define.define. skip. skip. skip. unfold fault_name in H. hit H. Qed.

  Theorem fault_non_typedpy_raises g s : fault_non_typedpy gd s = true -> is_ok (define g s) = false.
  Proof. intro H. unfold Define.define. skip. skip. skip. skip. unfold fault_non_typedpy in H. hit H. Qed.

  Theorem fault_unknown_attr_raises g s : fault_unknown_attr gd s = true -> is_ok (define g s) = false.
  Proof.
    intro H. unfold Define.define. do 9 skip. unfold fault_unknown_attr in H. hit H.
  Qed.

  Theorem fault_optional_raises g s : fault_optional re_match e gd g s = true -> is_ok (define g s) = false.
  Proof.
    intro H. unfold Define.define. skip. apply is_ok_bind_false. intros own Hown.
    apply is_ok_bind_false. intros bp Hbp. unfold fault_optional in H. rewrite Hown, Hbp in H.
    do 5 skip. hit H.
  Qed.

  Theorem fault_final_base_raises g s : fault_final_base g s = true -> is_ok (define g s) = false.
  Proof.
    intro H. unfold Define.define. do 5 skip. apply is_ok_bind_false. intros mro Hmro.
    assert (Hv : final_violation g (tl_str mro) = true).
    { unfold fault_final_base in H. apply existsb_exists in H as [b [Hb Hs]].
      apply existsb_exists. exists b. split; [|exact Hs].
      destruct (mro_of_contains g _ _ _ Hmro) as [Hc _]. apply Hc. exact Hb. }
    hit Hv.
  Qed.

  Lemma constants_of_In all n v : In (n, MConst v) all -> In (n, v) (constants_of all).
  Proof.
    intro H. unfold constants_of. apply in_flat_map. exists (n, MConst v). split; [exact H | left; reflexivity].
  Qed.

  Lemma build_members_const l own n v :
    build_members l = Ok own -> In (n, SConst v) l -> In (n, MConst v) own.
  Proof.
    revert own. induction l as [|[n0 ms] t IH]; intros own H Hin; [destruct Hin|].
    cbn [Define.build_members] in H. apply bind_ok in H as [m [Hm H]]. apply bind_ok in H as [r [Hr H]].
    inversion H; subst own. destruct Hin as [Hin|Hin].
    - inversion Hin; subst. cbn in Hm. inversion Hm. left. reflexivity.
    - right. apply IH; assumption.
  Qed.

  Theorem fault_bad_const_raises g s : any_member fault_bad_const s = true -> is_ok (define g s) = false.
  Proof.
    intro H. unfold Define.define. apply is_ok_bind_false. intros u Hu. apply check_ok in Hu.
    apply is_ok_bind_false. intros own Hown. do 3 skip. apply is_ok_bind_false. intros mro Hmro. skip.
    match goal with |- is_ok (bind (check ?b _) _) = false => assert (Hb : b = true) end; [|hit Hb].
    apply negb_true_iff. apply not_true_is_false. intro Hall. rewrite forallb_forall in Hall.
    unfold any_member in H. apply existsb_exists in H as [[n ms] [Hin Hf]]. cbn [snd] in Hf.
    destruct ms as [| v |]; cbn [fault_bad_const] in Hf; try discriminate.
    pose proof (build_members_const _ _ _ _ Hown Hin) as Hc.
    assert (Hnd : NoDup (map fst own)).
    { rewrite (build_members_names re_match e _ _ Hown). apply has_dup_false_NoDup. exact Hu. }
    assert (Hget : alist_get (all_fields g (tl_str mro) own) n = Some (MConst v)).
    { unfold all_fields. rewrite update_members_get_own by exact Hnd.
      rewrite (In_alist_get_NoDup own n (MConst v) Hnd Hc). reflexivity. }
    apply alist_get_In in Hget. apply constants_of_In in Hget. specialize (Hall _ Hget). cbn [snd] in Hall.
    rewrite Hall in Hf. discriminate.
  Qed.

  (* @keys_of: a class is only produced when every enum member name is a field *)
  Theorem keys_of_respected g s k :
    define g s = Ok k -> forall ns n, In ns (s_keys_of s) -> In n ns -> In n (field_names k).
  Proof.
    intros H ns n Hns Hn. apply (define_inv re_match e gd) in H. inv_def H.
    rewrite forallb_forall in df_keys0. specialize (df_keys0 ns Hns). rewrite forallb_forall in df_keys0.
    apply alist_has_In. apply df_keys0. exact Hn.
  Qed.

  (* AbstractStructure *)
  Theorem abstract_not_instantiable k : In n_Abstract (k_bases k) -> instantiable k = Raise TypeError.
  Proof. intro H. unfold instantiable. apply str_in_In in H. rewrite H, orb_true_r. reflexivity. Qed.

  Theorem abstract_itself_not_instantiable k : k_name k = n_Abstract -> instantiable k = Raise TypeError.
  Proof. intro H. unfold instantiable. rewrite H, pystr_eqb_refl. reflexivity. Qed.

  (* ---------------------------------------------------------------- fields are inherited *)

  (* every field name of a class comes from the own fields of some class of its MRO *)
  Definition fields_from_mro (g : genv) (k : klass) : Prop :=
    forall n, In n (field_names k) -> exists c, In c (k_mro k) /\ In n (map fst (own_of g c)).

  Definition env_inv (g : genv) : Prop := forall b kb, find_klass g b = Some kb -> fields_from_mro g kb.

  (* one class statement, any of its bases *)
  Theorem define_fields_mono g s k b kb :
    env_inv g -> define g s = Ok k -> In b (s_bases s) -> find_klass g b = Some kb ->
    forall n, In n (field_names kb) -> In n (field_names k).
  Proof.
    intros Hinv H Hb Hf n Hn. apply (define_inv re_match e gd) in H. inv_def H.
    destruct (Hinv b kb Hf n Hn) as [c [Hc Hown]].
    destruct (mro_of_contains g _ _ _ df_mro0) as [_ Hcont].
    unfold field_names. rewrite df_all0. unfold all_fields. apply update_members_names. left.
    apply fields_of_mro_names. exists c. split; [eapply Hcont; eauto | exact Hown].
  Qed.

  Lemma own_of_cons_other g k c : pystr_eqb (k_name k) c = false -> own_of (k :: g) c = own_of g c.
  Proof. intro H. unfold own_of. cbn [find_klass]. rewrite H. reflexivity. Qed.

  Lemma own_of_nonempty_found g c n : In n (map fst (own_of g c)) -> find_klass g c <> None.
  Proof. unfold own_of. destruct (find_klass g c); [discriminate | intros []]. Qed.

  Lemma fields_from_mro_weaken g k0 k :
    find_klass g (k_name k0) = None -> fields_from_mro g k -> fields_from_mro (k0 :: g) k.
  Proof.
    intros Hfresh H n Hn. destruct (H n Hn) as [c [Hc Hown]]. exists c. split; [exact Hc|].
    rewrite own_of_cons_other; [exact Hown|].
    destruct (pystr_eqb (k_name k0) c) eqn:E; [|reflexivity].
    apply pystr_eqb_spec in E; subst c. apply own_of_nonempty_found in Hown. contradiction.
  Qed.

  Lemma mro_of_head g name bases mro : mro_of g name bases = Ok mro -> exists r, mro = name :: r.
  Proof.
    unfold mro_of. destruct (has_dup_str bases); [discriminate|]. intro H. apply bind_ok in H as [ms [_ H]].
    destruct (c3_merge _ _); [|discriminate]. inversion H. eauto.
  Qed.

  Lemma define_fields_from_mro g s k :
    find_klass g (s_name s) = None -> define g s = Ok k -> fields_from_mro (k :: g) k.
  Proof.
    intros Hfresh H n Hn. apply (define_inv re_match e gd) in H. inv_def H.
    destruct (mro_of_head _ _ _ _ df_mro0) as [r Hr].
    unfold field_names in Hn. rewrite df_all0 in Hn. unfold all_fields in Hn. apply update_members_names in Hn.
    destruct Hn as [Hn|Hn].
    - apply fields_of_mro_names in Hn as [c [Hc Hown]]. exists c. split.
      + rewrite Hr in *. cbn [tl_str] in Hc. right. exact Hc.
      + rewrite own_of_cons_other; [exact Hown|]. rewrite df_name0.
        destruct (pystr_eqb (s_name s) c) eqn:E; [|reflexivity].
        apply pystr_eqb_spec in E; subst c. apply own_of_nonempty_found in Hown. contradiction.
    - exists (k_name k). split; [rewrite Hr, df_name0; left; reflexivity|].
      unfold own_of. cbn [find_klass]. rewrite pystr_eqb_refl, df_struct0. exact Hn.
  Qed.

  (* the invariant holds in every environment reachable by class statements *)
  Theorem built_env_inv g : built re_match e gd g -> env_inv g.
  Proof.
    induction 1 as [|g s k Hb IH Hfresh Hdef|g n Hb IH Hfresh].
    - intros b kb Hf n Hn. exfalso. cbn in Hf.
      repeat match type of Hf with
             | (if ?c then _ else _) = _ => destruct c; [inversion Hf; subst kb; cbn in Hn; destruct Hn|]
             end. discriminate.
    - assert (Hname : k_name k = s_name s) by (apply (define_inv re_match e gd) in Hdef; destruct Hdef; assumption).
      intros b kb Hf. cbn [find_klass] in Hf. destruct (pystr_eqb (k_name k) b) eqn:E.
      + inversion Hf; subst kb. apply (define_fields_from_mro g s k Hfresh Hdef).
      + apply fields_from_mro_weaken; [rewrite Hname; exact Hfresh | apply (IH b kb Hf)].
    - intros b kb Hf. cbn [find_klass] in Hf. destruct (pystr_eqb (k_name (mixin n)) b) eqn:E.
      + inversion Hf; subst kb. intros x Hx. destruct Hx.
      + apply fields_from_mro_weaken; [exact Hfresh | apply (IH b kb Hf)].
  Qed.

  (* hierarchies of any depth: [descends k a] -- a is k or a base of ... a base of k *)
  Inductive descends : klass -> klass -> Prop :=
  | descends_refl k : descends k k
  | descends_step g s k b kb a :
      built re_match e gd g -> define g s = Ok k -> In b (s_bases s) -> find_klass g b = Some kb ->
      descends kb a -> descends k a.

  Theorem descends_fields_mono k a : descends k a -> forall n, In n (field_names a) -> In n (field_names k).
  Proof.
    induction 1 as [|g s k b kb a Hb Hdef Hin Hf Hd IH]; intros n Hn; [exact Hn|].
    eapply define_fields_mono; eauto. apply built_env_inv. exact Hb.
  Qed.

  (* an inherited name the class body does not redeclare is exactly what the bases' MRO provides *)
  Theorem define_inherited_member g s k n :
    define g s = Ok k -> ~ In n (map fst (s_members s)) ->
    alist_get (k_all k) n = alist_get (fields_of_mro g (tl_str (k_mro k))) n.
  Proof.
    intros H Hn. apply (define_inv re_match e gd) in H. inv_def H.
    assert (Hnd : NoDup (map fst (k_own k))).
    { rewrite (build_members_names re_match e _ _ df_own0). apply has_dup_false_NoDup. exact df_nodup0. }
    rewrite df_all0. unfold all_fields. rewrite update_members_get_own by exact Hnd.
    assert (Hnone : alist_get (k_own k) n = None).
    { apply alist_get_None_notin. rewrite (build_members_names re_match e _ _ df_own0). exact Hn. }
    rewrite Hnone. reflexivity.
  Qed.

  (* ---------------------------------------------------------------- required names are inherited *)

  Lemma merge_params_get acc new n :
    alist_get (merge_params acc new) n =
    match alist_get acc n with Some x => Some x | None => alist_get new n end.
  Proof.
    unfold merge_params. revert acc. induction new as [|[k v] t IH]; intro acc; cbn [fold_left alist_get fst].
    - destruct (alist_get acc n); reflexivity.
    - rewrite IH. unfold alist_has. destruct (alist_get acc k) eqn:Ek.
      + destruct (alist_get acc n) eqn:En; [reflexivity|].
        destruct (pystr_eqb k n) eqn:E; [apply pystr_eqb_spec in E; subst; congruence | reflexivity].
      + destruct (pystr_eqb k n) eqn:E.
        * apply pystr_eqb_spec in E; subst k. rewrite Ek.
          assert (Hg : alist_get (acc ++ [(n, v)]) n = Some v).
          { clear IH. induction acc as [|[k' v'] acc IHa]; cbn [app alist_get].
            - rewrite pystr_eqb_refl. reflexivity.
            - cbn [alist_get] in Ek. destruct (pystr_eqb k' n); [discriminate | apply IHa; exact Ek]. }
          rewrite Hg. reflexivity.
        * assert (Hg : alist_get (acc ++ [(k, v)]) n = alist_get acc n).
          { clear IH Ek. induction acc as [|[k' v'] acc IHa]; cbn [app alist_get].
            - rewrite E. reflexivity.
            - destruct (pystr_eqb k' n); [reflexivity | exact IHa]. }
          rewrite Hg. reflexivity.
  Qed.

  Lemma sig_params_get_req k n : In n (k_sig_req k) -> alist_get (sig_params k) n = Some true.
  Proof.
    unfold sig_params. generalize (map (fun n0 : pystr => (n0, false)) (k_sig_opt k)) as rest.
    induction (k_sig_req k) as [|x t IH]; intros rest H; [destruct H|].
    cbn [map app alist_get]. destruct (pystr_eqb x n) eqn:E; [reflexivity|].
    destruct H as [H|H]; [subst; rewrite pystr_eqb_refl in E; discriminate | apply IH; exact H].
  Qed.

  Lemma sig_params_get_some k n v : alist_get (sig_params k) n = Some v -> In n (map fst (sig_params k)).
  Proof. apply alist_get_In_fst. Qed.

  (* "the bases agree on n": every base whose signature knows n requires it *)
  Definition bases_agree (g : genv) (bases : list pystr) (n : pystr) : Prop :=
    forall b kb, In b bases -> find_klass g b = Some kb -> k_is_struct kb = true -> b <> n_Structure ->
                 In n (map fst (sig_params kb)) -> In n (k_sig_req kb).

  Lemma base_info_required g n : forall bases acc kw bp,
      base_info gd g bases acc kw = Ok bp ->
      bases_agree g bases n ->
      (alist_get acc n = Some true \/
       (alist_get acc n = None /\
        exists b kb, In b bases /\ find_klass g b = Some kb /\ k_is_struct kb = true /\ b <> n_Structure /\
                     In n (k_sig_req kb))) ->
      alist_get bp n = Some true.
  Proof.
    induction bases as [|b0 t IH]; intros acc kw bp H Hag Hc; cbn [base_info] in H.
    - destruct kw; [discriminate|]. inversion H; subst bp.
      destruct Hc as [Hc|[_ [b [kb [[] _]]]]]. exact Hc.
    - destruct (find_klass g b0) as [k0|] eqn:E0; [|discriminate].
      assert (Hag' : bases_agree g t n).
      { intros b kb Hb. apply Hag. right. exact Hb. }
      destruct (negb (k_is_struct k0) || pystr_eqb b0 n_Structure) eqn:Eskip.
      + apply (IH acc kw bp H Hag'). destruct Hc as [Hc|[Hn [b [kb [Hb [Hf [Hs [Hne Hr]]]]]]]]; [left; exact Hc|].
        right. split; [exact Hn|]. destruct Hb as [Hb|Hb].
        * subst b. rewrite Hf in E0. inversion E0; subst k0. apply orb_true_iff in Eskip as [Es|Es].
          -- rewrite Hs in Es. discriminate.
          -- apply pystr_eqb_spec in Es. contradiction.
        * exists b, kb. auto.
      + apply orb_false_iff in Eskip as [Es Er]. apply negb_false_iff in Es. apply pystr_eqb_neq in Er.
        assert (Hnext : alist_get (merge_params acc (sig_params k0)) n = Some true \/
                        (alist_get (merge_params acc (sig_params k0)) n = None /\
                         exists b kb, In b t /\ find_klass g b = Some kb /\ k_is_struct kb = true /\
                                      b <> n_Structure /\ In n (k_sig_req kb))).
        { rewrite merge_params_get. destruct Hc as [Hc|[Hn [b [kb [Hb [Hf [Hs [Hne Hr]]]]]]]].
          - rewrite Hc. left. reflexivity.
          - rewrite Hn. destruct (alist_get (sig_params k0) n) as [v|] eqn:Eg.
            + left. pose proof (sig_params_get_some _ _ _ Eg) as Hin.
              rewrite (sig_params_get_req k0 n (Hag b0 k0 (or_introl eq_refl) E0 Es Er Hin)) in Eg. symmetry. exact Eg.
            + right. split; [reflexivity|]. destruct Hb as [Hb|Hb].
              * subst b. rewrite Hf in E0. inversion E0; subst k0.
                rewrite (sig_params_get_req kb n Hr) in Eg. discriminate.
              * exists b, kb. auto. }
        destruct (match k_additional k0 with Some x => x | None => gd_additional_default gd end).
        * destruct (kw || k_sig_kwargs k0); [|discriminate]. apply (IH _ _ bp H Hag' Hnext).
        * apply (IH _ _ bp H Hag' Hnext).
  Qed.

  Lemma get_true_in_required bp n : alist_get bp n = Some true -> In n (bases_required bp).
  Proof.
    intro H. apply alist_get_In in H. unfold bases_required. apply in_map_iff. exists (n, true).
    split; [reflexivity | apply filter_In; split; [exact H | reflexivity]].
  Qed.

  (* one class statement: a name required by the signature of a base -- the bases agreeing on it --
     is in _required of the new class, and stays a required parameter unless the class makes it a constant *)
  Theorem define_required_mono g s k b kb n :
    define g s = Ok k -> In b (s_bases s) -> find_klass g b = Some kb ->
    k_is_struct kb = true -> b <> n_Structure ->
    In n (k_sig_req kb) -> bases_agree g (s_bases s) n ->
    In n (k_required k) /\ (~ In n (map fst (k_constants k)) -> In n (k_sig_req k)).
  Proof.
    intros H Hb Hf Hs Hne Hn Hag. apply (define_inv re_match e gd) in H. inv_def H.
    destruct df_bp0 as [bp [Hbp [Hreq [_ Hsig]]]].
    assert (Hbr : In n (bases_required bp)).
    { apply get_true_in_required. apply (base_info_required g n _ _ _ _ Hbp Hag).
      right. split; [reflexivity|]. exists b, kb. auto. }
    split.
    - rewrite Hreq. apply In_dedup_str. apply in_or_app. left. exact Hbr.
    - intro Hnc. unfold make_signature in Hsig.
      match type of Hsig with (if ?c then _ else _) = _ => destruct c; [discriminate|] end.
      inversion Hsig as [[Hr Ho]]. clear Hsig Ho.
      assert (Hmerge : forall a l x, In x a -> In x (merge_names a l)).
      { intros a l. revert a. unfold merge_names. induction l as [|y l IHl]; intros a x Hx; cbn [fold_left]; [exact Hx|].
        apply IHl. apply In_add_str. left. exact Hx. }
      apply Hmerge. apply filter_In. split.
      + unfold bases_required in Hbr. apply in_map_iff in Hbr as [[n' fl] [Hn' Hin]]. cbn [fst] in Hn'. subst n'.
        apply filter_In in Hin as [Hin _]. apply in_map_iff. exists (n, fl). auto.
      + apply andb_true_iff. split.
        * apply orb_true_iff. right. apply str_in_In. exact Hbr.
        * apply negb_true_iff. apply str_in_false. exact Hnc.
  Qed.

  (* any depth: a chain of class statements along which the bases agree on n and nobody turns n into a constant *)
  Inductive req_chain (n : pystr) : klass -> klass -> Prop :=
  | req_refl k : req_chain n k k
  | req_step g s k b kb a :
      define g s = Ok k -> In b (s_bases s) -> find_klass g b = Some kb ->
      k_is_struct kb = true -> b <> n_Structure -> bases_agree g (s_bases s) n ->
      ~ In n (map fst (k_constants k)) ->
      req_chain n kb a -> req_chain n k a.

  Theorem chain_required_mono n k a :
    req_chain n k a -> In n (k_sig_req a) -> In n (k_sig_req k) /\ (k = a \/ In n (k_required k)).
  Proof.
    induction 1 as [|g s k b kb a Hdef Hb Hf Hs Hne Hag Hnc Hch IH]; intro Hn; [split; [exact Hn | left; reflexivity]|].
    destruct (IH Hn) as [Hkb _].
    destruct (define_required_mono g s k b kb n Hdef Hb Hf Hs Hne Hkb Hag) as [Hr Hsig].
    split; [apply Hsig; exact Hnc | right; exact Hr].
  Qed.

End InheritProofs.
