(* C01, nested validity: every Structure instance reachable inside an instance obtained through a
   chain of validating entry points is valid for its own class ([deep_valid]), provided the instances
   nested in the supplied arguments are.  The __set__ chains never invent instances: the structures
   inside a stored normal form are structures of the supplied value. *)
From Coq Require Import ZArith QArith NArith String Ascii Bool Lia List.
Import ListNotations.
From TP Require Import Base.PyVal Fields.FieldAst Fields.SetChain Fields.Doc Fields.Domain
  Struct.Shapes Struct.Instance Struct.Entry Struct.InstanceProofs.
Local Open Scope Z_scope.
Arguments lenZ : simpl never.

Lemma mapM_Forall2 {A B} (h : A -> res B) l : forall r,
    mapM h l = Ok r -> Forall2 (fun x y => h x = Ok y) l r.
Proof.
  induction l as [|x t IH]; simpl; intros r H.
  - inversion H. constructor.
  - destruct (h x) as [y|ex] eqn:Ex; [|discriminate]. cbn [bind] in H.
    destruct (mapM h t) as [r0|ex]; [|discriminate]. cbn [bind] in H.
    inversion H; subst. constructor; auto.
Qed.

Lemma forallb_flat_map' {A B} (p : B -> bool) (f : A -> list B) l :
  forallb p (flat_map f l) = forallb (fun x => forallb p (f x)) l.
Proof.
  induction l as [|x t IH]; simpl; [reflexivity|]. rewrite forallb_app, IH. reflexivity.
Qed.

Lemma anyof_combine_In {A} (h : A -> res pyval) fs nf :
  anyof_combine (map h fs) = Ok nf -> exists g, In g fs /\ h g = Ok nf.
Proof.
  induction fs as [|g t IH]; simpl; [discriminate|].
  destruct (h g) as [y|ex] eqn:E.
  - intro H. inversion H; subst. eauto.
  - destruct (caught ex); [|discriminate]. intro H. destruct (IH H) as [g' [I E']]. eauto.
Qed.

Section Nested.
  Variable re_match : N -> pystr -> bool.
  Variable e : env.

  Notation vset := (vset re_match e).
  Notation dv := (deep_valid re_match e).
  Notation setattr := (setattr re_match e).
  Notation set_all := (set_all re_match e).
  Notation construct := (construct re_match e).
  Notation struct_ok := (struct_ok re_match e).
  Notation inst_ok := (inst_ok re_match e).
  Notation run_entry := (run_entry re_match e).
  Notation run_chain := (run_chain re_match e).
  Notation chain_dom := (chain_dom re_match e).
  Notation entry_dom := (entry_dom re_match e).
  Notation entry_plan := (entry_plan e).

  Lemma dv_list l : dv (PList l) = forallb dv l. Proof. reflexivity. Qed.
  Lemma dv_seq k l : dv (seq_make k l) = forallb dv l. Proof. destruct k; reflexivity. Qed.

  Lemma dv_seq_items k v l : seq_items k v = Some l -> dv v = forallb dv l.
  Proof. intro H. rewrite (seq_items_make k v l H). apply dv_seq. Qed.

  Definition D (f : field) : Prop := forall v nf, vset f v = Ok nf -> dv v = true -> dv nf = true.

  Lemma each_dv g l r : D g -> mapM (fun x => vset g x) l = Ok r -> forallb dv l = true -> forallb dv r = true.
  Proof.
    intros Hg Hm. apply mapM_Forall2 in Hm.
    induction Hm as [|x y l' r' Hxy Hr IH]; simpl; intro H; [reflexivity|].
    apply andb_true_iff in H as [Hx Hl]. rewrite (Hg x y Hxy Hx), (IH Hl). reflexivity.
  Qed.

  Lemma pos_seq_dv fs : Forall D fs -> forall l r,
      (fix pos (fs : list field) (vs : list pyval) {struct fs} : res (list pyval) :=
         match fs, vs with
         | [], _ => Ok vs
         | _ :: _, [] => Ok []
         | g :: fs', x :: vs' => y <- vset g x ;; ys <- pos fs' vs' ;; Ok (y :: ys)
         end) fs l = Ok r ->
      forallb dv l = true -> forallb dv r = true.
  Proof.
    induction 1 as [|g fs' Hg Hfs IH]; intros l r Hp Hl.
    - inversion Hp; subst. exact Hl.
    - destruct l as [|x vs']; [inversion Hp; reflexivity|].
      simpl in Hl. apply andb_true_iff in Hl as [Hx Hl].
      destruct (vset g x) as [y|ex] eqn:Ey; [|discriminate]. cbn [bind] in Hp.
      match type of Hp with bind ?rr _ = _ => destruct rr as [ys|ex] eqn:Eys; [|discriminate] end.
      cbn [bind] in Hp. inversion Hp; subst. simpl.
      rewrite (Hg x y Ey Hx), (IH _ _ Eys Hl). reflexivity.
  Qed.

  Lemma pos_tuple_dv fs : Forall D fs -> forall l r,
      (fix pos (fs : list field) (vs : list pyval) {struct fs} : res (list pyval) :=
         match fs, vs with
         | [], _ => Ok []
         | _ :: _, [] => Raise IndexError
         | g :: fs', x :: vs' => y <- vset g x ;; ys <- pos fs' vs' ;; Ok (y :: ys)
         end) fs l = Ok r ->
      forallb dv l = true -> forallb dv r = true.
  Proof.
    induction 1 as [|g fs' Hg Hfs IH]; intros l r Hp Hl.
    - inversion Hp; subst. reflexivity.
    - destruct l as [|x vs']; [discriminate|].
      simpl in Hl. apply andb_true_iff in Hl as [Hx Hl].
      destruct (vset g x) as [y|ex] eqn:Ey; [|discriminate]. cbn [bind] in Hp.
      match type of Hp with bind ?rr _ = _ => destruct rr as [ys|ex] eqn:Eys; [|discriminate] end.
      cbn [bind] in Hp. inversion Hp; subst. simpl.
      rewrite (Hg x y Ey Hx), (IH _ _ Eys Hl). reflexivity.
  Qed.

  Ltac bind_ok H :=
    match type of H with
    | bind ?r _ = Ok _ => let u := fresh "u" in destruct r as [u|] eqn:?; [|discriminate]; cbn [bind] in H
    end.

  Theorem vset_keeps_nested_valid : forall f, D f.
  Proof.
    induction f using field_ind'; unfold D; intros v nf Hv Hd.
    - (* FNumber *) cbn [SetChain.vset] in Hv. unfold number_chain in Hv.
      destruct k.
      + repeat bind_ok Hv. inversion Hv; subst; exact Hd.
      + destruct (is_py_int v); [|discriminate]. repeat bind_ok Hv. inversion Hv; subst; exact Hd.
      + bind_ok Hv. destruct (is_py_float u) eqn:Ef; [|discriminate]. repeat bind_ok Hv.
        inversion Hv; subst. destruct nf; try discriminate. reflexivity.
    - (* FString *) cbn [SetChain.vset] in Hv. unfold string_chain in Hv. destruct v; try discriminate.
      repeat bind_ok Hv. destruct (pattern c) as [pt|]; [destruct (re_match pt s); [|discriminate]|];
        inversion Hv; reflexivity.
    - (* FBoolean *) cbn [SetChain.vset] in Hv. unfold boolean_chain in Hv. destruct v; try discriminate.
      + inversion Hv; reflexivity.
      + destruct (pystr_eqb s str_True); [inversion Hv; reflexivity|].
        destruct (pystr_eqb s str_False); [inversion Hv; reflexivity | discriminate].
    - (* FNone *) cbn [SetChain.vset] in Hv. destruct v; try discriminate. inversion Hv; reflexivity.
    - (* FAnything *) inversion Hv; subst; exact Hd.
    - (* FEnumLit *) cbn [SetChain.vset] in Hv. destruct (py_in v vs); [inversion Hv; subst; exact Hd | discriminate].
    - (* FEnumCls *) cbn [SetChain.vset] in Hv.
      destruct v; try discriminate.
      + destruct (alist_get ms s); [inversion Hv; reflexivity | discriminate].
      + destruct (pystr_eqb cls c && alist_has ms name); [inversion Hv; reflexivity | discriminate].
    - (* FSeqAny *) cbn [SetChain.vset] in Hv. destruct (seq_items k v) as [l|] eqn:Es; [|discriminate].
      repeat bind_ok Hv. inversion Hv; subst. rewrite dv_seq, <- (dv_seq_items k v l Es). exact Hd.
    - (* FSeqEach *) cbn [SetChain.vset] in Hv. destruct (seq_items k v) as [l|] eqn:Es; [|discriminate].
      rewrite (dv_seq_items k v l Es) in Hd.
      repeat bind_ok Hv. inversion Hv; subst. rewrite dv_seq. eapply each_dv; eauto.
    - (* FSeqPos *) cbn [SetChain.vset] in Hv. destruct (seq_items k v) as [l|] eqn:Es; [|discriminate].
      rewrite (dv_seq_items k v l Es) in Hd.
      do 2 bind_ok Hv.
      match type of Hv with (if ?b then _ else _) = _ => destruct b; [discriminate|] end.
      bind_ok Hv. inversion Hv; subst. rewrite dv_seq. eapply pos_seq_dv; eauto.
    - (* FSet None *) cbn [SetChain.vset] in Hv. destruct v; try discriminate.
      repeat bind_ok Hv. inversion Hv; subst. match goal with H : Ok _ = Ok _ |- _ => inversion H; subst end.
      exact Hd.
    - (* FSet Some *) cbn [SetChain.vset] in Hv. destruct v; try discriminate.
      bind_ok Hv. bind_ok Hv. inversion Hv; subst.
      match goal with H : bind (mapM _ _) _ = Ok _ |- _ => bind_ok H; inversion H; subst end.
      change (forallb dv (py_dedup u1) = true). change (forallb dv l = true) in Hd.
      apply forallb_forall. intros y Hy. apply py_dedup_In in Hy.
      assert (Hr : forallb dv u1 = true) by (eapply each_dv; eauto).
      eapply forallb_In; eauto.
    - (* FTuple *) cbn [SetChain.vset] in Hv. destruct v; try discriminate.
      change (forallb dv l = true) in Hd. bind_ok Hv.
      destruct fs as [|g [|g2 rest]]; [discriminate| |].
      + bind_ok Hv. inversion Hv; subst. inversion H; subst.
        change (forallb dv u1 = true). eapply each_dv; eauto.
      + match type of Hv with (if ?b then _ else _) = _ => destruct b; [discriminate|] end.
        bind_ok Hv. inversion Hv; subst.
        change (forallb dv u1 = true). eapply pos_tuple_dv; [exact H | | exact Hd].
        match goal with HH : _ = Ok u1 |- _ => exact HH end.
    - (* FMapAny *) cbn [SetChain.vset] in Hv. destruct v; try discriminate.
      bind_ok Hv. inversion Hv; subst; exact Hd.
    - (* FMapKV *) cbn [SetChain.vset] in Hv. destruct v; try discriminate.
      bind_ok Hv. bind_ok Hv. inversion Hv; subst.
      change (forallb (fun p => dv (fst p) && dv (snd p)) kv = true) in Hd.
      change (forallb (fun p => dv (fst p) && dv (snd p)) (dict_of_pairs [] u0) = true).
      assert (Hr : Forall (fun p => dv (fst p) = true /\ dv (snd p) = true) u0).
      { match goal with H : mapM _ kv = Ok u0 |- _ => apply mapM_Forall2 in H; rename H into HF end.
        clear - HF Hd IHf1 IHf2. induction HF as [|p q kv' r' Hpq Hr IH]; constructor.
        - simpl in Hd. apply andb_true_iff in Hd as [Hp _]. apply andb_true_iff in Hp as [Hk Hx].
          destruct (vset f1 (fst p)) as [k'|] eqn:Ek; [|discriminate]. cbn [bind] in Hpq.
          destruct (vset f2 (snd p)) as [v'|] eqn:Ev; [|discriminate]. cbn [bind] in Hpq.
          inversion Hpq; subst. simpl. split; [eapply IHf1 | eapply IHf2]; eauto.
        - apply IH. simpl in Hd. apply andb_true_iff in Hd as [_ Hd]. exact Hd. }
      pose proof (dict_of_pairs_Forall (fun k => dv k = true) (fun x => dv x = true) u0 [] (Forall_nil _) Hr) as HF.
      apply forallb_forall. intros p Hp. rewrite Forall_forall in HF. destruct (HF p Hp) as [A B].
      rewrite A, B. reflexivity.
    - (* FAllOf *) cbn [SetChain.vset] in Hv. bind_ok Hv. inversion Hv; subst; exact Hd.
    - (* FAnyOf *) cbn [SetChain.vset] in Hv.
      destruct (anyof_combine_In (fun g => vset g v) fs nf Hv) as [g [Ig Eg]].
      rewrite Forall_forall in H. eapply H; eauto.
    - (* FOneOf *) cbn [SetChain.vset] in Hv. bind_ok Hv.
      destruct (Nat.eqb u 1); [inversion Hv; subst; exact Hd | discriminate].
    - (* FNot *) cbn [SetChain.vset] in Hv. bind_ok Hv. inversion Hv; subst; exact Hd.
    - (* FClassRef *) cbn [SetChain.vset] in Hv. destruct v; try discriminate.
      destruct (is_instance_of e cls c); [inversion Hv; subst; exact Hd | discriminate].
  Qed.
End Nested.

(* ------------------------------------------------------------------ instance and chain level *)

Lemma alist_get_In {A} (a : list (pystr * A)) k v : alist_get a k = Some v -> exists k', In (k', v) a.
Proof.
  induction a as [|[k0 v0] t IH]; simpl; [discriminate|].
  destruct (pystr_eqb k0 k).
  - intro H. inversion H; subst. eauto.
  - intro H. destruct (IH H) as [k' I]. eauto.
Qed.

Lemma find_field_In l n fd : find_field l n = Some fd -> In fd l.
Proof.
  induction l as [|d t IH]; simpl; [discriminate|].
  destruct (pystr_eqb (fd_name d) n); [intro H; inversion H; auto | auto].
Qed.

Lemma find_class_In e n c : find_class e n = Some c -> In c e.
Proof.
  induction e as [|d t IH]; simpl; [discriminate|].
  destruct (pystr_eqb (c_name d) n); [intro H; inversion H; auto | auto].
Qed.

Lemma forallb_snd_alist_set {A} (q : A -> bool) (a : list (pystr * A)) n v :
  forallb (fun p => q (snd p)) a = true -> q v = true ->
  forallb (fun p => q (snd p)) (alist_set a n v) = true.
Proof.
  induction a as [|[k y] t IH]; simpl; intros Ha Hv.
  - rewrite Hv. reflexivity.
  - apply andb_true_iff in Ha as [H1 H2].
    destruct (pystr_eqb k n); simpl; [rewrite Hv, H2 | rewrite H1, (IH H2 Hv)]; reflexivity.
Qed.

Section NestedInstance.
  Variable re_match : N -> pystr -> bool.
  Variable e : env.

  Notation vset := (vset re_match e).
  Notation dv := (deep_valid re_match e).
  Notation setattr := (setattr re_match e).
  Notation set_all := (set_all re_match e).
  Notation construct := (construct re_match e).
  Notation struct_ok := (struct_ok re_match e).
  Notation inst_ok := (inst_ok re_match e).
  Notation run_entry := (run_entry re_match e).
  Notation run_chain := (run_chain re_match e).
  Notation chain_dom := (chain_dom re_match e).
  Notation entry_dom := (entry_dom re_match e).
  Notation entry_plan := (entry_plan e).
  Notation vals_deep := (vals_deep re_match e).
  Notation entry_vals_deep := (entry_vals_deep re_match e).
  Notation class_defaults_deep := (class_defaults_deep re_match e).
  Notation env_defaults_deep := (env_defaults_deep re_match e).
  Notation chain_vals_deep := (chain_vals_deep re_match e).

  Lemma dv_struct cn a :
    dv (PStruct cn a) = inst_ok (PStruct cn a) && vals_deep a.
  Proof. reflexivity. Qed.

  Lemma setattr_deep c a n v a' :
    setattr c false a n v = (a', Done) -> vals_deep a = true -> dv v = true -> vals_deep a' = true.
  Proof.
    unfold Instance.setattr. rewrite andb_false_r. intros H Ha Hv.
    destruct (find_field (c_fields c) n) as [fd|].
    - destruct (c_ignore_none c && is_none_val v && negb (is_required c n)).
      + inversion H; subst. exact Ha.
      + destruct (vset (fd_field fd) v) as [nf|x] eqn:Ev; [|discriminate].
        destruct (fd_immutable fd && alist_has a n); [discriminate|].
        cbn [andb] in H. inversion H; subst.
        apply forallb_snd_alist_set; [exact Ha|].
        exact (vset_keeps_nested_valid re_match e _ _ _ Ev Hv).
    - destruct (c_additional c); [|discriminate].
      destruct (c_ignore_none c && is_none_val v && negb (is_required c n)).
      + inversion H; subst. exact Ha.
      + inversion H; subst. apply forallb_snd_alist_set; assumption.
  Qed.

  Lemma set_all_deep c kw : forall a a',
      set_all c a kw = Ok a' -> vals_deep a = true -> vals_deep kw = true -> vals_deep a' = true.
  Proof.
    induction kw as [|[n v] t IH]; simpl; intros a a' H Ha Hk.
    - inversion H; subst. exact Ha.
    - apply andb_true_iff in Hk as [Hv Hk].
      destruct (setattr c false a n v) as [a1 [|x]] eqn:Es; [|discriminate].
      eapply IH; eauto. eapply setattr_deep; eauto.
  Qed.

  Lemma vals_deep_set (l : kwargs) n v : vals_deep l = true -> dv v = true -> vals_deep (alist_set l n v) = true.
  Proof.
    unfold Entry.vals_deep. intros Hl Hv. induction l as [|[k x] t IH]; cbn [alist_set forallb snd].
    - rewrite Hv. reflexivity.
    - cbn [forallb snd] in Hl. apply andb_true_iff in Hl. destruct Hl as [H1 H2].
      destruct (pystr_eqb k n); cbn [forallb snd]; [rewrite Hv; exact H2 | rewrite H1; exact (IH H2)].
  Qed.

  Lemma vals_deep_merge (base over : kwargs) : vals_deep base = true -> vals_deep over = true -> vals_deep (merge_kw base over) = true.
  Proof.
    unfold merge_kw. revert base. induction over as [|[n v] t IH]; intros base Hb Ho; [exact Hb|].
    unfold Entry.vals_deep in Ho. cbn [forallb snd] in Ho. apply andb_true_iff in Ho. destruct Ho as [H1 H2].
    cbn [fold_left fst snd]. apply IH; [apply vals_deep_set; assumption | exact H2].
  Qed.

  Lemma defaults_deep c kw : class_defaults_deep c = true -> vals_deep (defaults_of c kw) = true.
  Proof.
    unfold Entry.class_defaults_deep, Entry.vals_deep, defaults_of. intro H.
    induction (c_fields c) as [|fd t IH]; simpl in *; [reflexivity|].
    apply andb_true_iff in H as [H1 H2].
    destruct (fd_default fd) as [d|]; [|auto].
    destruct (alist_has kw (fd_name fd)); simpl; [auto|]. rewrite H1. auto.
  Qed.

  Lemma construct_deep c kw cn a :
    construct c kw = Ok (PStruct cn a) ->
    vals_deep kw = true -> class_defaults_deep c = true -> vals_deep a = true.
  Proof.
    unfold Instance.construct. intros H Hk Hd.
    destruct (has_dup (map fst kw)); [discriminate|].
    destruct (negb (bind_ok c kw)); [discriminate|].
    match type of H with bind ?r _ = _ => destruct r as [a0|x] eqn:E0; cbn [bind] in H; [|discriminate] end.
    match type of H with bind ?r _ = _ => destruct r as [a1|x] eqn:E1; cbn [bind] in H; [|discriminate] end.
    match type of H with bind ?r _ = _ => destruct r as [a2|x] eqn:E2; cbn [bind] in H; [|discriminate] end.
    destruct (hook_ok (c_hook c) a2); [|discriminate]. inversion H; subst.
    eapply set_all_deep; [exact E2 | | apply forallb_filter; exact Hk].
    eapply set_all_deep; [exact E1 | | apply defaults_deep; exact Hd].
    eapply set_all_deep; [exact E0 | reflexivity | apply forallb_filter; exact Hk].
  Qed.

  Lemma getattr_deep cd a k v :
    vals_deep a = true -> class_defaults_deep cd = true -> getattr_opt cd a k = Some v -> dv v = true.
  Proof.
    unfold getattr_opt. intros Ha Hd H.
    destruct (alist_get a k) as [v0|] eqn:Eg.
    - inversion H; subst. destruct (alist_get_In a k v Eg) as [k' I].
      exact (forallb_In _ _ _ Ha I).
    - destruct (find_field (c_fields cd) k) as [fd|] eqn:Ef; [|discriminate].
      inversion H; subst. destruct (fd_default fd) as [d|] eqn:Edf; [|reflexivity].
      pose proof (forallb_In _ _ _ Hd (find_field_In _ _ _ Ef)) as Hx. cbn beta in Hx.
      rewrite Edf in Hx. exact Hx.
  Qed.

  Lemma class_deep cn c : env_defaults_deep = true -> find_class e cn = Some c -> class_defaults_deep c = true.
  Proof. intros He Hc. exact (forallb_In _ _ _ He (find_class_In _ _ _ Hc)). Qed.

  (* the keyword arguments an entry point hands to the constructor only carry valid instances *)
  Lemma plan_vals_deep cur en c kw :
    env_defaults_deep = true -> dv cur = true -> entry_vals_deep en = true ->
    entry_plan cur en = PConstruct c kw ->
    vals_deep kw = true /\ class_defaults_deep c = true.
  Proof.
    intros He Hcur Hen Ep.
    destruct en as [cn kw0|cn kw0|cn over|cn src over|over|cn|cn n kw0| | |];
      cbn [Entry.entry_plan Entry.entry_vals_deep] in Ep, Hen; unfold with_class in Ep.
    - (* ctor *) destruct (find_class e cn) eqn:E; [|discriminate]. inversion Ep; subst.
      split; [exact Hen | eapply class_deep; eauto].
    - (* deser *) destruct (find_class e cn) eqn:E; [|discriminate]. inversion Ep; subst.
      split; [exact Hen | eapply class_deep; eauto].
    - (* from_other *)
      destruct (find_class e cn) eqn:E; [|discriminate].
      destruct cur as [| | | | | | | | | |cn0 a0|]; try discriminate.
      unfold with_instance, with_class in Ep. destruct (find_class e cn0) eqn:E0; [|discriminate].
      inversion Ep; subst. split; [|eapply class_deep; eauto].
      rewrite dv_struct in Hcur. apply andb_true_iff in Hcur as [_ Hattrs].
      unfold from_other_kwargs, Entry.vals_deep. rewrite forallb_app, forallb_flat_map'.
      apply andb_true_iff; split; [|exact Hen].
      apply forallb_forall. intros k _. destruct (alist_has over k); [reflexivity|].
      destruct (getattr_opt _ a0 k) as [v|] eqn:Eg; [|reflexivity].
      simpl. rewrite (getattr_deep _ a0 k v Hattrs (class_deep _ _ He E0) Eg). reflexivity.
    - (* from_mapping *)
      destruct (find_class e cn) eqn:E; [|discriminate]. inversion Ep; subst.
      split; [|eapply class_deep; eauto].
      apply andb_true_iff in Hen as [Hs Ho].
      unfold from_mapping_kwargs, Entry.vals_deep. rewrite forallb_app, forallb_flat_map'.
      apply andb_true_iff; split; [|exact Ho].
      apply forallb_forall. intros k _. destruct (alist_has over k); [reflexivity|].
      simpl. destruct (alist_get src k) as [v|] eqn:Eg; [|reflexivity].
      destruct (alist_get_In src k v Eg) as [k' I]. pose proof (forallb_In _ _ _ Hs I) as Hx.
      cbn [snd] in Hx. rewrite Hx. reflexivity.
    - (* clone *)
      destruct cur as [| | | | | | | | | |cn0 a0|]; try discriminate.
      unfold with_instance, with_class in Ep. destruct (find_class e cn0) eqn:E0; [|discriminate].
      inversion Ep; subst. split; [|eapply class_deep; eauto].
      rewrite dv_struct in Hcur. apply andb_true_iff in Hcur as [_ Hattrs].
      unfold clone_kwargs. apply vals_deep_merge; [|exact Hen].
      unfold cast_kwargs, Entry.vals_deep. rewrite forallb_flat_map'.
      apply forallb_forall. intros k _.
      destruct (getattr_opt _ a0 k) as [v|] eqn:Eg; [|reflexivity].
      destruct (not_none v); [|reflexivity]. simpl. rewrite (getattr_deep _ a0 k v Hattrs (class_deep _ _ He E0) Eg). reflexivity.
    - (* cast *)
      destruct (find_class e cn) eqn:E; [|discriminate].
      destruct cur as [| | | | | | | | | |cn0 a0|]; try discriminate.
      unfold with_instance, with_class in Ep. destruct (find_class e cn0) eqn:E0; [|discriminate].
      match type of Ep with (if ?b then _ else _) = _ => destruct b; [|discriminate] end.
      inversion Ep; subst. split; [|eapply class_deep; eauto].
      rewrite dv_struct in Hcur. apply andb_true_iff in Hcur as [_ Hattrs].
      unfold cast_kwargs, Entry.vals_deep. rewrite forallb_flat_map'.
      apply forallb_forall. intros k _.
      destruct (getattr_opt _ a0 k) as [v|] eqn:Eg; [|reflexivity].
      destruct (not_none v); [|reflexivity]. simpl. rewrite (getattr_deep _ a0 k v Hattrs (class_deep _ _ He E0) Eg). reflexivity.
    - (* wrap *)
      destruct (find_class e cn) eqn:E; [|discriminate]. inversion Ep; subst.
      split; [|eapply class_deep; eauto].
      unfold Entry.vals_deep. rewrite forallb_app. apply andb_true_iff; split; [exact Hen|].
      simpl. rewrite Hcur. reflexivity.
    - (* copy *) destruct cur; try discriminate. unfold with_instance, with_class in Ep.
      destruct (find_class e cls); discriminate.
    - (* deepcopy *) destruct cur; try discriminate. unfold with_instance, with_class in Ep.
      destruct (find_class e cls); discriminate.
    - (* pickle *) destruct cur; try discriminate. unfold with_instance, with_class in Ep.
      destruct (find_class e cls); discriminate.
  Qed.

  (* every entry point: the result and every instance nested in it are valid *)
  Theorem entry_deep_sound cur en x :
    env_defaults_deep = true -> dv cur = true -> entry_vals_deep en = true ->
    entry_dom cur en = true -> run_entry cur en = Ok x -> dv x = true.
  Proof.
    intros He Hcur Hen Hdom Hr.
    assert (Hcur' : match entry_plan cur en with PValue _ => inst_ok cur = true | _ => True end).
    { destruct (entry_plan cur en) eqn:Ep; auto.
      destruct cur; try (unfold Entry.entry_plan, with_class, with_instance in Ep;
                         destruct en; repeat (destruct (find_class e _)); discriminate).
      rewrite dv_struct in Hcur. apply andb_true_iff in Hcur as [Hi _]. exact Hi. }
    pose proof (entry_sound re_match e cur en x Hdom Hcur' Hr) as Hok.
    unfold Entry.run_entry in Hr.
    destruct (entry_plan cur en) as [c kw|v|ex] eqn:Ep; [| |discriminate].
    - destruct (plan_vals_deep cur en c kw He Hcur Hen Ep) as [Hk Hd].
      destruct x; try discriminate Hok.
      rewrite dv_struct, Hok. cbn [andb]. eapply construct_deep; eauto.
    - inversion Hr; subst x.
      unfold Entry.entry_plan, with_class, with_instance in Ep.
      destruct en; try (destruct cur as [| | | | | | | | | |cn0 a0|]; try discriminate);
        repeat (first [ progress (unfold with_class, with_instance in Ep)
                      | match type of Ep with
                        | match find_class e ?n with _ => _ end = _ =>
                            let E := fresh "E" in destruct (find_class e n) eqn:E; [|discriminate]
                        | (if ?b then _ else _) = _ => destruct b; [|discriminate]
                        end ]);
        try discriminate; inversion Ep; subst; clear Ep;
        rewrite dv_struct in Hcur; apply andb_true_iff in Hcur as [_ Hattrs];
        rewrite dv_struct, Hok; cbn [andb]; try exact Hattrs.
      apply forallb_filter. exact Hattrs.
  Qed.

  (* C01, nested: any chain of entry points, from PNone or from a deeply valid instance *)
  Theorem chain_deep_sound : forall ch x0 x,
      env_defaults_deep = true -> dv x0 = true -> chain_vals_deep ch = true ->
      chain_dom x0 ch = true -> run_chain x0 ch = Ok x -> dv x = true.
  Proof.
    induction ch as [|en t IH]; simpl; intros x0 x He H0 Hv Hd Hr.
    - inversion Hr; subst. exact H0.
    - apply andb_true_iff in Hd as [Hd1 Hd2]. apply andb_true_iff in Hv as [Hv1 Hv2].
      destruct (run_entry x0 en) as [x1|ex] eqn:E1; [|discriminate]. cbn [bind] in Hr.
      apply (IH x1 x He); [|exact Hv2|exact Hd2|exact Hr].
      eapply entry_deep_sound; eauto.
  Qed.
End NestedInstance.
