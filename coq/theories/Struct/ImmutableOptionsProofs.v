(* C04 over the class options of Structure.__setattr__ (Struct/ImmutableOptions.v):
   - an instantiated instance of an immutable class refuses EVERY assignment, whatever the options
     (_enable_undefined_value, _ignore_none, _additional_properties, _required), the key and the value, and both
     components of its state (attributes, explicit-None markers) stay as they were — for one assignment
     (immutable_setattr_u), for the effect list translated from the source (generated_immutable_options) and for
     every finite history (immutable_history);
   - an immutable field that holds a value is left as it was by EVERY assignment to it (immutable_field_setattr),
     also on the path on which __setattr__ never reaches Field.__set__ -- None under _enable_undefined_value to a
     non-required field: that branch tests the field's immutability itself (repair of finding F23); for a field that
     is not immutable, or holds no value, the marker is added on that path (none_marker_path_changes). *)
From Coq Require Import ZArith NArith String List Bool Lia.
Import ListNotations.
From TP Require Import Base.PyVal Base.PyOps Base.PyOps2 Base.PyObj Fields.FieldAst Fields.SetChain Fields.Doc
  Struct.Shapes Struct.Instance Struct.StructGuardProofs Struct.NoneFields Struct.NoneFieldsProofs
  Struct.ImmutableOptions Gen.StructNoneFields.

Section Options.
  Variable re_match : N -> pystr -> bool.
  Variable e : env.

  Notation setattr_u := (setattr_u re_match e).
  Notation run_sets := (run_sets re_match e).
  Notation all_raise := (all_raise re_match e).
  Notation run_decision := (run_decision re_match e).

  Lemma eta st : {| u_attrs := u_attrs st; u_none := u_none st |} = st.
  Proof. destruct st; reflexivity. Qed.

  Lemma immutable_setattr_u : forall c u st n v,
      c_immutable c = true -> setattr_u c u true st n v = (st, Raised ValueError).
  Proof.
    intros c u st n v Hc. unfold NoneFields.setattr_u, setattr_nf_decision. rewrite Hc. reflexivity.
  Qed.

  Theorem generated_immutable_options : forall c u st n v,
      c_immutable c = true -> ordinary_name n = true ->
      run_decision c true st n (Structure__setattr_nf (undef_heap c u true (u_attrs st)) (PStr n) v) = (st, Raised ValueError).
  Proof.
    intros c u st n v Hc Hn. rewrite generated_setattr_nf by assumption.
    exact (immutable_setattr_u c u st n v Hc).
  Qed.

  Theorem immutable_history : forall c u ops st,
      c_immutable c = true -> run_sets c u st ops = st /\ all_raise c u st ops = true.
  Proof.
    intros c u ops st Hc. induction ops as [|[n v] t IH]; [split; reflexivity|].
    destruct IH as [IH1 IH2]. split.
    - cbn [ImmutableOptions.run_sets]. rewrite immutable_setattr_u by assumption. cbn [fst]. exact IH1.
    - unfold ImmutableOptions.all_raise in *. cbn [forallb fst snd]. rewrite immutable_setattr_u by assumption.
      cbn [snd andb]. exact IH2.
  Qed.

  (* ---------------------------------------------------------------- an immutable field inside any class *)
  Theorem immutable_field_setattr : forall c u inst st n v fd,
      find_field (c_fields c) n = Some fd -> fd_immutable fd = true -> alist_has (u_attrs st) n = true ->
      fst (setattr_u c u inst st n v) = st.
  Proof.
    intros c u inst st n v fd Hf Hi Hh.
    assert (Hin : str_in n (field_names c) = true) by (rewrite in_field_names, Hf; reflexivity).
    assert (Hfi : field_immutable c n = true) by (unfold field_immutable; rewrite Hf; exact Hi).
    unfold NoneFields.setattr_u, setattr_nf_decision. rewrite Hin, Hh, Hfi.
    destruct (c_immutable c && inst); [reflexivity|].
    rewrite orb_true_r. cbn [negb andb].
    destruct ((c_ignore_none c || u) && is_none_val v && negb (is_required c n)) eqn:Hg.
    - destruct u; cbn [NoneFields.run_decision run_nf fst]; reflexivity.
    - cbn [NoneFields.run_decision run_nf]. unfold nf_hand, nf_chain. rewrite Hf.
      destruct (vset re_match e (fd_field fd) v) as [nf|x]; [rewrite Hi, Hh; cbn [andb]|]; cbn [fst]; apply eta.
  Qed.

  Theorem none_marker_path_changes : forall c u inst st n v,
      (c_immutable c && inst) = false -> none_marker_path c u n v = true -> str_in n (u_none st) = false ->
      (alist_has (u_attrs st) n && field_immutable c n) = false ->
      setattr_u c u inst st n v = ({| u_attrs := u_attrs st; u_none := n :: u_none st |}, Done).
  Proof.
    intros c u inst st n v Hc Hp Hn Hfree. unfold none_marker_path in Hp.
    apply andb_true_iff in Hp. destruct Hp as [Hp Hin]. apply andb_true_iff in Hp. destruct Hp as [Hp Hr].
    apply andb_true_iff in Hp. destruct Hp as [Hu Hv]. subst u.
    unfold NoneFields.setattr_u, setattr_nf_decision. rewrite Hc, Hin, Hv, Hr, Hfree, !orb_true_r. cbn [negb andb].
    cbn [NoneFields.run_decision run_nf]. unfold nf_add. rewrite Hn. reflexivity.
  Qed.

  (* ---------------------------------------------------------------- frame: an assignment to ANOTHER key *)
  Lemma get_set_other {A} (l : list (pystr * A)) k k' v :
    pystr_eqb k k' = false -> alist_get (alist_set l k v) k' = alist_get l k'.
  Proof.
    intros Hne. induction l as [|[k0 v0] t IH]; cbn [alist_set alist_get].
    - rewrite Hne. reflexivity.
    - destruct (pystr_eqb k0 k) eqn:E; cbn [alist_get].
      + apply pystr_eqb_spec in E. subst k0. rewrite Hne. reflexivity.
      + destruct (pystr_eqb k0 k'); [reflexivity | exact IH].
  Qed.

  Lemma str_in_add m n s : pystr_eqb n m = false -> str_in n (nf_add m s) = str_in n s.
  Proof.
    intros H. unfold nf_add. destruct (str_in m s); [reflexivity|]. unfold str_in. cbn [existsb]. rewrite H. reflexivity.
  Qed.

  Lemma str_in_del m n s : pystr_eqb n m = false -> str_in n (nf_del m s) = str_in n s.
  Proof.
    intros H. unfold nf_del, str_in. induction s as [|x t IH]; [reflexivity|]. cbn [filter existsb].
    destruct (pystr_eqb x m) eqn:E; cbn [negb].
    - apply pystr_eqb_spec in E. subst x. rewrite H. cbn [orb]. exact IH.
    - cbn [existsb]. rewrite IH. reflexivity.
  Qed.

  Lemma nf_hand_frame : forall c inst a m v n,
      pystr_eqb m n = false -> alist_get (fst (nf_hand re_match e c inst a m v true)) n = alist_get a n.
  Proof.
    intros c inst a m v n Hne. unfold nf_hand, nf_chain.
    destruct (find_field (c_fields c) m) as [fd|]; [|cbn [fst]; apply get_set_other; exact Hne].
    destruct (vset re_match e (fd_field fd) v) as [nf|x]; [|reflexivity].
    destruct (fd_immutable fd && alist_has a m); [reflexivity|].
    destruct (inst && negb (hook_ok (c_hook c) (alist_set a m nf))); cbn [fst]; [reflexivity|].
    apply get_set_other; exact Hne.
  Qed.

  Lemma setattr_u_frame : forall c u inst st m v n,
      pystr_eqb m n = false -> field_view (fst (setattr_u c u inst st m v)) n = field_view st n.
  Proof.
    intros c u inst st m v n Hne.
    assert (Hne' : pystr_eqb n m = false) by (rewrite pystr_eqb_sym; exact Hne).
    unfold NoneFields.setattr_u, setattr_nf_decision.
    destruct (c_immutable c && inst); [reflexivity|].
    destruct (negb (c_additional c || str_in m (field_names c))); [reflexivity|].
    destruct ((c_ignore_none c || u) && is_none_val v && negb (is_required c m)).
    - destruct (str_in m (field_names c) && u); [destruct (alist_has (u_attrs st) m && field_immutable c m)|];
        cbn [NoneFields.run_decision run_nf fst]; [reflexivity| |reflexivity].
      unfold field_view. cbn [u_attrs u_none]. rewrite str_in_add by exact Hne'. reflexivity.
    - cbn [NoneFields.run_decision run_nf].
      pose proof (nf_hand_frame c inst (u_attrs st) m v n Hne) as Hf.
      destruct (nf_hand re_match e c inst (u_attrs st) m v true) as [a' [|x]]; cbn [fst] in Hf.
      + destruct (str_in m (field_names c) && u && negb (is_none_val v)); cbn [run_nf fst];
          unfold field_view; cbn [u_attrs u_none]; rewrite Hf; [rewrite str_in_del by exact Hne'|]; reflexivity.
      + cbn [fst]. unfold field_view. cbn [u_attrs u_none]. rewrite Hf. reflexivity.
  Qed.

  (* EVERY finite history of assignments (to any keys, any values, None under _enable_undefined_value included)
     leaves what the client sees of an immutable field holding a value — its attribute and its None marker — as
     it was *)
  Theorem immutable_field_history : forall c u fd n ops st,
      find_field (c_fields c) n = Some fd -> fd_immutable fd = true -> alist_has (u_attrs st) n = true ->
      field_view (run_sets c u st ops) n = field_view st n.
  Proof.
    intros c u fd n ops. induction ops as [|[m v] t IH]; intros st Hf Hi Hh; [reflexivity|].
    cbn [ImmutableOptions.run_sets].
    destruct (pystr_eqb m n) eqn:Hmn.
    - apply pystr_eqb_spec in Hmn. subst m.
      rewrite (immutable_field_setattr c u true st n v fd Hf Hi Hh). apply IH; assumption.
    - pose proof (setattr_u_frame c u true st m v n Hmn) as Hfr.
      rewrite IH; [exact Hfr|exact Hf|exact Hi|].
      unfold field_view in Hfr. injection Hfr as Hg _. unfold alist_has in *. rewrite Hg. exact Hh.
  Qed.
End Options.
