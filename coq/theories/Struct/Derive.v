(* The derivation operators Partial / AllFieldsRequired / Extend (typedpy/structures/structures_reuse.py)
   and Structure.omit / Structure.pick (structures.py), as functions from the source class object to the
   class dict they hand to `type(classname, (Structure,), cls_dict)` -- i.e. to a class statement that
   goes through the SAME [define] as any other class.  Also the documented field/required sets
   (the spec side of C12).  Executable; no proofs here. *)
From Coq Require Import ZArith NArith String Ascii Bool List.
Import ListNotations.
From TP Require Import Base.PyVal Fields.FieldAst Fields.SetChain Struct.Define.

Inductive op :=
| OpPartial
| OpAllRequired
| OpExtend
| OpOmit (names : list pystr)
| OpPick (names : list pystr).

Definition op_prefix (o : op) : pystr :=
  match o with
  | OpPartial => s2p "Partial"
  | OpAllRequired => s2p "AllFieldsRequired"
  | OpExtend => s2p "Extend"
  | OpOmit _ => s2p "Omit"
  | OpPick _ => s2p "Pick"
  end.

(* the class name: explicit, or <Operator><SourceName> *)
Definition derived_name (o : op) (cname : option pystr) (k : klass) : pystr :=
  match cname with Some n => n | None => op_prefix o ++ k_name k end.

Definition as_objs (ms : members) : list (pystr * mstmt) := map (fun nm => (fst nm, SObj (snd nm))) ms.

(* getattr(cls, '_ignore_none') through the classes [mro] names, when one of them sets the attribute *)
Fixpoint inherited_ignore_none (g : genv) (mro : list pystr) : option bool :=
  match mro with
  | [] => None
  | c :: t =>
      match find_klass g c with
      | Some kc => match k_ignore_none kc with Some b => Some b | None => inherited_ignore_none g t end
      | None => inherited_ignore_none g t
      end
  end.

(* hasattr(cls, '_ignore_none') / getattr(cls, '_ignore_none'): the class's own setting, else what its bases
   give ([inh]) *)
Definition effective_ignore_none (inh : option bool) (k : klass) : option bool :=
  match k_ignore_none k with Some b => Some b | None => inh end.

(* _init_class_dict: `_fields` / `_defaults` of the source's OWN __dict__ (both are overwritten by
   StructMeta.__new__), and `_ignore_none` as the source sees it -- its own or an inherited one *)
Definition derived_stmt (name : pystr) (ign : option bool) (ms : members) (required : list pystr) : classstmt :=
  {| s_name := name; s_bases := [n_Structure]; s_members := as_objs ms;
     s_required := Some required; s_optional := None; s_additional := None;
     s_ignore_none := ign; s_attrs := []; s_keys_of := [] |}.

(* AllFieldsRequiredMeta.__getitem__: every member whose getattr(v, "_default", None) is None -- a Constant
   has no _default and is listed, too (as in the _required of an ordinary class statement) *)
Fixpoint all_required_seed (ms : members) : list pystr :=
  match ms with
  | [] => []
  | (n, m) :: t => if has_default m then all_required_seed t else n :: all_required_seed t
  end.

Definition pick_members (src : members) (names : list pystr) : members :=
  flat_map (fun n => match alist_get src n with Some m => [(n, m)] | None => [] end) (dedup_str names).

Definition derive_stmt (inh : option bool) (k : klass) (o : op) (cname : option pystr) : res classstmt :=
  let name := derived_name o cname k in
  let src := k_all k in
  let ign := effective_ignore_none inh k in
  match o with
  | OpPartial => Ok (derived_stmt name ign src [])
  | OpAllRequired => Ok (derived_stmt name ign src (all_required_seed src))
  | OpExtend => Ok (derived_stmt name ign src (k_required k))
  | OpOmit ns =>
      if forallb (fun n => alist_has src n) ns
      then Ok (derived_stmt name ign (filter (fun nm => negb (str_in (fst nm) ns)) src)
                            (filter (fun x => negb (str_in x ns)) (k_required k)))
      else Raise TypeError
  | OpPick ns =>
      if forallb (fun n => alist_has src n) ns
      then Ok (derived_stmt name ign (pick_members src ns) (filter (fun x => str_in x ns) (k_required k)))
      else Raise TypeError
  end.

(* `_enable_undefined_value` as the source sees it ([eu]: its own setting or an inherited one, None when no class
   of its MRO has the attribute): _init_class_dict copies it next to `_ignore_none`, so the class statement of the
   derived class sets the attribute exactly when the source has it.  ([klass] does not record non-field
   attributes; [define] only runs its two guards over them.) *)
Definition n_enable_undefined : pystr := s2p "_enable_undefined_value".

Definition undefined_attrs (eu : option bool) : list (pystr * uval) :=
  match eu with Some _ => [(n_enable_undefined, UBool)] | None => [] end.

Definition with_undefined (eu : option bool) (s : classstmt) : classstmt :=
  {| s_name := s_name s; s_bases := s_bases s; s_members := s_members s;
     s_required := s_required s; s_optional := s_optional s; s_additional := s_additional s;
     s_ignore_none := s_ignore_none s; s_attrs := undefined_attrs eu ++ s_attrs s; s_keys_of := s_keys_of s |}.

Definition derived_stmt_eu (name : pystr) (ign eu : option bool) (ms : members) (required : list pystr) : classstmt :=
  with_undefined eu (derived_stmt name ign ms required).

(* the class statement an operator hands to `type(...)`: [derive_stmt] with the carried `_enable_undefined_value` *)
Definition derive_stmt_eu (inh eu : option bool) (k : klass) (o : op) (cname : option pystr) : res classstmt :=
  s <- derive_stmt inh k o cname ;; Ok (with_undefined eu s).

(* the value the derived class has for the attribute: the source's, True or False (absent stays absent) *)
Definition carried_undefined (eu : option bool) : option bool := eu.

(* ------------------------------------------------------------------ the documented sets (spec) *)

Definition member_has_default (ms : members) (n : pystr) : bool :=
  match alist_get ms n with Some m => has_default m | None => false end.

Definition doc_fields (o : op) (src : members) : res members :=
  match o with
  | OpOmit ns => if forallb (fun n => alist_has src n) ns
                 then Ok (filter (fun nm => negb (str_in (fst nm) ns)) src) else Raise TypeError
  | OpPick ns => if forallb (fun n => alist_has src n) ns
                 then Ok (pick_members src ns) else Raise TypeError
  | _ => Ok src
  end.

(* Partial: none; AllFieldsRequired: every field without a default; Extend: unchanged;
   Omit/Pick: the source's required names restricted to the retained fields *)
Definition doc_required (o : op) (src : members) (req : list pystr) : list pystr :=
  match o with
  | OpPartial => []
  | OpAllRequired => map fst (filter (fun nm => negb (has_default (snd nm))) src)
  | OpExtend => req
  | OpOmit ns => filter (fun x => negb (str_in x ns)) req
  | OpPick ns => filter (fun x => str_in x ns) req
  end.

Definition dstate := (members * list pystr)%type.

Definition doc_step (o : op) (st : dstate) : res dstate :=
  ms <- doc_fields o (fst st) ;; Ok (ms, doc_required o (fst st) (snd st)).

Fixpoint doc_chain (ops : list op) (st : dstate) : res dstate :=
  match ops with
  | [] => Ok st
  | o :: t => st' <- doc_step o st ;; doc_chain t st'
  end.

(* the source's _required is duplicate-free and names no field that has a default *)
Definition req_wfb (ms : members) (req : list pystr) : bool :=
  negb (has_dup_str req) && forallb (fun n => negb (member_has_default ms n)) req.

Section Derive.
  Variable re_match : N -> pystr -> bool.
  Variable e : env.
  Variable gd : guards.

  (* what the source's bases say about _ignore_none (the source itself is the head of its MRO) *)
  Definition bases_ignore_none (g : genv) (k : klass) : option bool := inherited_ignore_none g (tl_str (k_mro k)).

  Definition derive (g : genv) (k : klass) (o : op) (cname : option pystr) : res klass :=
    s <- derive_stmt (bases_ignore_none g k) k o cname ;; define re_match e gd g s.

  (* successive derivations, each new class entering the environment *)
  Fixpoint derive_chain (g : genv) (k : klass) (ops : list (op * option pystr)) : res klass :=
    match ops with
    | [] => Ok k
    | (o, cn) :: t => k' <- derive g k o cn ;; derive_chain (k' :: g) k' t
    end.
End Derive.
