(* C01 for omitted fields: whatever value a default factory returns at the moment of a construction, an
   instance that comes out is valid for the class AS DECLARED (the value was validated like a supplied one). *)
From Coq Require Import ZArith NArith String List Bool Lia.
Import ListNotations.
From TP Require Import Base.PyVal Fields.FieldAst Fields.SetChain Fields.Doc Fields.Domain
  Struct.Shapes Struct.Instance Struct.Entry Struct.InstanceProofs Struct.Defaults.

Lemma find_field_with_default n d l m :
  find_field (map (fd_with_default n d) l) m = option_map (fd_with_default n d) (find_field l m).
Proof.
  induction l as [|fd t IH]; [reflexivity|].
  cbn [map find_field]. unfold fd_with_default at 1.
  destruct (pystr_eqb (fd_name fd) n); cbn [fd_name]; destruct (pystr_eqb (fd_name fd) m);
    try exact IH; cbn [option_map]; unfold fd_with_default;
    destruct (pystr_eqb (fd_name fd) n) eqn:E; try reflexivity.
Qed.

Lemma fd_field_with_default n d fd : fd_field (fd_with_default n d fd) = fd_field fd.
Proof. unfold fd_with_default. destruct (pystr_eqb (fd_name fd) n); reflexivity. Qed.

Lemma field_names_with_default c n d : field_names (with_default c n d) = field_names c.
Proof.
  unfold field_names, with_default. cbn [c_fields]. rewrite map_map.
  apply map_ext. intro fd. unfold fd_with_default. destruct (pystr_eqb (fd_name fd) n); reflexivity.
Qed.

Lemma forallb_ext' {A} (f g : A -> bool) l : (forall x, f x = g x) -> forallb f l = forallb g l.
Proof. intro H. induction l as [|x t IH]; [reflexivity|]. cbn [forallb]. rewrite H, IH. reflexivity. Qed.

Section Defaults.
  Variable re_match : N -> pystr -> bool.
  Variable e : env.

  (* validity does not look at defaults *)
  Lemma struct_ok_with_default c n d a :
    struct_ok re_match e (with_default c n d) a = struct_ok re_match e c a.
  Proof.
    unfold struct_ok. cbn [with_default c_required c_fields c_additional c_hook].
    f_equal. f_equal. f_equal.
    apply forallb_ext'. intros [k v]. cbn [fst snd].
    rewrite find_field_with_default. destruct (find_field (c_fields c) k) as [fd|]; cbn [option_map]; [|reflexivity].
    rewrite fd_field_with_default. reflexivity.
  Qed.

  (* construction with ANY value returned by the factory of field n *)
  Theorem construct_default_sound c n d kw v :
    kw_ok re_match e (with_default c n d) kw = true ->
    defaults_ok re_match e (with_default c n d) = true ->
    construct re_match e (with_default c n d) kw = Ok v ->
    exists a, v = PStruct (c_name c) a /\ struct_ok re_match e c a = true.
  Proof.
    intros Hk Hd H.
    destruct (construct_sound re_match e (with_default c n d) kw v Hk Hd H) as [a [Hv Ha]].
    exists a. split; [exact Hv|]. rewrite struct_ok_with_default in Ha. exact Ha.
  Qed.
End Defaults.
