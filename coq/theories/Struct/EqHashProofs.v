(* Proofs about Struct/EqHash.v (C11): Python's == on model values is an equivalence on
   duplicate-free containers; Structure.__eq__ is an equivalence and is field-wise equality;
   canonical equal instances are printed (hence hashed) identically; copies preserve equality. *)
From Coq Require Import ZArith QArith NArith String Ascii Bool Lia List Permutation Sorting.Sorted.
Import ListNotations.
From TP Require Import Base.PyVal Fields.FieldAst Struct.EqHash.
Local Open Scope Z_scope.

(* ------------------------------------------------------------------ unfolding py_eq *)

Definition eq_list_by (f : pyval -> pyval -> bool) :=
  fix eq_list (l m : list pyval) {struct l} : bool :=
    match l, m with
    | [], [] => true
    | x :: l', y :: m' => f x y && eq_list l' m'
    | _, _ => false
    end.
Definition all_in_by (f : pyval -> pyval -> bool) :=
  fix all_in (l m : list pyval) {struct l} : bool :=
    match l with [] => true | x :: l' => existsb (fun y => f x y) m && all_in l' m end.
Definition all_kv_by (f : pyval -> pyval -> bool) (kw : list (pyval * pyval)) :=
  fix all_kv (l : list (pyval * pyval)) : bool :=
    match l with
    | [] => true
    | (k, x) :: l' => existsb (fun p => f k (fst p) && f x (snd p)) kw && all_kv l'
    end.
Definition all_at_by (f : pyval -> pyval -> bool) (attrs' : list (pystr * pyval)) :=
  fix all_at (l : list (pystr * pyval)) : bool :=
    match l with
    | [] => true
    | (k, x) :: l' => existsb (fun p => pystr_eqb k (fst p) && f x (snd p)) attrs' && all_at l'
    end.

Lemma py_eq_list l m : py_eq (PList l) (PList m) = eq_list_by py_eq l m.
Proof. reflexivity. Qed.
Lemma py_eq_tuple l m : py_eq (PTuple l) (PTuple m) = eq_list_by py_eq l m.
Proof. reflexivity. Qed.
Lemma py_eq_deque l m : py_eq (PDeque l) (PDeque m) = eq_list_by py_eq l m.
Proof. reflexivity. Qed.
Lemma py_eq_set f g l m :
  py_eq (PSet f l) (PSet g m) = Nat.eqb (length l) (length m) && all_in_by py_eq l m.
Proof. reflexivity. Qed.
Lemma py_eq_dict l m :
  py_eq (PDict l) (PDict m) = Nat.eqb (length l) (length m) && all_kv_by py_eq m l.
Proof. reflexivity. Qed.
Lemma py_eq_struct c c' l m :
  py_eq (PStruct c l) (PStruct c' m) =
  pystr_eqb c c' && Nat.eqb (length l) (length m) && all_at_by py_eq m l.
Proof. reflexivity. Qed.
Lemma py_eq_enum c n v c' n' v' :
  py_eq (PEnum c n v) (PEnum c' n' v') = pystr_eqb c c' && pystr_eqb n n'.
Proof. reflexivity. Qed.
Lemma py_eq_other t r t' r' :
  py_eq (POther t r) (POther t' r') = pystr_eqb t t' && pystr_eqb r r'.
Proof. reflexivity. Qed.

Lemma all_in_by_spec f l m :
  all_in_by f l m = forallb (fun x => existsb (fun y => f x y) m) l.
Proof. induction l as [|x l IH]; simpl; [reflexivity | rewrite IH; reflexivity]. Qed.

Lemma all_kv_by_spec f kw l :
  all_kv_by f kw l =
  forallb (fun p => existsb (fun q => f (fst p) (fst q) && f (snd p) (snd q)) kw) l.
Proof. induction l as [|[k x] l IH]; simpl; [reflexivity | rewrite IH; reflexivity]. Qed.

Lemma all_at_by_spec f kw l :
  all_at_by f kw l =
  forallb (fun p => existsb (fun q => pystr_eqb (fst p) (fst q) && f (snd p) (snd q)) kw) l.
Proof. induction l as [|[k x] l IH]; simpl; [reflexivity | rewrite IH; reflexivity]. Qed.

Lemma py_eq_numeric a b x :
  as_num a = Some x ->
  py_eq a b = match as_num b with Some y => num_eqb x y | None => false end.
Proof.
  destruct a; simpl; intro H; try discriminate; inversion H; subst; reflexivity.
Qed.

Lemma py_eq_numeric_r a b y :
  as_num b = Some y -> py_eq a b = true -> exists x, as_num a = Some x.
Proof.
  intros Hb H. destruct a; try (eexists; reflexivity);
    destruct b; simpl in Hb; try discriminate Hb; try discriminate H;
    cbv in H; discriminate H.
Qed.

(* ------------------------------------------------------------------ numbers *)

Lemma num_eqb_refl x : num_eqb x x = true.
Proof. unfold num_eqb. apply Qeq_bool_iff. reflexivity. Qed.
Lemma num_eqb_sym x y : num_eqb x y = true -> num_eqb y x = true.
Proof. unfold num_eqb. rewrite !Qeq_bool_iff. intro H. symmetry. exact H. Qed.
Lemma num_eqb_trans x y z : num_eqb x y = true -> num_eqb y z = true -> num_eqb x z = true.
Proof. unfold num_eqb. rewrite !Qeq_bool_iff. intros H1 H2. rewrite H1. exact H2. Qed.

(* ------------------------------------------------------------------ pigeonhole *)

Section Pigeon.
  Variables (A B : Type) (R : A -> B -> Prop) (E : A -> A -> Prop).

  Fixpoint nodupE (l : list A) : Prop :=
    match l with
    | [] => True
    | x :: t => (forall x', In x' t -> ~ E x x') /\ nodupE t
    end.

  Lemma pigeon : forall (l : list A) (m : list B),
      (forall x x' y, In x l -> In x' l -> R x y -> R x' y -> E x x') ->
      nodupE l -> length l = length m ->
      (forall x, In x l -> exists y, In y m /\ R x y) ->
      forall y, In y m -> exists x, In x l /\ R x y.
  Proof.
    induction l as [|a l IH]; intros m Hinj Hnd Hlen Hall y Hy.
    - destruct m; [destruct Hy | discriminate Hlen].
    - destruct (Hall a (or_introl eq_refl)) as [y0 [Hy0 Ra]].
      apply in_split in Hy0. destruct Hy0 as [m1 [m2 Hm]]. subst m.
      destruct Hnd as [Hna Hnd].
      assert (Hl : length l = length (m1 ++ m2)).
      { rewrite app_length in *. simpl in Hlen. lia. }
      assert (Hall' : forall x, In x l -> exists y', In y' (m1 ++ m2) /\ R x y').
      { intros x Hx. destruct (Hall x (or_intror Hx)) as [y' [Hy' Rx]].
        apply in_app_or in Hy'. destruct Hy' as [Hy' | [Hy' | Hy']].
        - exists y'. split; [apply in_or_app; left; exact Hy' | exact Rx].
        - subst y'. exfalso. apply (Hna x Hx).
          apply (Hinj a x y0); [left; reflexivity | right; exact Hx | exact Ra | exact Rx].
        - exists y'. split; [apply in_or_app; right; exact Hy' | exact Rx]. }
      assert (Hinj' : forall x x' y1, In x l -> In x' l -> R x y1 -> R x' y1 -> E x x').
      { intros x x' y1 Hx Hx'. apply Hinj; right; assumption. }
      apply in_app_or in Hy. destruct Hy as [Hy | [Hy | Hy]].
      + destruct (IH (m1 ++ m2) Hinj' Hnd Hl Hall' y (in_or_app _ _ _ (or_introl Hy))) as [x [Hx Rx]].
        exists x. split; [right; exact Hx | exact Rx].
      + subst y. exists a. split; [left; reflexivity | exact Ra].
      + destruct (IH (m1 ++ m2) Hinj' Hnd Hl Hall' y (in_or_app _ _ _ (or_intror Hy))) as [x [Hx Rx]].
        exists x. split; [right; exact Hx | exact Rx].
  Qed.
End Pigeon.

Lemma nodup_by_nodupE {A} (eqb : A -> A -> bool) (l : list A) :
  nodup_by eqb l = true -> nodupE A (fun x x' => eqb x x' = true) l.
Proof.
  induction l as [|x t IH]; simpl; intro H; [exact I|].
  apply andb_true_iff in H. destruct H as [H1 H2]. split; [|apply IH; exact H2].
  intros x' Hx' He. apply negb_true_iff in H1.
  assert (existsb (eqb x) t = true) by (apply existsb_exists; exists x'; split; assumption).
  congruence.
Qed.

Lemma nodup_by_map_nodupE {A B} (eqb : B -> B -> bool) (f : A -> B) (l : list A) :
  nodup_by eqb (map f l) = true -> nodupE A (fun x x' => eqb (f x) (f x') = true) l.
Proof.
  induction l as [|x t IH]; simpl; intro H; [exact I|].
  apply andb_true_iff in H. destruct H as [H1 H2]. split; [|apply IH; exact H2].
  intros x' Hx' He. apply negb_true_iff in H1.
  assert (existsb (eqb (f x)) (map f t) = true).
  { apply existsb_exists. exists (f x'). split; [apply in_map; exact Hx' | exact He]. }
  congruence.
Qed.

(* ------------------------------------------------------------------ == on values: reflexive, transitive *)

Ltac kill H := try discriminate H; try (cbv in H; discriminate H).

Lemma eq_list_by_refl l : Forall (fun x => py_eq x x = true) l -> eq_list_by py_eq l l = true.
Proof. induction 1 as [|x l Hx _ IH]; simpl; [reflexivity | rewrite Hx, IH; reflexivity]. Qed.

Lemma eq_list_by_trans l :
  Forall (fun x => forall y z, py_eq x y = true -> py_eq y z = true -> py_eq x z = true) l ->
  forall m n, eq_list_by py_eq l m = true -> eq_list_by py_eq m n = true -> eq_list_by py_eq l n = true.
Proof.
  induction 1 as [|x l Hx _ IH]; intros [|y m] [|z n] H1 H2; simpl in *; try discriminate; try reflexivity.
  apply andb_true_iff in H1. destruct H1 as [H1 H1']. apply andb_true_iff in H2. destruct H2 as [H2 H2'].
  rewrite (Hx y z H1 H2), (IH m n H1' H2'). reflexivity.
Qed.

Lemma eq_list_by_sym l :
  Forall (fun x => forall y, py_eq x y = true -> py_eq y x = true) l ->
  forall m, eq_list_by py_eq l m = true -> eq_list_by py_eq m l = true.
Proof.
  induction 1 as [|x l Hx _ IH]; intros [|y m] H1; simpl in *; try discriminate; try reflexivity.
  apply andb_true_iff in H1. destruct H1 as [H1 H1'].
  rewrite (Hx y H1), (IH m H1'). reflexivity.
Qed.

Lemma eq_list_by_length l : forall m, eq_list_by py_eq l m = true -> length l = length m.
Proof.
  induction l as [|x l IH]; intros [|y m] H; simpl in *; try discriminate; try reflexivity.
  apply andb_true_iff in H. destruct H as [_ H]. f_equal. apply IH. exact H.
Qed.

Lemma py_eq_refl : forall a, py_eq a a = true.
Proof.
  induction a as [| b | n | s | l IH | l IH | l IH | f l IH | kv IH | c n v IH | c attrs IH | t r] using pyval_ind'.
  - reflexivity.
  - rewrite (py_eq_numeric (PBool b) (PBool b) _ eq_refl). simpl as_num. apply num_eqb_refl.
  - rewrite (py_eq_numeric (PNum n) (PNum n) _ eq_refl). simpl as_num. apply num_eqb_refl.
  - simpl. apply pystr_eqb_refl.
  - rewrite py_eq_list. apply eq_list_by_refl. exact IH.
  - rewrite py_eq_tuple. apply eq_list_by_refl. exact IH.
  - rewrite py_eq_deque. apply eq_list_by_refl. exact IH.
  - rewrite py_eq_set, Nat.eqb_refl, all_in_by_spec. simpl. apply forallb_forall. intros x Hx.
    apply existsb_exists. exists x. split; [exact Hx|]. rewrite Forall_forall in IH. apply IH. exact Hx.
  - rewrite py_eq_dict, Nat.eqb_refl, all_kv_by_spec. simpl. apply forallb_forall. intros p Hp.
    apply existsb_exists. exists p. split; [exact Hp|]. rewrite Forall_forall in IH.
    destruct (IH p Hp) as [H1 H2]. rewrite H1, H2. reflexivity.
  - rewrite py_eq_enum, !pystr_eqb_refl. reflexivity.
  - rewrite py_eq_struct, pystr_eqb_refl, Nat.eqb_refl, all_at_by_spec. simpl. apply forallb_forall. intros p Hp.
    apply existsb_exists. exists p. split; [exact Hp|]. rewrite Forall_forall in IH.
    rewrite pystr_eqb_refl, (IH p Hp). reflexivity.
  - rewrite py_eq_other, !pystr_eqb_refl. reflexivity.
Qed.

Lemma numeric_trans a b c x :
  as_num a = Some x -> py_eq a b = true -> py_eq b c = true -> py_eq a c = true.
Proof.
  intros Ha Hab Hbc. rewrite (py_eq_numeric a b x Ha) in Hab.
  destruct (as_num b) as [y|] eqn:Eb; [|discriminate].
  rewrite (py_eq_numeric b c y Eb) in Hbc.
  destruct (as_num c) as [z|] eqn:Ec; [|discriminate].
  rewrite (py_eq_numeric a c x Ha), Ec. eapply num_eqb_trans; eassumption.
Qed.

Lemma py_eq_trans : forall a b c, py_eq a b = true -> py_eq b c = true -> py_eq a c = true.
Proof.
  induction a as [| b0 | n | s | l IH | l IH | l IH | f l IH | kv IH | cn n v IH | cn attrs IH | t r] using pyval_ind';
    intros b c Hab Hbc.
  - destruct b; kill Hab. destruct c; kill Hbc. reflexivity.
  - eapply numeric_trans; [reflexivity | eassumption | eassumption].
  - eapply numeric_trans; [reflexivity | eassumption | eassumption].
  - destruct b; kill Hab. simpl in Hab. apply pystr_eqb_spec in Hab. subst. exact Hbc.
  - destruct b; kill Hab. destruct c; kill Hbc. rewrite py_eq_list in *. eapply eq_list_by_trans; eassumption.
  - destruct b; kill Hab. destruct c; kill Hbc. rewrite py_eq_tuple in *. eapply eq_list_by_trans; eassumption.
  - destruct b; kill Hab. destruct c; kill Hbc. rewrite py_eq_deque in *. eapply eq_list_by_trans; eassumption.
  - destruct b as [| | | | | | | g m | | | |]; kill Hab. destruct c as [| | | | | | | h k | | | |]; kill Hbc.
    rewrite py_eq_set, all_in_by_spec in *.
    apply andb_true_iff in Hab. destruct Hab as [L1 A1]. apply andb_true_iff in Hbc. destruct Hbc as [L2 A2].
    apply Nat.eqb_eq in L1. apply Nat.eqb_eq in L2.
    apply andb_true_iff. split; [apply Nat.eqb_eq; congruence|].
    rewrite forallb_forall in *. intros x Hx.
    specialize (A1 x Hx). apply existsb_exists in A1. destruct A1 as [y [Hy Exy]].
    specialize (A2 y Hy). apply existsb_exists in A2. destruct A2 as [z [Hz Eyz]].
    apply existsb_exists. exists z. split; [exact Hz|].
    rewrite Forall_forall in IH. exact (IH x Hx y z Exy Eyz).
  - destruct b as [| | | | | | | | kw | | |]; kill Hab. destruct c as [| | | | | | | | kx | | |]; kill Hbc.
    rewrite py_eq_dict, all_kv_by_spec in *.
    apply andb_true_iff in Hab. destruct Hab as [L1 A1]. apply andb_true_iff in Hbc. destruct Hbc as [L2 A2].
    apply Nat.eqb_eq in L1. apply Nat.eqb_eq in L2.
    apply andb_true_iff. split; [apply Nat.eqb_eq; congruence|].
    rewrite forallb_forall in *. intros p Hp.
    specialize (A1 p Hp). apply existsb_exists in A1. destruct A1 as [q [Hq Epq]].
    specialize (A2 q Hq). apply existsb_exists in A2. destruct A2 as [r [Hr Eqr]].
    apply existsb_exists. exists r. split; [exact Hr|].
    apply andb_true_iff in Epq. destruct Epq as [E1 E2]. apply andb_true_iff in Eqr. destruct Eqr as [E3 E4].
    rewrite Forall_forall in IH. destruct (IH p Hp) as [Tk Tv].
    rewrite (Tk _ _ E1 E3), (Tv _ _ E2 E4). reflexivity.
  - destruct b; kill Hab. destruct c; kill Hbc. rewrite py_eq_enum in *.
    apply andb_true_iff in Hab. destruct Hab as [E1 E2]. apply andb_true_iff in Hbc. destruct Hbc as [E3 E4].
    apply pystr_eqb_spec in E1, E2, E3, E4. subst. rewrite !pystr_eqb_refl. reflexivity.
  - destruct b as [| | | | | | | | | | cb ab |]; kill Hab. destruct c as [| | | | | | | | | | cc ac |]; kill Hbc.
    rewrite py_eq_struct, all_at_by_spec in *.
    apply andb_true_iff in Hab. destruct Hab as [Hab A1]. apply andb_true_iff in Hab. destruct Hab as [C1 L1].
    apply andb_true_iff in Hbc. destruct Hbc as [Hbc A2]. apply andb_true_iff in Hbc. destruct Hbc as [C2 L2].
    apply Nat.eqb_eq in L1. apply Nat.eqb_eq in L2. apply pystr_eqb_spec in C1, C2. subst.
    rewrite pystr_eqb_refl. simpl.
    apply andb_true_iff. split; [apply Nat.eqb_eq; congruence|].
    rewrite forallb_forall in *. intros p Hp.
    specialize (A1 p Hp). apply existsb_exists in A1. destruct A1 as [q [Hq Epq]].
    specialize (A2 q Hq). apply existsb_exists in A2. destruct A2 as [r' [Hr Eqr]].
    apply existsb_exists. exists r'. split; [exact Hr|].
    apply andb_true_iff in Epq. destruct Epq as [E1 E2]. apply andb_true_iff in Eqr. destruct Eqr as [E3 E4].
    apply pystr_eqb_spec in E1, E3. rewrite E1, E3, pystr_eqb_refl.
    rewrite Forall_forall in IH. rewrite (IH p Hp _ _ E2 E4). reflexivity.
  - destruct b; kill Hab. destruct c; kill Hbc. rewrite py_eq_other in *.
    apply andb_true_iff in Hab. destruct Hab as [E1 E2]. apply andb_true_iff in Hbc. destruct Hbc as [E3 E4].
    apply pystr_eqb_spec in E1, E2, E3, E4. subst. rewrite !pystr_eqb_refl. reflexivity.
Qed.

(* ------------------------------------------------------------------ == on values: symmetric (duplicate-free containers) *)

Lemma numeric_sym a b x : as_num a = Some x -> py_eq a b = true -> py_eq b a = true.
Proof.
  intros Ha H. rewrite (py_eq_numeric a b x Ha) in H.
  destruct (as_num b) as [y|] eqn:Eb; [|discriminate].
  rewrite (py_eq_numeric b a y Eb), Ha. apply num_eqb_sym. exact H.
Qed.

Lemma Forall_wf (Q : pyval -> Prop) l :
  Forall (fun x => wf x = true -> Q x) l -> forallb wf l = true -> Forall Q l.
Proof.
  induction 1 as [|x l Hx _ IH]; simpl; intro W; [constructor|].
  apply andb_true_iff in W. destruct W as [W1 W2]. constructor; [apply Hx; exact W1 | apply IH; exact W2].
Qed.

Lemma pystr_eqb_sym a b : pystr_eqb a b = true -> pystr_eqb b a = true.
Proof. intro H. apply pystr_eqb_spec in H. subst. apply pystr_eqb_refl. Qed.

Lemma py_eq_sym : forall a, wf a = true -> forall b, py_eq a b = true -> py_eq b a = true.
Proof.
  induction a as [| b0 | n | s | l IH | l IH | l IH | f l IH | kv IH | cn n v IH | cn attrs IH | t r] using pyval_ind';
    intros W b Hab.
  - destruct b; kill Hab. reflexivity.
  - eapply numeric_sym; [reflexivity | exact Hab].
  - eapply numeric_sym; [reflexivity | exact Hab].
  - destruct b; kill Hab. simpl in *. apply pystr_eqb_sym. exact Hab.
  - destruct b; kill Hab. rewrite py_eq_list in *. simpl in W.
    apply eq_list_by_sym; [|exact Hab]. apply (Forall_wf _ _ IH W).
  - destruct b; kill Hab. rewrite py_eq_tuple in *. simpl in W.
    apply eq_list_by_sym; [|exact Hab]. apply (Forall_wf _ _ IH W).
  - destruct b; kill Hab. rewrite py_eq_deque in *. simpl in W.
    apply eq_list_by_sym; [|exact Hab]. apply (Forall_wf _ _ IH W).
  - destruct b as [| | | | | | | g m | | | |]; kill Hab.
    rewrite py_eq_set, all_in_by_spec in *. simpl in W.
    apply andb_true_iff in W. destruct W as [ND W].
    pose proof (Forall_wf _ _ IH W) as S. rewrite Forall_forall in S.
    apply andb_true_iff in Hab. destruct Hab as [L A]. apply Nat.eqb_eq in L.
    apply andb_true_iff. split; [apply Nat.eqb_eq; congruence|].
    rewrite forallb_forall in A.
    assert (P : forall y, In y m -> exists x, In x l /\ py_eq x y = true).
    { apply (pigeon pyval pyval (fun x y => py_eq x y = true) (fun x x' => py_eq x x' = true) l m).
      - intros x x' y Hx Hx' R1 R2. apply (py_eq_trans x y x' R1). apply (S x' Hx'). exact R2.
      - apply nodup_by_nodupE. exact ND.
      - exact L.
      - intros x Hx. specialize (A x Hx). apply existsb_exists in A. exact A. }
    apply forallb_forall. intros y Hy. destruct (P y Hy) as [x [Hx Exy]].
    apply existsb_exists. exists x. split; [exact Hx | apply (S x Hx); exact Exy].
  - destruct b as [| | | | | | | | kw | | |]; kill Hab.
    rewrite py_eq_dict, all_kv_by_spec in *. simpl in W.
    apply andb_true_iff in W. destruct W as [ND W].
    rewrite forallb_forall in W. rewrite Forall_forall in IH.
    assert (Sk : forall p, In p kv -> forall y, py_eq (fst p) y = true -> py_eq y (fst p) = true).
    { intros p Hp. destruct (IH p Hp) as [H1 _]. specialize (W p Hp). apply andb_true_iff in W. apply H1. apply W. }
    assert (Sv : forall p, In p kv -> forall y, py_eq (snd p) y = true -> py_eq y (snd p) = true).
    { intros p Hp. destruct (IH p Hp) as [_ H2]. specialize (W p Hp). apply andb_true_iff in W. apply H2. apply W. }
    apply andb_true_iff in Hab. destruct Hab as [L A]. apply Nat.eqb_eq in L.
    apply andb_true_iff. split; [apply Nat.eqb_eq; congruence|].
    rewrite forallb_forall in A.
    assert (P : forall q, In q kw -> exists p, In p kv /\
                 py_eq (fst p) (fst q) && py_eq (snd p) (snd q) = true).
    { apply (pigeon _ _ (fun p q : pyval * pyval => py_eq (fst p) (fst q) && py_eq (snd p) (snd q) = true)
                    (fun p p' : pyval * pyval => py_eq (fst p) (fst p') = true) kv kw).
      - intros p p' q Hp Hp' R1 R2.
        apply andb_true_iff in R1. destruct R1 as [R1 _]. apply andb_true_iff in R2. destruct R2 as [R2 _].
        apply (py_eq_trans _ _ _ R1). apply (Sk p' Hp'). exact R2.
      - apply (nodup_by_map_nodupE py_eq fst kv). exact ND.
      - exact L.
      - intros p Hp. specialize (A p Hp). apply existsb_exists in A. exact A. }
    apply forallb_forall. intros q Hq. destruct (P q Hq) as [p [Hp E]].
    apply existsb_exists. exists p. split; [exact Hp|].
    apply andb_true_iff in E. destruct E as [E1 E2].
    rewrite (Sk p Hp _ E1), (Sv p Hp _ E2). reflexivity.
  - destruct b; kill Hab. rewrite py_eq_enum in *.
    apply andb_true_iff in Hab. destruct Hab as [E1 E2].
    rewrite (pystr_eqb_sym _ _ E1), (pystr_eqb_sym _ _ E2). reflexivity.
  - destruct b as [| | | | | | | | | | cb ab |]; kill Hab.
    rewrite py_eq_struct, all_at_by_spec in *. simpl in W.
    apply andb_true_iff in W. destruct W as [ND W].
    rewrite forallb_forall in W. rewrite Forall_forall in IH.
    assert (Sv : forall p, In p attrs -> forall y, py_eq (snd p) y = true -> py_eq y (snd p) = true).
    { intros p Hp. apply (IH p Hp). apply W. exact Hp. }
    apply andb_true_iff in Hab. destruct Hab as [Hab A]. apply andb_true_iff in Hab. destruct Hab as [C L].
    apply Nat.eqb_eq in L. rewrite (pystr_eqb_sym _ _ C). simpl.
    apply andb_true_iff. split; [apply Nat.eqb_eq; congruence|].
    rewrite forallb_forall in A.
    assert (P : forall q, In q ab -> exists p, In p attrs /\
                 pystr_eqb (fst p) (fst q) && py_eq (snd p) (snd q) = true).
    { apply (pigeon _ _ (fun p q : pystr * pyval => pystr_eqb (fst p) (fst q) && py_eq (snd p) (snd q) = true)
                    (fun p p' : pystr * pyval => pystr_eqb (fst p) (fst p') = true) attrs ab).
      - intros p p' q Hp Hp' R1 R2.
        apply andb_true_iff in R1. destruct R1 as [R1 _]. apply andb_true_iff in R2. destruct R2 as [R2 _].
        apply pystr_eqb_spec in R1, R2. apply pystr_eqb_spec. congruence.
      - apply (nodup_by_map_nodupE pystr_eqb fst attrs). exact ND.
      - exact L.
      - intros p Hp. specialize (A p Hp). apply existsb_exists in A. exact A. }
    apply forallb_forall. intros q Hq. destruct (P q Hq) as [p [Hp E]].
    apply existsb_exists. exists p. split; [exact Hp|].
    apply andb_true_iff in E. destruct E as [E1 E2].
    rewrite (pystr_eqb_sym _ _ E1), (Sv p Hp _ E2). reflexivity.
  - destruct b; kill Hab. rewrite py_eq_other in *.
    apply andb_true_iff in Hab. destruct Hab as [E1 E2].
    rewrite (pystr_eqb_sym _ _ E1), (pystr_eqb_sym _ _ E2). reflexivity.
Qed.

(* ------------------------------------------------------------------ Structure.__eq__ *)

Lemma pystr_eqb_comm a b : pystr_eqb a b = pystr_eqb b a.
Proof.
  destruct (pystr_eqb a b) eqn:E.
  - symmetry. apply pystr_eqb_sym. exact E.
  - destruct (pystr_eqb b a) eqn:E'; [|reflexivity]. apply pystr_eqb_sym in E'. congruence.
Qed.

Lemma str_in_spec k l : str_in k l = true <-> In k l.
Proof.
  unfold str_in. rewrite existsb_exists. split.
  - intros [x [Hx E]]. apply pystr_eqb_spec in E. subst. exact Hx.
  - intro H. exists k. split; [exact H | apply pystr_eqb_refl].
Qed.

Lemma alist_get_none {A} (l : list (pystr * A)) k :
  str_in k (map fst l) = false -> alist_get l k = None.
Proof.
  induction l as [|[k' v] l IH]; simpl; intro H; [reflexivity|].
  apply orb_false_iff in H. destruct H as [H1 H2].
  rewrite pystr_eqb_comm, H1. apply IH. exact H2.
Qed.

Lemma alist_get_in {A} (l : list (pystr * A)) k v :
  alist_get l k = Some v -> In (k, v) l.
Proof.
  induction l as [|[k' v'] l IH]; simpl; intro H; [discriminate|].
  destruct (pystr_eqb k' k) eqn:E.
  - apply pystr_eqb_spec in E. inversion H. subst. left. reflexivity.
  - right. apply IH. exact H.
Qed.

Lemma find_field_in l n fd : find_field l n = Some fd -> In fd l.
Proof.
  induction l as [|d l IH]; simpl; intro H; [discriminate|].
  destruct (pystr_eqb (fd_name d) n); [inversion H; left; reflexivity | right; apply IH; exact H].
Qed.

Lemma subset_in l m k : subset l m = true -> str_in k l = true -> str_in k m = true.
Proof.
  unfold subset. intros H Hk. apply str_in_spec in Hk. rewrite forallb_forall in H. apply H. exact Hk.
Qed.

Lemma subset_refl l : subset l l = true.
Proof. unfold subset. apply forallb_forall. intros x Hx. apply str_in_spec. exact Hx. Qed.

Lemma subset_trans l m n : subset l m = true -> subset m n = true -> subset l n = true.
Proof.
  unfold subset. rewrite !forallb_forall. intros H1 H2 x Hx.
  apply (subset_in m n x); [unfold subset; apply forallb_forall; exact H2 | apply H1; exact Hx].
Qed.

Lemma subset_nil l : subset l [] = true -> l = [].
Proof. destruct l; [reflexivity | simpl; discriminate]. Qed.

Lemma nones_ok_spec a b :
  nones_ok a b = true <->
  (truthy_nones (i_nones a) = false /\ truthy_nones (i_nones b) = false) \/
  (exists l m, i_nones a = Some l /\ i_nones b = Some m /\ subset l m = true /\ subset m l = true).
Proof.
  unfold nones_ok. split.
  - destruct (truthy_nones (i_nones a) || truthy_nones (i_nones b)) eqn:T.
    + destruct (i_nones a) as [l|]; [|discriminate]. destruct (i_nones b) as [m|]; [|discriminate].
      intro H. apply andb_true_iff in H. right. exists l, m. tauto.
    + intros _. left. apply orb_false_iff in T. exact T.
  - intros [[T1 T2] | [l [m [Ha [Hb [S1 S2]]]]]].
    + rewrite T1, T2. reflexivity.
    + rewrite Ha, Hb, S1, S2. destruct (_ || _); reflexivity.
Qed.

Lemma falsy_nil o : truthy_nones o = false -> match o with Some l => l | None => [] end = [].
Proof. destruct o as [[|x l]|]; simpl; intro H; [reflexivity | discriminate | reflexivity]. Qed.

Lemma nones_ok_mem a b : nones_ok a b = true ->
  forall k, str_in k (nones_list a) = str_in k (nones_list b).
Proof.
  intros H k. apply nones_ok_spec in H. unfold nones_list.
  destruct H as [[T1 T2] | [l [m [Ha [Hb [S1 S2]]]]]].
  - rewrite (falsy_nil _ T1), (falsy_nil _ T2). reflexivity.
  - rewrite Ha, Hb. destruct (str_in k l) eqn:E1.
    + symmetry. apply (subset_in l m k S1 E1).
    + destruct (str_in k m) eqn:E2; [|reflexivity]. rewrite (subset_in m l k S2 E2) in E1. discriminate.
Qed.

Lemma nones_ok_refl a : nones_ok a a = true.
Proof.
  apply nones_ok_spec. destruct (i_nones a) as [l|] eqn:E.
  - right. exists l, l. repeat split; apply subset_refl.
  - left. split; reflexivity.
Qed.

Lemma nones_ok_sym a b : nones_ok a b = true -> nones_ok b a = true.
Proof.
  intro H. apply nones_ok_spec in H. apply nones_ok_spec.
  destruct H as [[T1 T2] | [l [m [Ha [Hb [S1 S2]]]]]]; [left; tauto | right; exists m, l; tauto].
Qed.

Lemma nones_ok_trans a b c : nones_ok a b = true -> nones_ok b c = true -> nones_ok a c = true.
Proof.
  intros H1 H2. apply nones_ok_spec in H1. apply nones_ok_spec in H2. apply nones_ok_spec.
  destruct H1 as [[T1 T2] | [l [m [Ha [Hb [S1 S2]]]]]];
    destruct H2 as [[T3 T4] | [l' [m' [Hb' [Hc [S3 S4]]]]]].
  - left. tauto.
  - left. split; [exact T1|]. rewrite Hb' in T2. rewrite Hc.
    destruct l' as [|x l']; [|discriminate T2]. apply subset_nil in S4. subst m'. reflexivity.
  - left. split; [|exact T4]. rewrite Hb in T3. rewrite Ha.
    destruct m as [|x m]; [|discriminate T3]. apply subset_nil in S1. subst l. reflexivity.
  - right. rewrite Hb in Hb'. inversion Hb'. subst l'. exists l, m'.
    repeat split; try assumption; eapply subset_trans; eassumption.
Qed.

Section InstEq.
  Variable c : classdef.
  Variable undef : bool.

  Lemma missing_ext a b k :
    (forall k, str_in k (nones_list a) = str_in k (nones_list b)) ->
    missing c undef a k = missing c undef b k.
  Proof. intro H. unfold missing. rewrite (H k). reflexivity. Qed.

  (* == compares EVERY name, not only those in the merged __dict__ *)
  Lemma inst_eq_all_names a b :
    inst_eq c undef a b = true -> forall k, py_eq (getf c undef a k) (getf c undef b k) = true.
  Proof.
    unfold inst_eq. intros H k.
    apply andb_true_iff in H. destruct H as [H N]. apply andb_true_iff in H. destruct H as [_ F].
    destruct (str_in k (map fst (i_attrs a) ++ map fst (i_attrs b))) eqn:E.
    - apply str_in_spec in E. rewrite forallb_forall in F. apply F. exact E.
    - unfold str_in in E. rewrite existsb_app in E. apply orb_false_iff in E. destruct E as [E1 E2].
      unfold getf. rewrite (alist_get_none _ _ E1), (alist_get_none _ _ E2).
      rewrite (missing_ext a b k (nones_ok_mem a b N)). apply py_eq_refl.
  Qed.

  (* C11_eq_fieldwise *)
  Lemma inst_eq_fieldwise a b :
    inst_eq c undef a b = true <->
    i_cls a = i_cls b /\
    (forall k, py_eq (getf c undef a k) (getf c undef b k) = true) /\
    nones_ok a b = true.
  Proof.
    split.
    - intro H. pose proof (inst_eq_all_names a b H) as A. unfold inst_eq in H.
      apply andb_true_iff in H. destruct H as [H N]. apply andb_true_iff in H. destruct H as [C _].
      apply pystr_eqb_spec in C. tauto.
    - intros [C [A N]]. unfold inst_eq. rewrite C, pystr_eqb_refl, N. simpl. rewrite andb_true_r.
      apply forallb_forall. intros k _. apply A.
  Qed.

  Lemma inst_eq_refl a : inst_eq c undef a a = true.
  Proof.
    apply inst_eq_fieldwise. split; [reflexivity|]. split; [intro k; apply py_eq_refl | apply nones_ok_refl].
  Qed.

  Lemma inst_eq_trans a b d :
    inst_eq c undef a b = true -> inst_eq c undef b d = true -> inst_eq c undef a d = true.
  Proof.
    intros H1 H2. apply inst_eq_fieldwise in H1. apply inst_eq_fieldwise in H2. apply inst_eq_fieldwise.
    destruct H1 as [C1 [A1 N1]]. destruct H2 as [C2 [A2 N2]].
    split; [congruence|]. split; [|eapply nones_ok_trans; eassumption].
    intro k. eapply py_eq_trans; [apply A1 | apply A2].
  Qed.

  Lemma wf_default k : wf_class c = true -> wf (default_of c k) = true.
  Proof.
    unfold wf_class, default_of. intro W. destruct (find_field (c_fields c) k) as [fd|] eqn:E; [|reflexivity].
    apply find_field_in in E. rewrite forallb_forall in W. specialize (W fd E).
    destruct (fd_default fd); [exact W | reflexivity].
  Qed.

  Lemma wf_getf a k : wf_class c = true -> wf_inst a = true -> wf (getf c undef a k) = true.
  Proof.
    intros Wc Wa. unfold getf. destruct (alist_get (i_attrs a) k) as [v|] eqn:E.
    - apply alist_get_in in E. unfold wf_inst in Wa.
      apply andb_true_iff in Wa. destruct Wa as [Wa _]. apply andb_true_iff in Wa. destruct Wa as [_ Wa].
      rewrite forallb_forall in Wa. apply (Wa (k, v) E).
    - unfold missing. destruct (is_field c k); [|reflexivity].
      destruct (undef && _); [reflexivity | apply wf_default; exact Wc].
  Qed.

  Lemma inst_eq_sym a b :
    wf_class c = true -> wf_inst a = true ->
    inst_eq c undef a b = true -> inst_eq c undef b a = true.
  Proof.
    intros Wc Wa H. apply inst_eq_fieldwise in H. apply inst_eq_fieldwise.
    destruct H as [C [A N]]. split; [congruence|]. split; [|apply nones_ok_sym; exact N].
    intro k. apply py_eq_sym; [apply wf_getf; assumption | apply A].
  Qed.
End InstEq.

(* ------------------------------------------------------------------ canonical numbers *)

Lemma pow2_pos k : 0 <= k -> 0 < 2 ^ k.
Proof. intro H. apply Z.pow_pos_nonneg; lia. Qed.

Lemma odd_mul_pow2 m k : 0 < k -> Z.odd (m * 2 ^ k) = false.
Proof.
  intro H. replace k with (Z.succ (k - 1)) by lia. rewrite Z.pow_succ_r by lia.
  rewrite !Z.odd_mul. simpl. rewrite andb_false_r. reflexivity.
Qed.

Lemma scaleQ_neg m e : e < 0 -> scaleQ 2 m e = Qmake m (Z.to_pos (2 ^ (- e))).
Proof. intro H. unfold scaleQ. destruct (0 <=? e) eqn:E; [apply Z.leb_le in E; lia | reflexivity]. Qed.

Lemma int_flt_neq z m e : e < 0 -> Z.odd m = true -> num_eqb (NInt z) (NFlt m e) = false.
Proof.
  intros He Ho. destruct (num_eqb (NInt z) (NFlt m e)) eqn:E; [|reflexivity]. exfalso.
  unfold num_eqb in E. apply Qeq_bool_iff in E. unfold num_to_Q in E. rewrite (scaleQ_neg m e He) in E.
  unfold Qeq in E. simpl in E. rewrite Z2Pos.id in E by (apply pow2_pos; lia).
  assert (Z.odd (z * 2 ^ (- e)) = false) by (apply odd_mul_pow2; lia).
  rewrite E in H. rewrite Z.mul_1_r in H. congruence.
Qed.

Lemma flt_flt_eq m e m' e' :
  e < 0 -> Z.odd m = true -> e' < 0 -> Z.odd m' = true ->
  num_eqb (NFlt m e) (NFlt m' e') = true -> m = m' /\ e = e'.
Proof.
  intros He Ho He' Ho' E.
  unfold num_eqb in E. apply Qeq_bool_iff in E. unfold num_to_Q in E.
  rewrite (scaleQ_neg m e He), (scaleQ_neg m' e' He') in E.
  unfold Qeq in E. simpl in E.
  rewrite !Z2Pos.id in E by (apply pow2_pos; lia).
  assert (P1 : 0 < 2 ^ (- e)) by (apply pow2_pos; lia).
  assert (P2 : 0 < 2 ^ (- e')) by (apply pow2_pos; lia).
  destruct (Z.lt_trichotomy e e') as [L | [L | L]].
  - (* -e' < -e : 2^(-e) = 2^(-e') * 2^d *)
    exfalso. replace (- e) with ((- e') + (e' - e)) in E by lia.
    rewrite Z.pow_add_r in E by lia.
    assert (m' * 2 ^ (e' - e) = m).
    { apply (Z.mul_reg_r _ _ (2 ^ (- e'))); [lia|]. rewrite E. ring. }
    assert (Z.odd (m' * 2 ^ (e' - e)) = false) by (apply odd_mul_pow2; lia). congruence.
  - subst e'. split; [|reflexivity]. apply (Z.mul_reg_r _ _ (2 ^ (- e))); [lia | exact E].
  - exfalso. replace (- e') with ((- e) + (e - e')) in E by lia.
    rewrite Z.pow_add_r in E by lia.
    assert (m * 2 ^ (e - e') = m').
    { apply (Z.mul_reg_r _ _ (2 ^ (- e))); [lia|]. rewrite <- E. ring. }
    assert (Z.odd (m * 2 ^ (e - e')) = false) by (apply odd_mul_pow2; lia). congruence.
Qed.

Lemma int_int_eq z z' : num_eqb (NInt z) (NInt z') = true -> z = z'.
Proof.
  unfold num_eqb. rewrite Qeq_bool_iff. unfold num_to_Q, Qeq. simpl. lia.
Qed.

Lemma num_canon_eq bools x y :
  num_canon bools x = true -> num_canon bools y = true -> num_eqb x y = true -> x = y.
Proof.
  intros Cx Cy E. destruct x as [z | m e | m e]; destruct y as [z' | m' e' | m' e']; simpl in Cx, Cy; try discriminate.
  - apply int_int_eq in E. congruence.
  - apply andb_true_iff in Cy. destruct Cy as [C1 C2]. apply Z.ltb_lt in C1.
    rewrite (int_flt_neq z m' e' C1 C2) in E. discriminate.
  - apply andb_true_iff in Cx. destruct Cx as [C1 C2]. apply Z.ltb_lt in C1.
    apply num_eqb_sym in E. rewrite (int_flt_neq z' m e C1 C2) in E. discriminate.
  - apply andb_true_iff in Cx. destruct Cx as [C1 C2]. apply Z.ltb_lt in C1.
    apply andb_true_iff in Cy. destruct Cy as [C3 C4]. apply Z.ltb_lt in C3.
    destruct (flt_flt_eq m e m' e' C1 C2 C3 C4 E). congruence.
Qed.

(* numeric values (bools included) in canonical spelling that compare equal are identical *)
Lemma canon_numeric_eq bools a b x y :
  as_num a = Some x -> as_num b = Some y ->
  canon bools a = true -> canon bools b = true -> num_eqb x y = true -> a = b.
Proof.
  intros Ha Hb Ca Cb E.
  destruct a as [| p | n | | | | | | | | |]; simpl in Ha; try discriminate;
    destruct b as [| q | n' | | | | | | | | |]; simpl in Hb; try discriminate;
    injection Ha as <-; injection Hb as <-; simpl in Ca, Cb.
  - destruct p, q; try reflexivity; apply int_int_eq in E; discriminate.
  - subst bools. destruct n' as [z | m e | m e]; simpl in Cb; try discriminate.
    + apply int_int_eq in E. subst z. destruct p; simpl in Cb; discriminate.
    + apply andb_true_iff in Cb. destruct Cb as [C1 C2]. apply Z.ltb_lt in C1.
      rewrite (int_flt_neq _ m e C1 C2) in E. discriminate.
  - subst bools. destruct n as [z | m e | m e]; simpl in Ca; try discriminate.
    + apply int_int_eq in E. subst z. destruct q; simpl in Ca; discriminate.
    + apply andb_true_iff in Ca. destruct Ca as [C1 C2]. apply Z.ltb_lt in C1.
      apply num_eqb_sym in E. rewrite (int_flt_neq _ m e C1 C2) in E. discriminate.
  - f_equal. eapply num_canon_eq; eassumption.
Qed.

(* ------------------------------------------------------------------ sorting by attribute name *)

Lemma pystr_ltb_irrefl a : pystr_ltb a a = false.
Proof. induction a as [|x a IH]; simpl; [reflexivity|]. rewrite N.ltb_irrefl, N.eqb_refl. exact IH. Qed.

Lemma pystr_ltb_trans : forall a b c, pystr_ltb a b = true -> pystr_ltb b c = true -> pystr_ltb a c = true.
Proof.
  induction a as [|x a IH]; intros [|y b] [|z c] H1 H2; simpl in *; try discriminate; try reflexivity.
  destruct (N.ltb_spec x y) as [L1|L1]; destruct (N.ltb_spec y z) as [L2|L2]; destruct (N.ltb_spec x z) as [L3|L3];
    try reflexivity; try lia.
  - destruct (N.eqb_spec y z); [lia | discriminate].
  - destruct (N.eqb_spec x y); [lia | discriminate].
  - destruct (N.eqb_spec x y); [|discriminate]. destruct (N.eqb_spec y z); [|discriminate].
    destruct (N.eqb_spec x z); [|lia]. eapply IH; eassumption.
Qed.

Lemma pystr_ltb_total : forall a b, pystr_ltb a b = false -> pystr_ltb b a = false -> a = b.
Proof.
  induction a as [|x a IH]; intros [|y b] H1 H2; simpl in *; try discriminate; try reflexivity.
  destruct (N.ltb_spec x y) as [L1|L1]; [discriminate|].
  destruct (N.ltb_spec y x) as [L2|L2]; [discriminate|].
  assert (x = y) by lia. subst y. rewrite N.eqb_refl in *. f_equal. apply IH; assumption.
Qed.

Section Sort.
  Variable A : Type.
  Definition ltk (p q : pystr * A) : Prop := pystr_ltb (fst p) (fst q) = true.

  Lemma ins_perm (p : pystr * A) l : Permutation (ins p l) (p :: l).
  Proof.
    induction l as [|q t IH]; simpl; [apply Permutation_refl|].
    destruct (pystr_ltb (fst q) (fst p)); [|apply Permutation_refl].
    eapply perm_trans; [apply perm_skip; exact IH | apply perm_swap].
  Qed.

  Lemma sort_perm (l : list (pystr * A)) : Permutation (sort_by_key l) l.
  Proof.
    induction l as [|p t IH]; simpl; [constructor|].
    eapply perm_trans; [apply ins_perm | apply perm_skip; exact IH].
  Qed.

  Lemma ins_sorted (p : pystr * A) l :
    StronglySorted ltk l -> ~ In (fst p) (map fst l) -> StronglySorted ltk (ins p l).
  Proof.
    induction 1 as [|q t St IH Fq]; simpl; intro Hn.
    - constructor; constructor.
    - destruct (pystr_ltb (fst q) (fst p)) eqn:E.
      + constructor; [apply IH; tauto|].
        rewrite Forall_forall in *. intros x Hx.
        apply (Permutation_in _ (ins_perm p t)) in Hx. destruct Hx as [<- | Hx]; [exact E | apply Fq; exact Hx].
      + assert (Lpq : pystr_ltb (fst p) (fst q) = true).
        { destruct (pystr_ltb (fst p) (fst q)) eqn:E'; [reflexivity|].
          exfalso. apply Hn. left. symmetry. apply pystr_ltb_total; assumption. }
        constructor; [constructor; assumption|].
        constructor; [exact Lpq|].
        rewrite Forall_forall in *. intros x Hx. unfold ltk. eapply pystr_ltb_trans; [exact Lpq | apply Fq; exact Hx].
  Qed.

  Lemma sort_sorted (l : list (pystr * A)) :
    NoDup (map fst l) -> StronglySorted ltk (sort_by_key l).
  Proof.
    induction l as [|p t IH]; simpl; intro ND; [constructor|].
    inversion ND as [|? ? Hn ND']; subst.
    apply ins_sorted; [apply IH; exact ND'|].
    intro H. apply Hn. eapply Permutation_in; [apply Permutation_map; apply sort_perm | exact H].
  Qed.

  Lemma sorted_perm_eq : forall l1 l2 : list (pystr * A),
      StronglySorted ltk l1 -> StronglySorted ltk l2 -> Permutation l1 l2 -> l1 = l2.
  Proof.
    induction l1 as [|x l1 IH]; intros l2 S1 S2 P.
    - apply Permutation_nil in P. subst. reflexivity.
    - destruct l2 as [|y l2]; [apply Permutation_sym, Permutation_nil in P; discriminate|].
      inversion S1 as [|? ? S1' F1]; subst. inversion S2 as [|? ? S2' F2]; subst.
      assert (x = y).
      { assert (Hx : In x (y :: l2)) by (eapply Permutation_in; [exact P | left; reflexivity]).
        assert (Hy : In y (x :: l1)) by (eapply Permutation_in; [apply Permutation_sym; exact P | left; reflexivity]).
        destruct Hx as [Hx | Hx]; [congruence|]. destruct Hy as [Hy | Hy]; [congruence|].
        rewrite Forall_forall in F1, F2. specialize (F1 y Hy). specialize (F2 x Hx). unfold ltk in *.
        pose proof (pystr_ltb_trans _ _ _ F1 F2) as T. rewrite pystr_ltb_irrefl in T. discriminate. }
      subst y. f_equal. apply IH; [assumption | assumption | eapply Permutation_cons_inv; exact P].
  Qed.

  Lemma sort_by_key_perm_eq (l1 l2 : list (pystr * A)) :
    NoDup (map fst l1) -> Permutation l1 l2 -> sort_by_key l1 = sort_by_key l2.
  Proof.
    intros ND P. apply sorted_perm_eq.
    - apply sort_sorted. exact ND.
    - apply sort_sorted. eapply Permutation_NoDup; [apply Permutation_map; exact P | exact ND].
    - eapply perm_trans; [apply sort_perm|]. eapply perm_trans; [exact P | apply Permutation_sym, sort_perm].
  Qed.
End Sort.

Lemma nodup_by_NoDup l : nodup_by pystr_eqb l = true -> NoDup l.
Proof.
  induction l as [|x t IH]; simpl; intro H; [constructor|].
  apply andb_true_iff in H. destruct H as [H1 H2]. constructor; [|apply IH; exact H2].
  intro Hx. apply negb_true_iff in H1. apply str_in_spec in Hx. unfold str_in in Hx. congruence.
Qed.

Lemma sort_names_ext l m :
  NoDup l -> NoDup m -> (forall k, str_in k l = str_in k m) -> sort_names l = sort_names m.
Proof.
  intros Nl Nm H. unfold sort_names. f_equal. apply sort_by_key_perm_eq.
  - rewrite map_map. simpl. rewrite map_id. exact Nl.
  - apply Permutation_map. apply NoDup_Permutation; [exact Nl | exact Nm |].
    intro k. rewrite <- !str_in_spec, H. tauto.
Qed.

(* ------------------------------------------------------------------ canonical equal values are printed identically *)

Lemma struct_cover attrs ab :
  nodup_by pystr_eqb (map fst attrs) = true -> length attrs = length ab ->
  all_at_by py_eq ab attrs = true ->
  forall q, In q ab -> exists p, In p attrs /\ fst p = fst q /\ py_eq (snd p) (snd q) = true.
Proof.
  intros ND L A. rewrite all_at_by_spec in A. rewrite forallb_forall in A.
  assert (P : forall q, In q ab -> exists p, In p attrs /\
               pystr_eqb (fst p) (fst q) && py_eq (snd p) (snd q) = true).
  { apply (pigeon _ _ (fun p q : pystr * pyval => pystr_eqb (fst p) (fst q) && py_eq (snd p) (snd q) = true)
                  (fun p p' : pystr * pyval => pystr_eqb (fst p) (fst p') = true) attrs ab).
    - intros p p' q Hp Hp' R1 R2.
      apply andb_true_iff in R1. destruct R1 as [R1 _]. apply andb_true_iff in R2. destruct R2 as [R2 _].
      apply pystr_eqb_spec in R1, R2. apply pystr_eqb_spec. congruence.
    - apply (nodup_by_map_nodupE pystr_eqb fst attrs). exact ND.
    - exact L.
    - intros p Hp. specialize (A p Hp). apply existsb_exists in A. exact A. }
  intros q Hq. destruct (P q Hq) as [p [Hp E]]. apply andb_true_iff in E. destruct E as [E1 E2].
  apply pystr_eqb_spec in E1. exists p. tauto.
Qed.

Lemma map_fst_pair {B} (g : pyval -> B) (l : list (pystr * pyval)) :
  map fst (map (fun p => (fst p, g (snd p))) l) = map fst l.
Proof. induction l as [|p l IH]; simpl; [reflexivity | rewrite IH; reflexivity]. Qed.

Lemma props_perm (g : pyval -> pystr) (l1 l2 : list (pystr * pyval)) :
  NoDup (map fst l1) -> NoDup (map fst l2) ->
  (forall k v, In (k, v) l1 -> exists w, In (k, w) l2 /\ g v = g w) ->
  (forall k w, In (k, w) l2 -> exists v, In (k, v) l1 /\ g v = g w) ->
  sort_by_key (map (fun p => (fst p, g (snd p))) l1) = sort_by_key (map (fun p => (fst p, g (snd p))) l2).
Proof.
  intros N1 N2 H12 H21. apply sort_by_key_perm_eq.
  - rewrite map_fst_pair. exact N1.
  - apply NoDup_Permutation.
    + apply (NoDup_map_inv fst). rewrite map_fst_pair. exact N1.
    + apply (NoDup_map_inv fst). rewrite map_fst_pair. exact N2.
    + intros [k s]. rewrite !in_map_iff. split.
      * intros [[k' v] [E Hp]]. simpl in E. inversion E; subst.
        destruct (H12 k v Hp) as [w [Hw G]]. exists (k, w). simpl. rewrite G. tauto.
      * intros [[k' w] [E Hp]]. simpl in E. inversion E; subst.
        destruct (H21 k w Hp) as [v [Hv G]]. exists (k, v). simpl. rewrite G. tauto.
Qed.

Lemma py_eq_str_l s w : py_eq (PStr s) w = true -> w = PStr s.
Proof. destruct w; intro H; kill H. simpl in H. apply pystr_eqb_spec in H. congruence. Qed.

Lemma py_eq_str_r' v t : py_eq v (PStr t) = true -> v = PStr t.
Proof. destruct v; intro H; kill H. simpl in H. apply pystr_eqb_spec in H. congruence. Qed.

Section HashChar.
  Variable num_str : num -> pystr.
  Variable str_repr : pystr -> pystr.
  Variable enum_vrepr : pystr -> pystr -> pystr.
  Variable bools : bool.

  Notation vs' := (vs num_str str_repr enum_vrepr).
  Notation attr_str' := (attr_str num_str str_repr enum_vrepr).

  Lemma vs_list r l : vs' r (PList l) = s2p "[" ++ join (sep r) (map (vs' r) l) ++ s2p "]".
  Proof. reflexivity. Qed.
  Lemma vs_tuple r l :
    vs' r (PTuple l) = s2p "(" ++ join (sep r) (map (vs' r) l) ++
                       (if r && Nat.eqb (length l) 1 then s2p "," else []) ++ s2p ")".
  Proof. reflexivity. Qed.
  Lemma vs_deque r l : vs' r (PDeque l) = s2p "deque([" ++ join (s2p ", ") (map (vs' true) l) ++ s2p "])".
  Proof. reflexivity. Qed.
  Lemma vs_struct r cn attrs :
    vs' r (PStruct cn attrs) = props_str cn (map (fun p => (fst p, attr_str' (snd p))) attrs) [].
  Proof. reflexivity. Qed.

  Definition HC (v : pyval) : Prop :=
    forall b r, py_eq v b = true -> canon bools v = true -> canon bools b = true -> vs' r v = vs' r b.

  Lemma map_vs_eq l : Forall HC l -> forall m,
      eq_list_by py_eq l m = true -> forallb (canon bools) l = true -> forallb (canon bools) m = true ->
      forall r, map (vs' r) l = map (vs' r) m.
  Proof.
    induction 1 as [|x l Hx _ IH]; intros [|y m] E Cl Cm r; simpl in *; try discriminate; try reflexivity.
    apply andb_true_iff in E. destruct E as [E1 E2].
    apply andb_true_iff in Cl. destruct Cl as [C1 C2]. apply andb_true_iff in Cm. destruct Cm as [C3 C4].
    rewrite (Hx y r E1 C1 C3), (IH m E2 C2 C4 r). reflexivity.
  Qed.

  Lemma attr_str_eq v w :
    HC v -> py_eq v w = true -> canon bools v = true -> canon bools w = true -> attr_str' v = attr_str' w.
  Proof.
    intros H E Cv Cw.
    destruct v as [| | | s | | | | | | | |];
      try (destruct w as [| | | t | | | | | | | |];
           try (apply py_eq_str_r' in E; discriminate E);
           exact (H _ false E Cv Cw)).
    apply py_eq_str_l in E. subst w. reflexivity.
  Qed.

  Lemma canon_vs : forall v, HC v.
  Proof.
    induction v as [| b0 | n | s | l IH | l IH | l IH | f l IH | kv IH | cn n v IH | cn attrs IH | t r0] using pyval_ind';
      intros b r E Ca Cb.
    - destruct b; kill E. reflexivity.
    - pose proof E as E'. rewrite (py_eq_numeric (PBool b0) b _ eq_refl) in E'.
      destruct (as_num b) as [y|] eqn:Eb; [|discriminate].
      rewrite (canon_numeric_eq bools (PBool b0) b _ y eq_refl Eb Ca Cb E'). reflexivity.
    - pose proof E as E'. rewrite (py_eq_numeric (PNum n) b _ eq_refl) in E'.
      destruct (as_num b) as [y|] eqn:Eb; [|discriminate].
      rewrite (canon_numeric_eq bools (PNum n) b _ y eq_refl Eb Ca Cb E'). reflexivity.
    - apply py_eq_str_l in E. subst b. reflexivity.
    - destruct b as [| | | | m | | | | | | |]; kill E. rewrite py_eq_list in E. simpl in Ca, Cb.
      rewrite !vs_list, (map_vs_eq l IH m E Ca Cb r). reflexivity.
    - destruct b as [| | | | | m | | | | | |]; kill E. rewrite py_eq_tuple in E. simpl in Ca, Cb.
      rewrite !vs_tuple, (map_vs_eq l IH m E Ca Cb r), (eq_list_by_length l m E). reflexivity.
    - destruct b as [| | | | | | m | | | | |]; kill E. rewrite py_eq_deque in E. simpl in Ca, Cb.
      rewrite !vs_deque, (map_vs_eq l IH m E Ca Cb true). reflexivity.
    - destruct b as [| | | | | | | g m | | | |]; kill E. rewrite py_eq_set, all_in_by_spec in E.
      simpl in Ca, Cb.
      apply andb_true_iff in Ca. destruct Ca as [Ca Ca3]. apply andb_true_iff in Ca. destruct Ca as [Ca1 Ca2].
      apply andb_true_iff in Cb. destruct Cb as [Cb Cb3]. apply andb_true_iff in Cb. destruct Cb as [Cb1 Cb2].
      apply negb_true_iff in Ca1, Cb1. subst f g.
      apply andb_true_iff in E. destruct E as [L A]. apply Nat.eqb_eq in L.
      destruct l as [|x [|x2 l]]; destruct m as [|y [|y2 m]]; simpl in L, Ca2, Cb2; try discriminate; try reflexivity.
      simpl in A. rewrite !orb_false_r, andb_true_r in A.
      simpl in Ca3, Cb3. rewrite andb_true_r in Ca3, Cb3.
      inversion IH as [|? ? Hx _]; subst.
      pose proof (Hx y r A Ca3 Cb3) as S1. simpl. rewrite S1. reflexivity.
    - destruct b as [| | | | | | | | kw | | |]; kill E. rewrite py_eq_dict, all_kv_by_spec in E.
      simpl in Ca, Cb.
      apply andb_true_iff in Ca. destruct Ca as [Ca2 Ca3]. apply andb_true_iff in Cb. destruct Cb as [Cb2 Cb3].
      apply andb_true_iff in E. destruct E as [L A]. apply Nat.eqb_eq in L.
      destruct kv as [|p [|p2 kv]]; destruct kw as [|q [|q2 kw]]; simpl in L, Ca2, Cb2; try discriminate; try reflexivity.
      simpl in A. rewrite !orb_false_r, andb_true_r in A.
      simpl in Ca3, Cb3. rewrite andb_true_r in Ca3, Cb3.
      apply andb_true_iff in A. destruct A as [A1 A2].
      apply andb_true_iff in Ca3. destruct Ca3 as [Ck Cv]. apply andb_true_iff in Cb3. destruct Cb3 as [Dk Dv].
      inversion IH as [|? ? Hp _]; subst. destruct Hp as [Hk Hv].
      simpl. rewrite (Hk _ r A1 Ck Dk), (Hv _ r A2 Cv Dv). reflexivity.
    - destruct b as [| | | | | | | | | cb nb vb | |]; kill E. rewrite py_eq_enum in E.
      apply andb_true_iff in E. destruct E as [E1 E2]. apply pystr_eqb_spec in E1, E2. subst. reflexivity.
    - destruct b as [| | | | | | | | | | cb ab |]; kill E. rewrite py_eq_struct in E.
      apply andb_true_iff in E. destruct E as [E A]. apply andb_true_iff in E. destruct E as [C L].
      apply pystr_eqb_spec in C. apply Nat.eqb_eq in L. subst cb.
      simpl in Ca, Cb.
      apply andb_true_iff in Ca. destruct Ca as [Na Va]. apply andb_true_iff in Cb. destruct Cb as [Nb Vb].
      rewrite forallb_forall in Va, Vb. rewrite Forall_forall in IH.
      rewrite !vs_struct.
      assert (Hs : sort_by_key (map (fun p => (fst p, attr_str' (snd p))) attrs) =
                   sort_by_key (map (fun p => (fst p, attr_str' (snd p))) ab)); [|unfold props_str; rewrite Hs; reflexivity].
      apply props_perm.
      + apply nodup_by_NoDup. exact Na.
      + apply nodup_by_NoDup. exact Nb.
      + intros k x Hp. pose proof A as A'. rewrite all_at_by_spec in A'. rewrite forallb_forall in A'.
        specialize (A' (k, x) Hp). apply existsb_exists in A'. destruct A' as [[k' w] [Hq Eq]]. simpl in Eq.
        apply andb_true_iff in Eq. destruct Eq as [Ek Ev]. apply pystr_eqb_spec in Ek. subst k'.
        exists w. split; [exact Hq|].
        apply attr_str_eq; [apply (IH (k, x) Hp) | exact Ev | apply (Va (k, x) Hp) | apply (Vb (k, w) Hq)].
      + intros k w Hq. destruct (struct_cover attrs ab Na L A (k, w) Hq) as [[k' x] [Hp [Ek Ev]]].
        simpl in Ek, Ev. subst k'. exists x. split; [exact Hp|].
        apply attr_str_eq; [apply (IH (k, x) Hp) | exact Ev | apply (Va (k, x) Hp) | apply (Vb (k, w) Hq)].
    - destruct b as [| | | | | | | | | | | tb rb]; kill E. rewrite py_eq_other in E.
      apply andb_true_iff in E. destruct E as [E1 E2]. apply pystr_eqb_spec in E1, E2. subst. reflexivity.
  Qed.
End HashChar.

(* ------------------------------------------------------------------ canonical equal instances: same string, same hash *)

Lemma alist_get_nodup {A} (l : list (pystr * A)) k v :
  NoDup (map fst l) -> In (k, v) l -> alist_get l k = Some v.
Proof.
  induction l as [|[k' v'] l IH]; simpl; intros ND H; [destruct H|].
  inversion ND as [|? ? Hn ND']; subst.
  destruct H as [H | H].
  - inversion H; subst. rewrite pystr_eqb_refl. reflexivity.
  - destruct (pystr_eqb k' k) eqn:E.
    + apply pystr_eqb_spec in E. subst k'. exfalso. apply Hn.
      change k with (fst (k, v)). apply in_map. exact H.
    + apply IH; assumption.
Qed.

Lemma copy_inst_id x : copy_inst x = x.
Proof. destruct x; reflexivity. Qed.

Section InstHash.
  Variable num_str : num -> pystr.
  Variable str_repr : pystr -> pystr.
  Variable enum_vrepr : pystr -> pystr -> pystr.
  Variable str_hash : pystr -> Z.
  Variable c : classdef.
  Variable undef : bool.
  Variable bools : bool.

  Notation inst_str' := (inst_str num_str str_repr enum_vrepr).
  Notation attr_str' := (attr_str num_str str_repr enum_vrepr).

  Lemma missing_cases x k :
    missing c undef x k = PNone \/ missing c undef x k = PUndefined \/ missing c undef x k = default_of c k.
  Proof. unfold missing. destruct (is_field c k); [|tauto]. destruct (undef && _); tauto. Qed.

  Lemma absent_left x k v : py_eq v (missing c undef x k) = true -> absent_like c k v = true.
  Proof.
    unfold absent_like. intro H. destruct (missing_cases x k) as [E | [E | E]]; rewrite E in H; rewrite H;
      rewrite ?orb_true_r; reflexivity.
  Qed.

  Lemma absent_right x k w : py_eq (missing c undef x k) w = true -> absent_like c k w = true.
  Proof.
    unfold absent_like. intro H. destruct (missing_cases x k) as [E | [E | E]]; rewrite E in H; rewrite H;
      rewrite ?orb_true_r; reflexivity.
  Qed.

  Lemma icanon_parts x :
    icanon c bools x = true ->
    NoDup (map fst (i_attrs x)) /\
    (forall k v, In (k, v) (i_attrs x) -> canon bools v = true /\ absent_like c k v = false) /\
    NoDup (nones_list x).
  Proof.
    unfold icanon. intro H. apply andb_true_iff in H. destruct H as [H N]. apply andb_true_iff in H. destruct H as [K V].
    split; [apply nodup_by_NoDup; exact K|]. split; [|apply nodup_by_NoDup; exact N].
    intros k v Hp. rewrite forallb_forall in V. specialize (V (k, v) Hp). simpl in V.
    apply andb_true_iff in V. destruct V as [V1 V2]. apply negb_true_iff in V2. tauto.
  Qed.

  (* C11_hash_char *)
  Lemma inst_str_canonical a b :
    icanon c bools a = true -> icanon c bools b = true ->
    inst_eq c undef a b = true -> inst_str' a = inst_str' b.
  Proof.
    intros Ca Cb E. apply inst_eq_fieldwise in E. destruct E as [C [A N]].
    destruct (icanon_parts a Ca) as [Na [Va Ma]]. destruct (icanon_parts b Cb) as [Nb [Vb Mb]].
    assert (Hs : sort_by_key (map (fun p => (fst p, attr_str' (snd p))) (i_attrs a)) =
                 sort_by_key (map (fun p => (fst p, attr_str' (snd p))) (i_attrs b))).
    { apply props_perm; [exact Na | exact Nb | |].
      - intros k v Hp. specialize (A k). unfold getf in A. rewrite (alist_get_nodup _ k v Na Hp) in A.
        destruct (alist_get (i_attrs b) k) as [w|] eqn:G.
        + apply alist_get_in in G. exists w. split; [exact G|].
          apply (attr_str_eq num_str str_repr enum_vrepr bools);
            [apply canon_vs | exact A | apply (Va k v Hp) | apply (Vb k w G)].
        + apply absent_left in A. destruct (Va k v Hp). congruence.
      - intros k w Hq. specialize (A k). unfold getf in A. rewrite (alist_get_nodup _ k w Nb Hq) in A.
        destruct (alist_get (i_attrs a) k) as [v|] eqn:G.
        + apply alist_get_in in G. exists v. split; [exact G|].
          apply (attr_str_eq num_str str_repr enum_vrepr bools);
            [apply canon_vs | exact A | apply (Va k v G) | apply (Vb k w Hq)].
        + apply absent_right in A. destruct (Vb k w Hq). congruence. }
    assert (Hn : sort_names (nones_list a) = sort_names (nones_list b)).
    { apply sort_names_ext; [exact Ma | exact Mb | apply nones_ok_mem; exact N]. }
    unfold inst_str, props_str. rewrite C, Hs, Hn. reflexivity.
  Qed.

  Lemma inst_hash_canonical a b :
    icanon c bools a = true -> icanon c bools b = true ->
    inst_eq c undef a b = true ->
    inst_hash num_str str_repr enum_vrepr str_hash a = inst_hash num_str str_repr enum_vrepr str_hash b.
  Proof. intros Ca Cb E. unfold inst_hash. rewrite (inst_str_canonical a b Ca Cb E). reflexivity. Qed.

  (* ---------------------------------------------------------------- copies *)

  Lemma deepcopy_inst_id x : deepcopy_inst x = x.
  Proof.
    destruct x as [cl at0 no li]. unfold deepcopy_inst. simpl. f_equal.
    induction at0 as [|[k v] l IH]; simpl; [reflexivity | rewrite IH; reflexivity].
  Qed.

  Lemma filter_all {A} (f : A -> bool) l : forallb f l = true -> filter f l = l.
  Proof.
    induction l as [|x l IH]; simpl; intro H; [reflexivity|].
    apply andb_true_iff in H. destruct H as [H1 H2]. rewrite H1, (IH H2). reflexivity.
  Qed.

  Lemma pickle_rt_safe x :
    pickle_safe c x = true -> i_attrs (pickle_rt c x) = i_attrs x /\ nones_list (pickle_rt c x) = nones_list x.
  Proof.
    unfold pickle_safe. intro H. split.
    - simpl. apply filter_all. exact H.
    - reflexivity.
  Qed.

  Lemma subset_refl_l (l : list pystr) : subset l l = true.
  Proof.
    unfold subset. apply forallb_forall. intros k Hk. unfold str_in. apply existsb_exists.
    exists k. split; [exact Hk | apply pystr_eqb_refl].
  Qed.

  (* the unpickled copy is live again: `_instantiated` is set, whatever the original had *)
  Lemma pickle_rt_live x : i_live (pickle_rt c x) = true.
  Proof. reflexivity. Qed.

  Lemma copy_eq x : inst_eq c undef (copy_inst x) x = true /\ inst_str' (copy_inst x) = inst_str' x.
  Proof. rewrite copy_inst_id. split; [apply inst_eq_refl | reflexivity]. Qed.

  Lemma deepcopy_eq x : inst_eq c undef (deepcopy_inst x) x = true /\ inst_str' (deepcopy_inst x) = inst_str' x.
  Proof. rewrite deepcopy_inst_id. split; [apply inst_eq_refl | reflexivity]. Qed.

  Lemma pickle_eq x :
    pickle_safe c x = true ->
    inst_eq c undef (pickle_rt c x) x = true /\ inst_eq c undef x (pickle_rt c x) = true /\
    inst_str' (pickle_rt c x) = inst_str' x.
  Proof.
    intro H. destruct (pickle_rt_safe x H) as [Ha Hn].
    assert (G : forall k, getf c undef (pickle_rt c x) k = getf c undef x k).
    { intro k. unfold getf. rewrite Ha. destruct (alist_get (i_attrs x) k); [reflexivity|].
      apply missing_ext. intro k'. rewrite Hn. reflexivity. }
    assert (N : nones_ok (pickle_rt c x) x = true).
    { apply nones_ok_spec. unfold pickle_rt, nones_list. cbn [i_nones]. destruct (i_nones x) as [l|].
      - right. exists l, l. repeat split; apply subset_refl_l.
      - left. split; reflexivity. }
    split; [|split].
    - apply inst_eq_fieldwise. split; [reflexivity|]. split; [|exact N].
      intro k. rewrite G. apply py_eq_refl.
    - apply inst_eq_fieldwise. split; [reflexivity|]. split; [|apply nones_ok_sym; exact N].
      intro k. rewrite G. apply py_eq_refl.
    - unfold inst_str. rewrite Ha, Hn. reflexivity.
  Qed.
End InstHash.
