(* Model of Structure.__eq__, Structure.__str__ / __hash__, __copy__, __deepcopy__ and the pickle
   round trip (typedpy/structures/structures.py).  Executable; no proofs here.

   An instance is the record [inst]: class name, the public part of instance.__dict__ (order not
   significant), the `_none_fields` set and whether `_instantiated` is present (both are restored by
   unpickling: __getstate__ carries `_none_fields`, __setstate__ sets `_instantiated`).  Values are [pyval]; value equality is [py_eq]. *)
From Coq Require Import ZArith QArith NArith String Ascii Bool Lia List.
Import ListNotations.
From TP Require Import Base.PyVal Fields.FieldAst.
Local Open Scope Z_scope.

Record inst := {
  i_cls : pystr;
  i_attrs : list (pystr * pyval);
  i_nones : option (list pystr);     (* None: the attribute `_none_fields` does not exist *)
  i_live : bool                      (* `_instantiated` is present (and True) *)
}.

Definition nones_list (x : inst) : list pystr := match i_nones x with Some l => l | None => [] end.

(* typedpy.commons.Undefined *)
Definition PUndefined : pyval := POther (s2p "Undefined") (s2p "<class 'typedpy.commons.Undefined'>").

(* ------------------------------------------------------------------ wf: the model's containers *)

Fixpoint nodup_by {A} (eqb : A -> A -> bool) (l : list A) : bool :=
  match l with
  | [] => true
  | x :: t => negb (existsb (eqb x) t) && nodup_by eqb t
  end.

(* sets, dict keys and attribute names are duplicate-free (under ==), at every depth *)
Fixpoint wf (v : pyval) : bool :=
  match v with
  | PList l | PTuple l | PDeque l => forallb wf l
  | PSet _ l => nodup_by py_eq l && forallb wf l
  | PDict kv => nodup_by py_eq (map fst kv) && forallb (fun p => wf (fst p) && wf (snd p)) kv
  | PEnum _ _ x => wf x
  | PStruct _ attrs => nodup_by pystr_eqb (map fst attrs) && forallb (fun p => wf (snd p)) attrs
  | _ => true
  end.

Definition default_of (c : classdef) (k : pystr) : pyval :=
  match find_field (c_fields c) k with
  | Some fd => match fd_default fd with Some d => d | None => PNone end
  | None => PNone
  end.

Definition wf_class (c : classdef) : bool :=
  forallb (fun fd => match fd_default fd with Some d => wf d | None => true end) (c_fields c).

Definition wf_inst (x : inst) : bool :=
  nodup_by pystr_eqb (map fst (i_attrs x)) && forallb (fun p => wf (snd p)) (i_attrs x) &&
  nodup_by pystr_eqb (nones_list x).

(* ------------------------------------------------------------------ Structure.__eq__ *)

Section Eq.
  Variable c : classdef.
  Variable undef : bool.       (* the class sets _enable_undefined_value *)

  Definition is_field (k : pystr) : bool :=
    match find_field (c_fields c) k with Some _ => true | None => false end.

  (* what reading a name that is not in __dict__ yields: Field.__get__ for fields (the default,
     or Undefined when undefined values are enabled and the name is not in _none_fields);
     dict.get(k) = None for other names *)
  Definition missing (x : inst) (k : pystr) : pyval :=
    if is_field k then
      if undef && negb (str_in k (nones_list x)) then PUndefined else default_of c k
    else PNone.

  (* getattr(x, k) for fields / x.__dict__.get(k) for the rest *)
  Definition getf (x : inst) (k : pystr) : pyval :=
    match alist_get (i_attrs x) k with
    | Some v => v
    | None => missing x k
    end.

  Definition subset (l m : list pystr) : bool := forallb (fun k => str_in k m) l.

  Definition truthy_nones (o : option (list pystr)) : bool :=
    match o with Some (_ :: _) => true | _ => false end.

  (* if (self_nones or other_nones) and self_nones != other_nones: return False *)
  Definition nones_ok (a b : inst) : bool :=
    if truthy_nones (i_nones a) || truthy_nones (i_nones b) then
      match i_nones a, i_nones b with
      | Some l, Some m => subset l m && subset m l
      | _, _ => false
      end
    else true.

  Definition inst_eq (a b : inst) : bool :=
    pystr_eqb (i_cls a) (i_cls b) &&
    forallb (fun k => py_eq (getf a k) (getf b k)) (map fst (i_attrs a) ++ map fst (i_attrs b)) &&
    nones_ok a b.
End Eq.

(* ------------------------------------------------------------------ Structure.__str__ *)

Fixpoint join (sep : pystr) (l : list pystr) : pystr :=
  match l with
  | [] => []
  | x :: t => match t with [] => x | _ :: _ => x ++ sep ++ join sep t end
  end.

Fixpoint pystr_ltb (a b : pystr) : bool :=
  match a, b with
  | [], [] => false
  | [], _ :: _ => true
  | _ :: _, [] => false
  | x :: a', y :: b' => if N.ltb x y then true else if N.eqb x y then pystr_ltb a' b' else false
  end.

(* sorted(...) by attribute name: insertion sort on the key *)
Fixpoint ins {A} (p : pystr * A) (l : list (pystr * A)) : list (pystr * A) :=
  match l with
  | [] => [p]
  | q :: t => if pystr_ltb (fst q) (fst p) then q :: ins p t else p :: q :: t
  end.

Definition sort_by_key {A} (l : list (pystr * A)) : list (pystr * A) := fold_right ins [] l.

Definition sort_names (l : list pystr) : list pystr :=
  map fst (sort_by_key (map (fun k => (k, tt)) l)).

Section Str.
  Variable num_str : num -> pystr.                 (* oracle: str() of an int / float / Decimal *)
  Variable str_repr : pystr -> pystr.              (* oracle: repr() of a str *)
  Variable enum_vrepr : pystr -> pystr -> pystr.   (* oracle: repr() of the value of enum member cls.name *)

  Definition num_repr (n : num) : pystr :=
    match n with
    | NDec _ _ => s2p "Decimal('" ++ num_str n ++ s2p "')"
    | _ => num_str n
    end.

  (* "<Instance of C. Properties: k = v, ..., n = None>"; props already rendered *)
  Definition props_str (cls : pystr) (props : list (pystr * pystr)) (nones : list pystr) : pystr :=
    s2p "<Instance of " ++ cls ++ s2p ". Properties: " ++
    join (s2p ", ") (map (fun p => fst p ++ s2p " = " ++ snd p) (sort_by_key props) ++
                     map (fun k => k ++ s2p " = None") (sort_names nones)) ++
    s2p ">".

  Definition sep (r : bool) : pystr := if r then s2p ", " else s2p ",".

  (* [vs false v]: the local to_str() of Structure.__str__;  [vs true v]: Python's repr(v).
     to_str formats list/tuple/set/dict itself (insertion order, "," separators, k = v) and
     falls back to str() otherwise; str() of a deque / frozenset is its repr. *)
  Fixpoint vs (r : bool) (v : pyval) {struct v} : pystr :=
    match v with
    | PNone => s2p "None"
    | PBool b => if b then s2p "True" else s2p "False"
    | PNum n => if r then num_repr n else num_str n
    | PStr s => if r then str_repr s else s
    | PList l => s2p "[" ++ join (sep r) (map (vs r) l) ++ s2p "]"
    | PTuple l =>
        s2p "(" ++ join (sep r) (map (vs r) l) ++
        (if r && Nat.eqb (length l) 1 then s2p "," else []) ++ s2p ")"
    | PSet false l =>
        if r && Nat.eqb (length l) 0 then s2p "set()"
        else s2p "{" ++ join (sep r) (map (vs r) l) ++ s2p "}"
    | PSet true l =>
        if Nat.eqb (length l) 0 then s2p "frozenset()"
        else s2p "frozenset({" ++ join (s2p ", ") (map (vs true) l) ++ s2p "})"
    | PDeque l => s2p "deque([" ++ join (s2p ", ") (map (vs true) l) ++ s2p "])"
    | PDict kv =>
        s2p "{" ++
        join (sep r) (map (fun p => vs r (fst p) ++ (if r then s2p ": " else s2p " = ") ++ vs r (snd p)) kv) ++
        s2p "}"
    | PEnum cn n _ =>
        if r then s2p "<" ++ cn ++ s2p "." ++ n ++ s2p ": " ++ enum_vrepr cn n ++ s2p ">"
        else cn ++ s2p "." ++ n
    | PStruct cn attrs =>
        props_str cn
          (map (fun p => (fst p,
                          match snd p with
                          | PStr s => s2p "'" ++ s ++ s2p "'"
                          | _ => vs false (snd p)
                          end)) attrs) []
    | POther _ rp => rp
    end.

  Definition attr_str (v : pyval) : pystr :=
    match v with
    | PStr s => s2p "'" ++ s ++ s2p "'"
    | _ => vs false v
    end.

  Definition inst_str (x : inst) : pystr :=
    props_str (i_cls x) (map (fun p => (fst p, attr_str (snd p))) (i_attrs x)) (nones_list x).

  Variable str_hash : pystr -> Z.                  (* str.__hash__, uninterpreted *)
  Definition inst_hash (x : inst) : Z := str_hash (inst_str x).
End Str.

(* ------------------------------------------------------------------ canonical spelling *)

(* One spelling per numeric value.  [bools = true]: 0 and 1 are spelled as bools (ints 0/1 are
   then the cross-type spelling); [bools = false]: bools are the cross-type spelling.
   Floats: only non-integral ones, in lowest terms (as reified); Decimals: never. *)
Definition num_canon (bools : bool) (n : num) : bool :=
  match n with
  | NInt z => if bools then negb (z =? 0) && negb (z =? 1) else true
  | NFlt m e => (e <? 0) && Z.odd m
  | NDec _ _ => false
  end.

(* no set/dict with two or more entries (their iteration order is insertion-dependent), no
   frozenset (== a set, printed differently), one numeric spelling *)
Fixpoint canon (bools : bool) (v : pyval) : bool :=
  match v with
  | PNone | PStr _ | POther _ _ | PEnum _ _ _ => true
  | PBool _ => bools
  | PNum n => num_canon bools n
  | PList l | PTuple l | PDeque l => forallb (canon bools) l
  | PSet fr l => negb fr && Nat.leb (length l) 1 && forallb (canon bools) l
  | PDict kv => Nat.leb (length kv) 1 && forallb (fun p => canon bools (fst p) && canon bools (snd p)) kv
  | PStruct _ attrs => nodup_by pystr_eqb (map fst attrs) && forallb (fun p => canon bools (snd p)) attrs
  end.

(* a stored attribute that reads exactly like an absent one (explicit None, the default, Undefined) *)
Definition absent_like (c : classdef) (k : pystr) (v : pyval) : bool :=
  let d := default_of c k in
  py_eq v d || py_eq d v || py_eq v PUndefined || py_eq PUndefined v || py_eq v PNone || py_eq PNone v.

Definition icanon (c : classdef) (bools : bool) (x : inst) : bool :=
  nodup_by pystr_eqb (map fst (i_attrs x)) &&
  forallb (fun p => canon bools (snd p) && negb (absent_like c (fst p) (snd p))) (i_attrs x) &&
  nodup_by pystr_eqb (nones_list x).

(* ------------------------------------------------------------------ copy, deepcopy, pickle *)

(* Structure.__copy__: a new object with the same __dict__ entries *)
Definition copy_inst (x : inst) : inst :=
  {| i_cls := i_cls x; i_attrs := i_attrs x; i_nones := i_nones x; i_live := i_live x |}.

(* values are immutable data in the model: deepcopy of a value is the value *)
Definition deepcopy_val (v : pyval) : pyval := v.

(* Structure.__deepcopy__: every __dict__ entry (internal ones included) is deep-copied and set
   on a new object with validation skipped (an ImmutableStructure returns itself) *)
Definition deepcopy_inst (x : inst) : inst :=
  {| i_cls := i_cls x;
     i_attrs := map (fun p => (fst p, deepcopy_val (snd p))) (i_attrs x);
     i_nones := i_nones x; i_live := i_live x |}.

(* pickle.loads(pickle.dumps(x)): __getstate__ keeps the declared fields present in __dict__ and the
   `_none_fields` set (an empty one when the instance has none); __setstate__ stores them into a fresh
   __dict__ and sets `_instantiated`.  Undeclared (additional) attributes are gone. *)
Definition pickle_rt (c : classdef) (x : inst) : inst :=
  {| i_cls := i_cls x;
     i_attrs := filter (fun p => match find_field (c_fields c) (fst p) with Some _ => true | None => false end)
                       (i_attrs x);
     i_nones := Some (nones_list x); i_live := true |}.

(* the state the round trip keeps: only declared fields *)
Definition pickle_safe (c : classdef) (x : inst) : bool :=
  forallb (fun p => match find_field (c_fields c) (fst p) with Some _ => true | None => false end) (i_attrs x).
