(* Proofs about Struct/Spelling.v: spellings related by the congruence [sp_eq] evaluate to objects that
   typedpy converts to the same Field term in every context. *)
From Coq Require Import ZArith NArith String List Bool Lia. Import ListNotations.
From TP Require Import Base.PyVal Fields.FieldAst Fields.SetChain Gen.TypeMapping Gen.AnnotGuards Struct.Spelling.
Local Open Scope string_scope.

(* ------------------------------------------------------------------ facts of the GENERATED table *)
Lemma union_maps_to_anyof : convert_basic (s2p "typing.Union") = Some (s2p "AnyOf").
Proof. reflexivity. Qed.
Lemma anyof_is_anyof : is_anyof_cls (s2p "AnyOf") = true.
Proof. reflexivity. Qed.

(* ------------------------------------------------------------------ unfolding the nested fixpoints *)
Lemma mapM_ext {A B} (f g : A -> res B) l : (forall x, In x l -> f x = g x) -> mapM f l = mapM g l.
Proof.
  induction l as [|x t IH]; intros H; [reflexivity|]. cbn [mapM].
  rewrite (H x (or_introl eq_refl)). rewrite IH; [reflexivity|]. intros y Hy. apply H. right. exact Hy.
Qed.

Lemma tli_generic og args :
  tli (OGeneric og args) =
  match convert_basic og with
  | None => Raise TypeError
  | Some c => rs <- mapM tli args ;; finish c args rs
  end.
Proof.
  cbn [tli]. destruct (convert_basic og); [|reflexivity]. f_equal.
  induction args as [|x t IH]; [reflexivity|]. cbn [mapM]. rewrite IH. reflexivity.
Qed.

Lemma tli_union args :
  tli (OUnion args) =
  match convert_basic (s2p "typing.Union") with
  | None => Raise TypeError
  | Some c => rs <- mapM tli args ;; finish c args rs
  end.
Proof.
  cbn [tli]. destruct (convert_basic (s2p "typing.Union")); [|reflexivity]. f_equal.
  induction args as [|x t IH]; [reflexivity|]. cbn [mapM]. rewrite IH. reflexivity.
Qed.

Definition anyof_origin (o : pystr) : bool :=
  match convert_basic o with Some c => is_anyof_cls c | None => false end.

Lemma evals_mapM (l : list tyexpr) :
  (fix go (l : list tyexpr) : res (list pyobj) :=
     match l with [] => Ok [] | x :: u => y <- pyeval x ;; ys <- go u ;; Ok (y :: ys) end) l = mapM pyeval l.
Proof. induction l as [|x t IH]; [reflexivity|]. cbn [mapM]. rewrite IH. reflexivity. Qed.

Lemma pyeval_typing tn args :
  pyeval (TTyping tn args) =
  match typing_origin tn with
  | Some o => if anyof_origin o then Raise Unmodelled
              else objs <- mapM pyeval args ;; Ok (OGeneric o (map none_to_nonetype objs))
  | None => Raise Unmodelled
  end.
Proof. cbn [pyeval]. rewrite evals_mapM. reflexivity. Qed.

Lemma pyeval_pep585 o args :
  pyeval (TPep585 o args) =
  if anyof_origin o then Raise Unmodelled else objs <- mapM pyeval args ;; Ok (OGeneric o objs).
Proof. cbn [pyeval]. rewrite evals_mapM. reflexivity. Qed.

Lemma pyeval_union args : pyeval (TUnion args) = objs <- mapM pyeval args ;; Ok (mk_union objs).
Proof. cbn [pyeval]. rewrite evals_mapM. reflexivity. Qed.

Lemma pyeval_sub c args :
  pyeval (TSub c args) = objs <- mapM pyeval args ;; f <- subscript c objs ;; Ok (OFieldInst f).
Proof. cbn [pyeval]. rewrite evals_mapM. reflexivity. Qed.

Lemma pyeval_ctorN c items sz u ad :
  pyeval (TCtorN c items sz u ad) =
  objs <- mapM pyeval items ;; vs <- mapM (ctor_item c) objs ;; f <- construct c (IMany vs) sz u ad ;;
  Ok (OFieldInst f).
Proof. cbn [pyeval]. rewrite evals_mapM. reflexivity. Qed.

(* ------------------------------------------------------------------ the semantic relation on objects *)
Definition fv_rel (v v' : fv) : Prop := inst v = inst v'.
Definition tli_rel (r r' : res (option fv)) : Prop :=
  match r, r' with
  | Raise x, Raise y => x = y
  | Ok None, Ok None => True
  | Ok (Some v), Ok (Some v') => fv_rel v v'
  | _, _ => False
  end.
Definition oeq (o o' : pyobj) : Prop := tli_rel (tli o) (tli o') /\ getitem_conv o = getitem_conv o'.
Definition req (r r' : res pyobj) : Prop :=
  match r, r' with
  | Ok o, Ok o' => oeq o o'
  | Raise x, Raise y => x = y
  | _, _ => False
  end.
Definition lreq (r r' : res (list pyobj)) : Prop :=
  match r, r' with
  | Ok l, Ok l' => Forall2 oeq l l'
  | Raise x, Raise y => x = y
  | _, _ => False
  end.

Lemma tli_rel_refl r : tli_rel r r.
Proof. destruct r as [[v|]|x]; cbn; unfold fv_rel; auto. Qed.
Lemma tli_rel_sym r r' : tli_rel r r' -> tli_rel r' r.
Proof. destruct r as [[v|]|x], r' as [[v'|]|y]; cbn; unfold fv_rel; auto. Qed.
Lemma tli_rel_trans r r' r'' : tli_rel r r' -> tli_rel r' r'' -> tli_rel r r''.
Proof.
  destruct r as [[v|]|x], r' as [[v'|]|y], r'' as [[v''|]|z]; cbn; unfold fv_rel; try tauto; congruence.
Qed.

Lemma oeq_refl o : oeq o o. Proof. split; [apply tli_rel_refl|reflexivity]. Qed.
Lemma oeq_sym o o' : oeq o o' -> oeq o' o.
Proof. intros [H1 H2]. split; [apply tli_rel_sym; exact H1|symmetry; exact H2]. Qed.
Lemma oeq_trans o o' o'' : oeq o o' -> oeq o' o'' -> oeq o o''.
Proof. intros [H1 H2] [H3 H4]. split; [eapply tli_rel_trans; eassumption|congruence]. Qed.

Lemma req_refl r : req r r. Proof. destruct r; cbn; [apply oeq_refl|reflexivity]. Qed.
Lemma req_sym r r' : req r r' -> req r' r.
Proof. destruct r, r'; cbn; auto using oeq_sym. Qed.
Lemma req_trans r r' r'' : req r r' -> req r' r'' -> req r r''.
Proof. destruct r, r', r''; cbn; try tauto; try congruence. apply oeq_trans. Qed.

Lemma Forall2_oeq_refl l : Forall2 oeq l l.
Proof. induction l; constructor; auto using oeq_refl. Qed.
Lemma Forall2_oeq_sym l l' : Forall2 oeq l l' -> Forall2 oeq l' l.
Proof. induction 1; constructor; auto using oeq_sym. Qed.
Lemma Forall2_oeq_trans l l' l'' : Forall2 oeq l l' -> Forall2 oeq l' l'' -> Forall2 oeq l l''.
Proof.
  intros H. revert l''. induction H; intros l'' H'; inversion H'; subst; constructor; eauto using oeq_trans.
Qed.

Lemma lreq_refl r : lreq r r. Proof. destruct r; cbn; [apply Forall2_oeq_refl|reflexivity]. Qed.
Lemma lreq_sym r r' : lreq r r' -> lreq r' r.
Proof. destruct r, r'; cbn; auto using Forall2_oeq_sym. Qed.
Lemma lreq_trans r r' r'' : lreq r r' -> lreq r' r'' -> lreq r r''.
Proof. destruct r, r', r''; cbn; try tauto; try congruence. apply Forall2_oeq_trans. Qed.

Lemma lreq_cons a a' l l' :
  req (pyeval a) (pyeval a') -> lreq (mapM pyeval l) (mapM pyeval l') ->
  lreq (mapM pyeval (a :: l)) (mapM pyeval (a' :: l')).
Proof.
  cbn [mapM]. destruct (pyeval a) as [o|x], (pyeval a') as [o'|y]; cbn; try tauto.
  intros Ho. destruct (mapM pyeval l) as [m|x], (mapM pyeval l') as [m'|y]; cbn; try tauto.
  intros Hm. constructor; assumption.
Qed.

(* ------------------------------------------------------------------ mapM under pointwise relations *)
Lemma mapM_getitem_cong l l' : Forall2 oeq l l' -> mapM getitem_conv l = mapM getitem_conv l'.
Proof.
  induction 1 as [|o o' l l' [_ Hg] _ IH]; [reflexivity|]. cbn [mapM]. rewrite Hg, IH. reflexivity.
Qed.

Definition ofv_rel (r r' : option fv) : Prop :=
  match r, r' with Some v, Some v' => fv_rel v v' | None, None => True | _, _ => False end.

Lemma mapM_tli_cong l l' :
  Forall2 oeq l l' ->
  match mapM tli l, mapM tli l' with
  | Ok rs, Ok rs' => Forall2 ofv_rel rs rs'
  | Raise x, Raise y => x = y
  | _, _ => False
  end.
Proof.
  induction 1 as [|o o' l l' [Ht _] _ IH]; [cbn; constructor|]. cbn [mapM].
  unfold tli_rel in Ht.
  destruct (tli o) as [[v|]|x], (tli o') as [[v'|]|y]; cbn [bind]; try tauto;
    destruct (mapM tli l) as [rs|x'], (mapM tli l') as [rs'|y']; cbn [bind]; try tauto;
    try (constructor; [exact Ht | exact IH]).
Qed.

Lemma mapM_inst_cong vs vs' : Forall2 fv_rel vs vs' -> mapM inst vs = mapM inst vs'.
Proof. induction 1 as [|v v' l l' H _ IH]; [reflexivity|]. cbn [mapM]. rewrite H, IH. reflexivity. Qed.

Lemma Forall2_length {A B} (R : A -> B -> Prop) l l' : Forall2 R l l' -> length l = length l'.
Proof. induction 1; cbn; congruence. Qed.

(* ------------------------------------------------------------------ constructors under related items *)
Lemma construct_many_cong c vs vs' sz u ad :
  Forall2 fv_rel vs vs' -> construct c (IMany vs) sz u ad = construct c (IMany vs') sz u ad.
Proof.
  intros H. pose proof (mapM_inst_cong _ _ H) as HM. unfold construct.
  destruct (classify c); try reflexivity.
  - rewrite HM. reflexivity.
  - inversion H as [|v v' l l' Hv Hl]; subst; [reflexivity|].
    inversion Hl; subst; [|reflexivity]. rewrite Hv. reflexivity.
  - rewrite HM. reflexivity.
  - inversion H as [|v v' l l' Hv Hl]; subst; [reflexivity|].
    inversion Hl as [|w w' m m' Hw Hm]; subst; [reflexivity|].
    inversion Hm; subst; [|reflexivity]. rewrite Hv, Hw. reflexivity.
  - rewrite HM. reflexivity.
Qed.

Lemma construct_one_cong c v v' sz u ad :
  fv_rel v v' -> construct c (IOne v) sz u ad = construct c (IOne v') sz u ad.
Proof.
  unfold fv_rel, construct. intros H.
  destruct (classify c); try reflexivity; rewrite H; reflexivity.
Qed.

Lemma construct_args_cong c vs vs' :
  Forall2 fv_rel vs vs' ->
  construct c (match vs with [v] => IOne v | _ => IMany vs end) no_sizec false None =
  construct c (match vs' with [v] => IOne v | _ => IMany vs' end) no_sizec false None.
Proof.
  intros H. inversion H as [|v v' l l' Hv Hl]; subst; [reflexivity|].
  inversion Hl as [|w w' m m' Hw Hm]; subst.
  - apply construct_one_cong. exact Hv.
  - apply construct_many_cong. exact H.
Qed.

(* ------------------------------------------------------------------ _get_mapped_args under related arguments *)
Lemma forallb_is_some_rel rs rs' : Forall2 ofv_rel rs rs' -> forallb is_some rs = forallb is_some rs'.
Proof.
  induction 1 as [|r r' l l' H _ IH]; [reflexivity|]. cbn [forallb]. rewrite IH.
  destruct r, r'; cbn in *; tauto || reflexivity.
Qed.

Lemma fill_union_all_some args args' rs rs' :
  Forall2 ofv_rel rs rs' -> forallb is_some rs = true -> length args = length rs -> length args' = length rs' ->
  exists vs vs', fill_union args rs = Ok vs /\ fill_union args' rs' = Ok vs' /\ Forall2 fv_rel vs vs'.
Proof.
  intros H. revert args args'. induction H as [|r r' l l' Hr _ IH]; intros args args' Hs La La'.
  - destruct args; [|discriminate]. destruct args'; [|discriminate]. exists [], []. cbn. auto.
  - destruct args as [|a args]; [discriminate|]. destruct args' as [|a' args']; [discriminate|].
    cbn [forallb] in Hs. apply andb_true_iff in Hs. destruct Hs as [Hr1 Hs].
    destruct r as [v|]; [|discriminate]. destruct r' as [v'|]; [|cbn in Hr; tauto].
    cbn in La, La'. destruct (IH args args' Hs) as [vs [vs' [E1 [E2 HF]]]]; [lia|lia|].
    exists (v :: vs), (v' :: vs'). cbn [fill_union]. rewrite E1, E2. cbn. repeat split; auto.
Qed.

Lemma mapM_length {A B} (f : A -> res B) l r : mapM f l = Ok r -> length r = length l.
Proof.
  revert r. induction l as [|x t IH]; intros r; cbn [mapM].
  - intros H. inversion H. reflexivity.
  - destruct (f x); [|discriminate]. cbn. destruct (mapM f t); [|discriminate]. cbn. intros H.
    inversion H. cbn. f_equal. apply IH. reflexivity.
Qed.

(* a generic alias (not a Union) whose arguments are pairwise related *)
Lemma finish_cong c args args' rs rs' :
  is_anyof_cls c = false -> Forall2 ofv_rel rs rs' -> length args = length rs -> length args' = length rs' ->
  tli_rel (finish c args rs) (finish c args' rs').
Proof.
  intros Hc HF La La'. unfold finish, fill. rewrite Hc.
  rewrite <- (forallb_is_some_rel _ _ HF). destruct (forallb is_some rs) eqn:Hall; [|cbn; reflexivity].
  destruct (fill_union_all_some args args' rs rs' HF Hall La La') as [vs [vs' [E1 [E2 HV]]]].
  rewrite E1, E2. cbn [bind].
  assert (Hlen : length vs = length args).
  { clear - E1 Hall La. revert args vs E1 La. induction rs as [|r rs IH]; intros args vs E1 La.
    - destruct args; [|discriminate]. cbn in E1. inversion E1. reflexivity.
    - destruct args as [|a args]; [discriminate|]. cbn [forallb] in Hall. apply andb_true_iff in Hall.
      destruct Hall as [H1 H2]. destruct r; [|discriminate]. cbn [fill_union] in E1.
      destruct (fill_union args rs) eqn:E; [|discriminate]. cbn in E1. inversion E1; subst. cbn. f_equal.
      apply (IH H2 args); [exact E|]. cbn in La. lia. }
  pose proof (construct_args_cong c vs vs' HV) as HC.
  inversion HV as [|v v' l l' Hv Hl]; subst.
  - apply tli_rel_refl.
  - rewrite HC.
    destruct (construct c match v' :: l' with [v0] => IOne v0 | _ => IMany (v' :: l') end no_sizec false None);
      cbn; unfold fv_rel; reflexivity.
Qed.

Lemma getitem_of_tli_generic og args og' args' :
  tli_rel (tli (OGeneric og args)) (tli (OGeneric og' args')) ->
  getitem_conv (OGeneric og args) = getitem_conv (OGeneric og' args').
Proof.
  intros H. unfold getitem_conv. unfold tli_rel in H.
  destruct (tli (OGeneric og args)) as [[v|]|x], (tli (OGeneric og' args')) as [[v'|]|y]; cbn in *; try tauto.
  - unfold fv_rel in H. rewrite H. reflexivity.
  - subst. reflexivity.
Qed.

Lemma generic_cong og args args' :
  Forall2 oeq args args' ->
  anyof_origin og = false ->
  oeq (OGeneric og args) (OGeneric og args').
Proof.
  intros HF Ha.
  assert (HT : tli_rel (tli (OGeneric og args)) (tli (OGeneric og args'))).
  { rewrite !tli_generic. unfold anyof_origin in Ha. destruct (convert_basic og) as [c|]; [|cbn; reflexivity].
    pose proof (mapM_tli_cong _ _ HF) as HM.
    destruct (mapM tli args) as [rs|x] eqn:E1, (mapM tli args') as [rs'|y] eqn:E2; cbn; try tauto.
    apply finish_cong; auto.
    - symmetry. eapply mapM_length; eassumption.
    - symmetry. eapply mapM_length; eassumption. }
  split; [exact HT|]. apply getitem_of_tli_generic. exact HT.
Qed.

(* ------------------------------------------------------------------ typing.Union objects *)
Lemma flatten_id l : existsb is_ounion l = false -> flatten_union l = l.
Proof.
  induction l as [|o t IH]; [reflexivity|]. cbn [existsb]. intros H. apply orb_false_iff in H.
  destruct H as [H1 H2]. unfold flatten_union in *. cbn [flat_map]. rewrite (IH H2).
  destruct o; try reflexivity; discriminate.
Qed.

Lemma dedup_id seen l : nodup_objs seen l = true -> dedup_objs seen l = l.
Proof.
  revert seen. induction l as [|o t IH]; intros seen; [reflexivity|]. cbn [nodup_objs dedup_objs].
  intros H. apply andb_true_iff in H. destruct H as [H1 H2].
  destruct (existsb (pyobj_eqb o) seen); [discriminate|]. rewrite (IH _ H2). reflexivity.
Qed.

Lemma keeps_mk_union l : keeps_as_written l = true -> mk_union l = OUnion (map none_to_nonetype l).
Proof.
  unfold keeps_as_written, mk_union. intros H. apply andb_true_iff in H. destruct H as [H H3].
  apply andb_true_iff in H. destruct H as [H1 H2]. apply negb_true_iff in H1.
  rewrite (flatten_id _ H1), (dedup_id _ _ H2).
  destruct (map none_to_nonetype l) as [|x [|y t]]; try reflexivity; discriminate.
Qed.

Lemma finish_cong_union args args' rs rs' :
  Forall2 ofv_rel rs rs' -> forallb is_some rs = true -> length args = length rs -> length args' = length rs' ->
  tli_rel (finish (s2p "AnyOf") args rs) (finish (s2p "AnyOf") args' rs').
Proof.
  intros HF Hall La La'. unfold finish, fill. rewrite anyof_is_anyof.
  rewrite <- (forallb_is_some_rel _ _ HF), Hall.
  destruct (fill_union_all_some args args' rs rs' HF Hall La La') as [vs [vs' [E1 [E2 HV]]]].
  rewrite E1, E2. cbn [bind]. inversion HV as [|v v' l l' Hv Hl]; subst.
  - apply tli_rel_refl.
  - rewrite (construct_many_cong (s2p "AnyOf") _ _ no_sizec false None HV).
    destruct (construct (s2p "AnyOf") (IMany (v' :: l')) no_sizec false None); cbn; unfold fv_rel; reflexivity.
Qed.

Lemma getitem_of_tli_union args args' :
  tli_rel (tli (OUnion args)) (tli (OUnion args')) -> getitem_conv (OUnion args) = getitem_conv (OUnion args').
Proof.
  intros H. unfold getitem_conv. unfold tli_rel in H.
  destruct (tli (OUnion args)) as [[v|]|x], (tli (OUnion args')) as [[v'|]|y]; cbn in *; try tauto.
  - unfold fv_rel in H. rewrite H. reflexivity.
  - subst. reflexivity.
Qed.

Definition has_field (o : pyobj) : Prop := exists v, tli o = Ok (Some v).

Lemma mapM_tli_all_some l : Forall has_field l -> exists rs, mapM tli l = Ok rs /\ forallb is_some rs = true.
Proof.
  induction 1 as [|o t [v Hv] _ [rs [E Hs]]]; [exists []; auto|].
  exists (Some v :: rs). cbn [mapM]. rewrite Hv, E. cbn. auto.
Qed.

Lemma union_cong l l' : Forall2 oeq l l' -> Forall has_field l -> oeq (OUnion l) (OUnion l').
Proof.
  intros HF HS.
  assert (HT : tli_rel (tli (OUnion l)) (tli (OUnion l'))).
  { rewrite !tli_union, union_maps_to_anyof.
    destruct (mapM_tli_all_some _ HS) as [rs [E Hall]]. pose proof (mapM_tli_cong _ _ HF) as HM.
    rewrite E in *. destruct (mapM tli l') as [rs'|y] eqn:E2; [|tauto]. cbn [bind].
    apply finish_cong_union; auto.
    - symmetry. eapply mapM_length; eassumption.
    - symmetry. eapply mapM_length; eassumption. }
  split; [exact HT|]. apply getitem_of_tli_union. exact HT.
Qed.

(* ------------------------------------------------------------------ an object that denotes a field *)
Lemma good_agree o v f : tli o = Ok (Some v) -> inst v = Ok f -> getitem_conv o = Ok f.
Proof.
  intros Ht Hi. destruct o; cbn [getitem_conv].
  - rewrite Ht. cbn [bind]. rewrite Hi. reflexivity.
  - cbn in Ht. discriminate.
  - rewrite Ht. cbn [bind]. rewrite Hi. reflexivity.
  - rewrite Ht. cbn [bind]. rewrite Hi. reflexivity.
  - rewrite Ht. cbn [bind]. rewrite Hi. reflexivity.
  - cbn in Ht. discriminate.
  - cbn in Ht. destruct (inst0 c) eqn:E; [|discriminate]. cbn in Ht. inversion Ht; subst. exact Hi.
  - cbn in Ht. inversion Ht; subst. exact Hi.
  - cbn in Ht. inversion Ht; subst. exact Hi.
  - cbn in Ht. discriminate.
Qed.

Lemma good_obj_spec o : good_obj o = true -> exists v f, tli o = Ok (Some v) /\ inst v = Ok f.
Proof.
  unfold good_obj, tli_f. destruct (tli o) as [[v|]|x]; cbn; try discriminate.
  destruct (inst v) as [f|x] eqn:E; cbn; try discriminate. intros _. exists v, f. auto.
Qed.

(* ------------------------------------------------------------------ items of constructor calls *)
Lemma ctor_item_fieldy c o :
  fieldy_obj o = true -> (is_tuple_cls c = false \/ is_struct_obj o = false) ->
  exists v, ctor_item c o = Ok v /\ inst v = getitem_conv o.
Proof.
  destruct o; cbn [fieldy_obj]; try discriminate; intros _ H.
  - exists (FVCls c0). split; reflexivity.
  - exists (FVInst f). split; reflexivity.
  - cbn [ctor_item]. destruct H as [H|H]; [|discriminate]. rewrite H. exists (FVInst (FClassRef c0)). split; reflexivity.
Qed.

Lemma ctor_items_fieldy c objs objs' :
  Forall2 oeq objs objs' ->
  Forall (fun o => fieldy_obj o = true /\ (is_tuple_cls c = false \/ is_struct_obj o = false)) objs ->
  Forall (fun o => fieldy_obj o = true /\ (is_tuple_cls c = false \/ is_struct_obj o = false)) objs' ->
  exists vs vs', mapM (ctor_item c) objs = Ok vs /\ mapM (ctor_item c) objs' = Ok vs' /\ Forall2 fv_rel vs vs'.
Proof.
  induction 1 as [|o o' l l' [_ Hg] _ IH]; intros H1 H2.
  - exists [], []. cbn. auto.
  - inversion H1 as [|? ? [Hf Ht] Hl]; subst. inversion H2 as [|? ? [Hf' Ht'] Hl']; subst.
    destruct (IH Hl Hl') as [vs [vs' [E1 [E2 HV]]]].
    destruct (ctor_item_fieldy c o Hf Ht) as [v [Ev Hv]]. destruct (ctor_item_fieldy c o' Hf' Ht') as [v' [Ev' Hv']].
    exists (v :: vs), (v' :: vs'). cbn [mapM]. rewrite Ev, Ev', E1, E2. cbn. repeat split; auto.
    constructor; [|exact HV]. unfold fv_rel. congruence.
Qed.

(* ------------------------------------------------------------------ small facts used by the rule cases *)
Lemma subscript_cong c objs objs' : Forall2 oeq objs objs' -> subscript c objs = subscript c objs'.
Proof. intros H. unfold subscript. rewrite (mapM_getitem_cong _ _ H). reflexivity. Qed.

Lemma mapM_inst_FVInst fs : mapM inst (map FVInst fs) = Ok fs.
Proof. induction fs as [|f t IH]; [reflexivity|]. cbn [map mapM inst bind]. rewrite IH. reflexivity. Qed.

Lemma coll_not_tuple c : is_coll_cls c = true -> is_tuple_cls c = false.
Proof. unfold is_coll_cls, is_tuple_cls. destruct (classify c); congruence. Qed.

Lemma construct_one_coll c v sz u ad :
  is_one_item_cls c = true ->
  construct c (IOne v) sz u ad = (f <- inst v ;; construct c (IOne (FVInst f)) sz u ad).
Proof.
  unfold is_one_item_cls, is_coll_cls, is_tuple_cls, construct. destruct (classify c); try discriminate; intros _;
    destruct (inst v); reflexivity.
Qed.

Lemma construct_many_split c vs sz u ad :
  many_ok c (length vs) = true ->
  construct c (IMany vs) sz u ad = (fs <- mapM inst vs ;; construct c (IMany (map FVInst fs)) sz u ad).
Proof.
  unfold many_ok, construct. destruct (classify c); try discriminate; intros H.
  - destruct (mapM inst vs) as [fs|x]; [|reflexivity]. cbn [bind]. rewrite mapM_inst_FVInst. reflexivity.
  - destruct (mapM inst vs) as [fs|x]; [|reflexivity]. cbn [bind]. rewrite mapM_inst_FVInst. reflexivity.
  - destruct vs as [|k [|v [|w t]]]; try discriminate. cbn [mapM].
    destruct (inst k) as [kf|x]; [|reflexivity]. cbn [bind]. destruct (inst v) as [vf|x]; reflexivity.
  - destruct (mapM inst vs) as [fs|x]; [|reflexivity]. cbn [bind]. rewrite mapM_inst_FVInst. reflexivity.
Qed.

Lemma subscript_many c objs :
  many_ok c (length objs) = true ->
  subscript c objs = (fs <- mapM getitem_conv objs ;; construct c (IMany (map FVInst fs)) no_sizec false None).
Proof.
  unfold many_ok, subscript. destruct (classify c) eqn:EC; try discriminate; intros H;
    try reflexivity;
    destruct (mapM getitem_conv objs) as [fs|x] eqn:E; try reflexivity; cbn [bind];
    pose proof (mapM_length _ _ _ E) as HL; destruct fs as [|f [|g t]]; try reflexivity;
    cbn in HL; rewrite <- HL in H; cbn in H; try discriminate.
  (* Tuple[a] *)
  unfold construct. rewrite EC. reflexivity.
Qed.

Lemma no_none_map args objs :
  no_none args = true -> mapM pyeval args = Ok objs -> map none_to_nonetype objs = objs.
Proof.
  unfold no_none. revert objs. induction args as [|a t IH]; intros objs Hn E.
  - cbn in E. inversion E. reflexivity.
  - cbn [existsb] in Hn. apply negb_true_iff, orb_false_iff in Hn. destruct Hn as [H1 H2].
    cbn [mapM] in E. unfold evals_none in H1. destruct (pyeval a) as [o|x]; [|discriminate]. cbn [bind] in E.
    destruct (mapM pyeval t) as [os|x] eqn:Et; [|discriminate]. cbn in E. inversion E; subst. cbn [map].
    rewrite (IH os (proj2 (negb_true_iff _) H2) eq_refl). destruct o; try reflexivity. discriminate.
Qed.

Lemma forallb_objs (p : pyobj -> bool) l :
  forallb (fun s => match pyeval s with Ok o => p o | Raise _ => false end) l = true ->
  exists objs, mapM pyeval l = Ok objs /\ Forall (fun o => p o = true) objs.
Proof.
  induction l as [|a t IH]; cbn [forallb]; intros H; [exists []; auto|].
  apply andb_true_iff in H. destruct H as [H1 H2]. destruct (IH H2) as [os [E HF]].
  cbn [mapM]. destruct (pyeval a) as [o|x]; [|discriminate]. rewrite E. exists (o :: os). cbn. auto.
Qed.

Lemma items_ok_objs c l :
  ctor_items_ok c l = true ->
  exists objs, mapM pyeval l = Ok objs /\
               Forall (fun o => fieldy_obj o = true /\ (is_tuple_cls c = false \/ is_struct_obj o = false)) objs.
Proof.
  unfold ctor_items_ok. intros H. apply andb_true_iff in H. destruct H as [H1 H2].
  unfold fieldy in H1. destruct (forallb_objs fieldy_obj l H1) as [objs [E HF]]. exists objs. split; [exact E|].
  apply orb_true_iff in H2. destruct H2 as [H2|H2].
  - apply negb_true_iff in H2. eapply Forall_impl; [|exact HF]. cbn. auto.
  - apply negb_true_iff in H2. clear H1. revert objs E HF. induction l as [|a t IH]; intros objs E HF.
    + cbn in E. inversion E. constructor.
    + cbn [existsb] in H2. apply orb_false_iff in H2. destruct H2 as [Ha Ht]. cbn [mapM] in E.
      unfold evals_struct in Ha. destruct (pyeval a) as [o|x]; [|discriminate]. cbn [bind] in E.
      destruct (mapM pyeval t) as [os|x] eqn:Et; [|discriminate]. cbn in E. inversion E; subst.
      inversion HF; subst. constructor; [auto|]. apply IH; auto.
Qed.

Lemma ctor_items_inst c objs :
  Forall (fun o => fieldy_obj o = true /\ (is_tuple_cls c = false \/ is_struct_obj o = false)) objs ->
  exists vs, mapM (ctor_item c) objs = Ok vs /\ mapM inst vs = mapM getitem_conv objs.
Proof.
  induction 1 as [|o t [Hf Ht] _ [vs [E HI]]]; [exists []; auto|].
  destruct (ctor_item_fieldy c o Hf Ht) as [v [Ev Hv]]. exists (v :: vs). cbn [mapM]. rewrite Ev, E, Hv, HI. auto.
Qed.

Lemma good_objs_tli objs :
  Forall (fun o => good_obj o = true) objs ->
  exists vs fs, mapM tli objs = Ok (map Some vs) /\ mapM inst vs = Ok fs /\ mapM getitem_conv objs = Ok fs.
Proof.
  induction 1 as [|o t Hg _ [vs [fs [E1 [E2 E3]]]]]; [exists [], []; auto|].
  destruct (good_obj_spec o Hg) as [v [f [Ht Hi]]]. exists (v :: vs), (f :: fs). cbn [mapM map].
  rewrite Ht, E1, Hi, E2, (good_agree o v f Ht Hi), E3. auto.
Qed.

Lemma fill_somes b args vs : length args = length vs -> fill b args (map Some vs) = Ok vs.
Proof.
  intros H. unfold fill. assert (HA : forallb is_some (map Some vs) = true) by (clear; induction vs; auto).
  rewrite HA. clear HA. revert args H. induction vs as [|v t IH]; intros args H.
  - destruct args; [reflexivity|discriminate].
  - destruct args as [|a args]; [discriminate|]. cbn [map fill_union]. rewrite IH; [reflexivity|]. cbn in H. lia.
Qed.

Lemma inst_rel_FVInst vs fs : mapM inst vs = Ok fs -> Forall2 fv_rel vs (map FVInst fs).
Proof.
  revert fs. induction vs as [|v t IH]; intros fs H; cbn [mapM] in H.
  - inversion H. constructor.
  - destruct (inst v) as [f|x] eqn:E; [|discriminate]. cbn [bind] in H.
    destruct (mapM inst t) as [gs|x]; [|discriminate]. cbn in H. inversion H; subst. cbn [map].
    constructor; [exact E|]. apply IH. reflexivity.
Qed.

Definition sub_like (c : pystr) : bool :=
  match classify c with CSeq _ | CSet _ | CTuple | CMap => true | _ => false end.

(* ------------------------------------------------------------------ one lemma per rule of the congruence *)
Lemma case_name_cls n c f :
  convert_basic n = Some c -> inst0 c = Ok f -> oeq (OType n) (OFieldCls c).
Proof.
  intros Hc Hi. split.
  - cbn [tli]. rewrite Hc, Hi. cbn. unfold fv_rel. cbn. exact Hi.
  - cbn [getitem_conv tli]. rewrite Hc. cbn [option_map bind inst]. rewrite Hi. reflexivity.
Qed.

Lemma case_cls_inst c f : inst0 c = Ok f -> oeq (OFieldCls c) (OFieldInst f).
Proof.
  intros Hi. split.
  - cbn [tli]. rewrite Hi. cbn. unfold fv_rel. reflexivity.
  - cbn [getitem_conv]. exact Hi.
Qed.

Lemma case_bare o c f : convert_basic o = Some c -> inst0 c = Ok f -> oeq (OGeneric o []) (OType o).
Proof.
  intros Hc Hi.
  assert (HT : tli (OGeneric o []) = Ok (Some (FVInst f))).
  { rewrite tli_generic, Hc. cbn [mapM bind]. unfold finish, fill. cbn [forallb fill_union bind]. rewrite Hi.
    reflexivity. }
  split.
  - rewrite HT. cbn [tli]. rewrite Hc. cbn. unfold fv_rel. cbn. symmetry. exact Hi.
  - unfold getitem_conv at 1. rewrite HT. cbn [bind inst]. cbn [getitem_conv tli]. rewrite Hc.
    cbn [option_map bind inst]. rewrite Hi. reflexivity.
Qed.

Lemma case_typing_pep585 tn o args args' :
  typing_origin tn = Some o -> lreq (mapM pyeval args) (mapM pyeval args') -> no_none args = true ->
  req (pyeval (TTyping tn args)) (pyeval (TPep585 o args')).
Proof.
  intros Ho HL Hn. rewrite pyeval_typing, pyeval_pep585, Ho.
  destruct (anyof_origin o) eqn:Ha; [reflexivity|].
  destruct (mapM pyeval args) as [objs|x] eqn:E, (mapM pyeval args') as [objs'|y]; cbn in HL |- *; try tauto.
  rewrite (no_none_map _ _ Hn E). apply generic_cong; auto.
Qed.

Lemma case_pep585_cong o args args' :
  lreq (mapM pyeval args) (mapM pyeval args') ->
  req (pyeval (TPep585 o args)) (pyeval (TPep585 o args')).
Proof.
  intros HL. rewrite !pyeval_pep585. destruct (anyof_origin o) eqn:Ha; [reflexivity|].
  destruct (mapM pyeval args) as [objs|x] eqn:E, (mapM pyeval args') as [objs'|y]; cbn in HL |- *; try tauto.
  apply generic_cong; auto.
Qed.

Lemma case_sub_cong c args args' :
  lreq (mapM pyeval args) (mapM pyeval args') -> req (pyeval (TSub c args)) (pyeval (TSub c args')).
Proof.
  intros HL. rewrite !pyeval_sub.
  destruct (mapM pyeval args) as [objs|x], (mapM pyeval args') as [objs'|y]; cbn in HL |- *; try tauto.
  rewrite (subscript_cong c _ _ HL). apply req_refl.
Qed.

Lemma items_ok_single c a :
  ctor_items_ok c [a] = true ->
  exists o, pyeval a = Ok o /\ fieldy_obj o = true /\ (is_tuple_cls c = false \/ is_struct_obj o = false).
Proof.
  intros H. destruct (items_ok_objs c [a] H) as [objs [E HF]]. cbn [mapM] in E.
  destruct (pyeval a) as [o|x]; [|discriminate E]. cbn in E. inversion E; subst objs.
  inversion HF as [|? ? [Hf Ht] _]; subst. exists o. auto.
Qed.

(* Cls(items=T) under a related item, for EVERY class taking items - Tuple included (a Structure class is not an
   item Tuple's constructor accepts: ctor_items_ok) *)
Lemma case_ctor1_cong c a a' sz u :
  req (pyeval a) (pyeval a') -> ctor_items_ok c [a] = true -> ctor_items_ok c [a'] = true ->
  req (pyeval (TCtor1 c a sz u)) (pyeval (TCtor1 c a' sz u)).
Proof.
  intros HR H1 H2. destruct (items_ok_single c a H1) as [o [E [Hf Ht]]].
  destruct (items_ok_single c a' H2) as [o' [E' [Hf' Ht']]]. cbn [pyeval]. rewrite E, E' in *.
  cbn in HR. destruct HR as [_ Hg]. cbn [bind].
  destruct (ctor_item_fieldy c o Hf Ht) as [v [Ev Hv]].
  destruct (ctor_item_fieldy c o' Hf' Ht') as [v' [Ev' Hv']]. rewrite Ev, Ev'. cbn [bind].
  rewrite (construct_one_cong c v v' sz u None); [apply req_refl|]. unfold fv_rel. congruence.
Qed.

Lemma case_ctorN_cong c l l' sz u ad :
  lreq (mapM pyeval l) (mapM pyeval l') -> ctor_items_ok c l = true -> ctor_items_ok c l' = true ->
  req (pyeval (TCtorN c l sz u ad)) (pyeval (TCtorN c l' sz u ad)).
Proof.
  intros HL H1 H2. rewrite !pyeval_ctorN.
  destruct (items_ok_objs c l H1) as [objs [E HF]]. destruct (items_ok_objs c l' H2) as [objs' [E' HF']].
  rewrite E, E' in *. cbn in HL. cbn [bind].
  destruct (ctor_items_fieldy c objs objs' HL HF HF') as [vs [vs' [Ev [Ev' HV]]]]. rewrite Ev, Ev'. cbn [bind].
  rewrite (construct_many_cong c vs vs' sz u ad HV). apply req_refl.
Qed.

Lemma case_sub_ctor1 c a a' :
  req (pyeval a) (pyeval a') -> ctor_items_ok c [a'] = true -> is_one_item_cls c = true ->
  req (pyeval (TSub c [a])) (pyeval (TCtor1 c a' no_sizec false)).
Proof.
  intros HR H2 Hc. destruct (items_ok_single c a' H2) as [o' [E' [Hf' Ht']]].
  rewrite pyeval_sub. cbn [pyeval mapM]. rewrite E' in *.
  destruct (pyeval a) as [o|x]; [|cbn in HR; tauto].
  cbn in HR. destruct HR as [_ Hg]. cbn [bind].
  destruct (ctor_item_fieldy c o' Hf' Ht') as [v' [Ev' Hv']]. rewrite Ev'. cbn [bind].
  rewrite (construct_one_coll c v' no_sizec false None Hc), Hv', <- Hg.
  unfold subscript. unfold is_one_item_cls, is_coll_cls, is_tuple_cls in Hc.
  destruct (classify c) eqn:EC; try discriminate; cbn [mapM];
    destruct (getitem_conv o) as [f|x]; cbn [bind]; try reflexivity; apply req_refl.
Qed.

Lemma case_sub_ctorN c l l' :
  lreq (mapM pyeval l) (mapM pyeval l') -> ctor_items_ok c l' = true -> many_ok c (length l) = true ->
  req (pyeval (TSub c l)) (pyeval (TCtorN c l' no_sizec false None)).
Proof.
  intros HL H2 Hm. rewrite pyeval_sub, pyeval_ctorN.
  destruct (items_ok_objs c l' H2) as [objs' [E' HF']]. rewrite E' in *.
  destruct (mapM pyeval l) as [objs|x] eqn:E; cbn in HL; [|tauto]. cbn [bind].
  destruct (ctor_items_inst c objs' HF') as [vs' [Ev' HI]]. rewrite Ev'. cbn [bind].
  assert (Hlen : length objs = length l) by (eapply mapM_length; eassumption).
  rewrite subscript_many by (rewrite Hlen; exact Hm).
  rewrite construct_many_split.
  - rewrite HI, <- (mapM_getitem_cong _ _ HL). apply req_refl.
  - rewrite (mapM_length _ _ _ Ev'), <- (Forall2_length _ _ _ HL), Hlen. exact Hm.
Qed.

Lemma sel_map_FVInst c (fs : list field) :
  match fs with
  | [f] => construct c (IOne (FVInst f)) no_sizec false None
  | _ => construct c (IMany (map FVInst fs)) no_sizec false None
  end =
  construct c (match map FVInst fs with [v] => IOne v | _ => IMany (map FVInst fs) end) no_sizec false None.
Proof. destruct fs as [|f [|g t]]; reflexivity. Qed.

Lemma case_pep585_sub o c args args' :
  convert_basic o = Some c -> lreq (mapM pyeval args) (mapM pyeval args') -> forallb good args = true ->
  args <> [] -> is_anyof_cls c = false -> sub_like c = true ->
  is_ok (pyeval (TSub c args')) = true ->
  req (pyeval (TPep585 o args)) (pyeval (TSub c args')).
Proof.
  intros Hc HL Hg Hne Ha Hsl Hok. rewrite pyeval_pep585. unfold anyof_origin. rewrite Hc, Ha.
  unfold good in Hg. destruct (forallb_objs good_obj args Hg) as [objs [E HG]]. rewrite E in *. cbn [bind].
  rewrite pyeval_sub in *. destruct (mapM pyeval args') as [objs'|y]; cbn in HL; [|tauto]. cbn [bind] in *.
  destruct (subscript c objs') as [f'|y] eqn:ES; [|discriminate]. cbn [bind].
  destruct (good_objs_tli objs HG) as [vs [fs [E1 [E2 E3]]]].
  assert (Hlen : length objs = length args) by (eapply mapM_length; eassumption).
  assert (Hlv : length objs = length vs).
  { pose proof (mapM_length _ _ _ E1) as H. rewrite map_length in H. symmetry. exact H. }
  assert (HT : tli (OGeneric o objs) = Ok (Some (FVInst f'))).
  { rewrite tli_generic, Hc, E1. cbn [bind]. unfold finish. rewrite (fill_somes _ _ _ Hlv). cbn [bind].
    assert (Hvs : vs <> []).
    { intros ->. destruct objs; [|discriminate]. destruct args; [congruence|]. cbn in Hlen. discriminate. }
    rewrite Ha.
    assert (HC : construct c (match vs with [v] => IOne v | _ => IMany vs end) no_sizec false None = Ok f').
    { rewrite (construct_args_cong c vs (map FVInst fs) (inst_rel_FVInst _ _ E2)).
      rewrite <- sel_map_FVInst. unfold subscript, sub_like in *.
      rewrite <- (mapM_getitem_cong _ _ HL), E3 in ES.
      destruct (classify c); try discriminate; exact ES. }
    destruct vs as [|v t]; [congruence|]. rewrite HC. reflexivity. }
  split.
  - rewrite HT. cbn. unfold fv_rel. reflexivity.
  - unfold getitem_conv at 1. rewrite HT. reflexivity.
Qed.

Lemma case_optional a : req (pyeval (TOptional a)) (pyeval (TUnion [a; TNone])).
Proof.
  rewrite pyeval_union. cbn [pyeval mapM]. destruct (pyeval a) as [o|x]; [|reflexivity]. cbn [bind].
  change (mk_union [o; ONone]) with (mk_union [o; ONoneType]). apply oeq_refl.
Qed.

(* members of a Union / of AnyOf[...]: None on both sides, or a spelling that denotes a field *)
Lemma member_pair a a' o o' :
  member_ok a = true -> member_ok a' = true -> pyeval a = Ok o -> pyeval a' = Ok o' -> oeq o o' ->
  oeq (none_to_nonetype o) (none_to_nonetype o') /\
  exists v, tli (none_to_nonetype o) = Ok (Some v) /\ inst v = getitem_conv o'.
Proof.
  unfold member_ok, good. intros Ha Ha' E E' [Ht Hg]. rewrite E in Ha. rewrite E' in Ha'.
  destruct (is_tnone a) eqn:Na.
  - destruct a; try discriminate. cbn in E. inversion E; subst o.
    destruct (is_tnone a') eqn:Na'.
    + destruct a'; try discriminate. cbn in E'. inversion E'; subst o'. split; [apply oeq_refl|].
      exists (FVInst FNone). split; reflexivity.
    + cbn in Ha'. destruct (good_obj_spec o' Ha') as [v' [f' [Hv' _]]]. rewrite Hv' in Ht. cbn in Ht. tauto.
  - cbn in Ha. destruct (good_obj_spec o Ha) as [v [f [Hv Hi]]].
    assert (Ho : none_to_nonetype o = o) by (destruct o; try reflexivity; cbn in Hv; discriminate).
    destruct (is_tnone a') eqn:Na'.
    + destruct a'; try discriminate. cbn in E'. inversion E'; subst o'. rewrite Hv in Ht. cbn in Ht. tauto.
    + cbn in Ha'. destruct (good_obj_spec o' Ha') as [v' [f' [Hv' Hi']]].
      assert (Ho' : none_to_nonetype o' = o') by (destruct o'; try reflexivity; cbn in Hv'; discriminate).
      rewrite Ho, Ho'. split; [split; assumption|]. exists v. split; [exact Hv|].
      rewrite Hi, <- Hg. symmetry. exact (good_agree o v f Hv Hi).
Qed.

Lemma members_objs l l' objs objs' :
  forallb member_ok l = true -> forallb member_ok l' = true ->
  mapM pyeval l = Ok objs -> mapM pyeval l' = Ok objs' -> Forall2 oeq objs objs' ->
  Forall2 oeq (map none_to_nonetype objs) (map none_to_nonetype objs') /\
  exists vs, mapM tli (map none_to_nonetype objs) = Ok (map Some vs) /\ mapM inst vs = mapM getitem_conv objs'.
Proof.
  revert l' objs objs'. induction l as [|a t IH]; intros l' objs objs' Hm Hm' E E' HF.
  - cbn in E. inversion E; subst. inversion HF; subst. split; [constructor|]. exists []. auto.
  - cbn [mapM] in E. destruct (pyeval a) as [o|x] eqn:Ea; [|discriminate]. cbn [bind] in E.
    destruct (mapM pyeval t) as [os|x] eqn:Et; [|discriminate]. cbn in E. inversion E; subst objs.
    inversion HF as [|? o' ? os' Ho Hos]; subst.
    destruct l' as [|a' t']; [cbn in E'; inversion E'|]. cbn [mapM] in E'.
    destruct (pyeval a') as [p|x] eqn:Ea'; [|discriminate]. cbn [bind] in E'.
    destruct (mapM pyeval t') as [ps|x] eqn:Et'; [|discriminate]. cbn in E'. inversion E'; subst.
    cbn [forallb] in Hm, Hm'. apply andb_true_iff in Hm, Hm'. destruct Hm as [Ha Hm]. destruct Hm' as [Ha' Hm'].
    destruct (member_pair a a' o o' Ha Ha' Ea Ea' Ho) as [H1 [v [Hv Hi]]].
    destruct (IH t' os os' Hm Hm' eq_refl Et' Hos) as [H2 [vs [Ev HI]]].
    split; [constructor; assumption|]. exists (v :: vs). cbn [map mapM]. rewrite Hv, Ev, Hi, HI. auto.
Qed.

Lemma has_field_of_somes objs vs : mapM tli objs = Ok (map Some vs) -> Forall has_field objs.
Proof.
  revert vs. induction objs as [|o t IH]; intros vs H; [constructor|]. cbn [mapM] in H.
  destruct (tli o) as [r|x] eqn:E; [|discriminate]. cbn [bind] in H.
  destruct (mapM tli t) as [rs|x] eqn:Et; [|discriminate]. cbn in H. inversion H as [H0].
  destruct vs as [|v vs]; [discriminate|]. cbn in H0. inversion H0; subst. constructor; [exists v; exact E|].
  apply (IH vs). reflexivity.
Qed.

Lemma union_written_spec l :
  union_written l = true -> exists objs, mapM pyeval l = Ok objs /\ keeps_as_written objs = true.
Proof. unfold union_written. destruct (mapM pyeval l) as [objs|x]; [|discriminate]. eauto. Qed.

Lemma case_union_cong l l' :
  lreq (mapM pyeval l) (mapM pyeval l') -> forallb member_ok l = true -> forallb member_ok l' = true ->
  union_written l = true -> union_written l' = true -> req (pyeval (TUnion l)) (pyeval (TUnion l')).
Proof.
  intros HL Hm Hm' Hw Hw'. rewrite !pyeval_union.
  destruct (union_written_spec l Hw) as [objs [E K]]. destruct (union_written_spec l' Hw') as [objs' [E' K']].
  rewrite E, E' in *. cbn in HL. cbn [bind req]. rewrite (keeps_mk_union _ K), (keeps_mk_union _ K').
  destruct (members_objs l l' objs objs' Hm Hm' E E' HL) as [H1 [vs [Ev _]]].
  apply union_cong; [exact H1|]. eapply has_field_of_somes. exact Ev.
Qed.

Lemma keeps_length l : keeps_as_written l = true -> (2 <= length l)%nat.
Proof.
  unfold keeps_as_written. intros H. apply andb_true_iff in H. destruct H as [_ H].
  rewrite map_length in H. apply Nat.leb_le. exact H.
Qed.

Lemma case_union_sub l l' :
  lreq (mapM pyeval l) (mapM pyeval l') -> forallb member_ok l = true -> forallb member_ok l' = true ->
  union_written l = true -> is_ok (pyeval (TSub (s2p "AnyOf") l')) = true ->
  req (pyeval (TUnion l)) (pyeval (TSub (s2p "AnyOf") l')).
Proof.
  intros HL Hm Hm' Hw Hok. rewrite pyeval_union. rewrite pyeval_sub in *.
  destruct (union_written_spec l Hw) as [objs [E K]]. rewrite E in *. cbn [bind].
  destruct (mapM pyeval l') as [objs'|y] eqn:E'; cbn in HL; [|tauto]. cbn [bind] in *.
  destruct (subscript (s2p "AnyOf") objs') as [f'|y] eqn:ES; [|discriminate]. cbn [bind req].
  rewrite (keeps_mk_union _ K).
  destruct (members_objs l l' objs objs' Hm Hm' E E' HL) as [_ [vs [Ev HI]]].
  rewrite subscript_many in ES by reflexivity.
  destruct (mapM getitem_conv objs') as [fs'|y] eqn:EG; [|discriminate]. cbn [bind] in ES.
  assert (Hlv : length (map none_to_nonetype objs) = length vs).
  { pose proof (mapM_length _ _ _ Ev) as H. rewrite map_length in H. symmetry. exact H. }
  assert (HT : tli (OUnion (map none_to_nonetype objs)) = Ok (Some (FVInst f'))).
  { rewrite tli_union, union_maps_to_anyof, Ev. cbn [bind]. unfold finish. rewrite (fill_somes _ _ _ Hlv). cbn [bind].
    rewrite anyof_is_anyof. rewrite construct_many_split by reflexivity. rewrite HI. cbn [bind]. rewrite ES.
    destruct vs as [|v t]; [|reflexivity].
    pose proof (keeps_length _ K) as HK. rewrite map_length in Hlv. rewrite Hlv in HK. cbn in HK. lia. }
  split.
  - rewrite HT. cbn. unfold fv_rel. reflexivity.
  - unfold getitem_conv at 1. rewrite HT. reflexivity.
Qed.

(* ------------------------------------------------------------------ nested typing Unions are flattened *)
Local Open Scope list_scope.
Lemma mapM_app {A B} (f : A -> res B) l1 l2 :
  mapM f (l1 ++ l2) = (a <- mapM f l1 ;; b <- mapM f l2 ;; Ok (a ++ b)).
Proof.
  induction l1 as [|x t IH]; cbn [mapM app bind].
  - destruct (mapM f l2); reflexivity.
  - destruct (f x) as [y|e]; cbn [bind]; [|reflexivity]. rewrite IH.
    destruct (mapM f t) as [ys|e]; cbn [bind]; [|reflexivity]. destruct (mapM f l2); reflexivity.
Qed.

Lemma flatten_app l1 l2 : flatten_union (l1 ++ l2) = flatten_union l1 ++ flatten_union l2.
Proof. unfold flatten_union. apply flat_map_app. Qed.

Lemma keeps_flat l : keeps_as_written l = true -> existsb is_ounion (map none_to_nonetype l) = false.
Proof.
  unfold keeps_as_written. intros H. apply andb_true_iff in H. destruct H as [H _].
  apply andb_true_iff in H. destruct H as [H _]. apply negb_true_iff in H. exact H.
Qed.

(* typing.Union[l0..., typing.Union[l1...], l2...] is typing.Union[l0..., l1..., l2...]: whatever the outer members
   are (typing's de-duplication included), provided typing keeps the INNER union as written *)
Lemma mk_union_nested l0 l1 l2 :
  keeps_as_written l1 = true -> mk_union (l0 ++ mk_union l1 :: l2) = mk_union (l0 ++ l1 ++ l2).
Proof.
  intros K. rewrite (keeps_mk_union _ K). unfold mk_union.
  rewrite !map_app. cbn [map none_to_nonetype]. rewrite !flatten_app.
  change (flatten_union (OUnion (map none_to_nonetype l1) :: map none_to_nonetype l2))
    with (map none_to_nonetype l1 ++ flatten_union (map none_to_nonetype l2)).
  rewrite (flatten_id _ (keeps_flat _ K)). reflexivity.
Qed.

Lemma pyeval_union_nested l0 l1 l2 :
  union_written l1 = true -> pyeval (TUnion (l0 ++ TUnion l1 :: l2)) = pyeval (TUnion (l0 ++ l1 ++ l2)).
Proof.
  intros Hw. destruct (union_written_spec l1 Hw) as [objs1 [E1 K1]].
  rewrite !pyeval_union, !mapM_app. cbn [mapM]. rewrite pyeval_union, E1. cbn [bind].
  destruct (mapM pyeval l0) as [o0|x]; [|reflexivity]. cbn [bind].
  destruct (mapM pyeval l2) as [o2|x]; [|reflexivity]. cbn [bind].
  rewrite (mk_union_nested o0 objs1 o2 K1). reflexivity.
Qed.

Lemma pyeval_optional_eq a : pyeval (TOptional a) = pyeval (TUnion [a; TNone]).
Proof. rewrite pyeval_union. cbn [pyeval mapM]. destruct (pyeval a) as [o|x]; reflexivity. Qed.

Lemma pyeval_union_pointwise l l' :
  Forall2 (fun a b => pyeval a = pyeval b) l l' -> pyeval (TUnion l) = pyeval (TUnion l').
Proof.
  intros H. rewrite !pyeval_union.
  assert (HM : mapM pyeval l = mapM pyeval l').
  { induction H as [|a b t t' Hab _ IH]; [reflexivity|]. cbn [mapM]. rewrite Hab, IH. reflexivity. }
  rewrite HM. reflexivity.
Qed.

Lemma pyeval_union_opt_member l0 a l2 :
  pyeval (TUnion (l0 ++ TOptional a :: l2)) = pyeval (TUnion (l0 ++ TUnion [a; TNone] :: l2)).
Proof.
  apply pyeval_union_pointwise. induction l0 as [|x t IH]; cbn [app].
  - constructor; [apply pyeval_optional_eq|]. induction l2; constructor; auto.
  - constructor; [reflexivity|exact IH].
Qed.

Lemma case_or_sub a a' b b' :
  req (pyeval a) (pyeval a') -> req (pyeval b) (pyeval b') -> or_left a = true -> or_right_ok b = true ->
  req (pyeval (TOr a b)) (pyeval (TSub (s2p "AnyOf") [a'; b'])).
Proof.
  unfold or_left, or_right_ok. intros Ha Hb Hl Hr. rewrite pyeval_sub. cbn [pyeval mapM].
  destruct (pyeval a) as [oa|x]; [|discriminate]. destruct (pyeval a') as [oa'|y]; cbn in Ha; [|tauto].
  destruct (pyeval b) as [ob|x]; [|discriminate]. destruct (pyeval b') as [ob'|y]; cbn in Hb; [|tauto].
  cbn [bind].
  assert (HS : forall ob0, oeq ob0 ob' ->
            req (f <- subscript (s2p "AnyOf") [oa; ob0] ;; Ok (OFieldInst f))
                (f <- subscript (s2p "AnyOf") [oa'; ob'] ;; Ok (OFieldInst f))).
  { intros ob0 H0. rewrite (subscript_cong (s2p "AnyOf") [oa; ob0] [oa'; ob']); [apply req_refl|].
    constructor; [exact Ha|]. constructor; [exact H0|constructor]. }
  destruct oa; try discriminate; destruct ob; try discriminate; cbn [py_or]; try (apply HS; exact Hb);
    destruct (convert_basic n) as [c0|] eqn:Ec; try discriminate;
    destruct (inst0 c0) as [f0|x] eqn:Ei; try discriminate;
    apply HS; (eapply oeq_trans; [apply oeq_sym; eapply case_name_cls; eassumption|exact Hb]).
Qed.

(* ------------------------------------------------------------------ the congruence of the property's pairs *)
Inductive sp_eq : tyexpr -> tyexpr -> Prop :=
| sp_refl s : sp_eq s s
| sp_sym s t : sp_eq s t -> sp_eq t s
| sp_trans s t u : sp_eq s t -> sp_eq t u -> sp_eq s u
(* int ~ Integer, list ~ Array, dict ~ Map, typing.Any ~ Anything ... : whatever the generated table says *)
| sp_name_cls n c f : convert_basic n = Some c -> inst0 c = Ok f -> sp_eq (TName n) (TFieldCls c)
(* Integer ~ Integer() *)
| sp_cls_inst c f : inst0 c = Ok f -> sp_eq (TFieldCls c) (TInst f)
(* typing.List ~ list *)
| sp_bare tn o c f :
    typing_origin tn = Some o -> convert_basic o = Some c -> inst0 c = Ok f -> sp_eq (TBare tn) (TName o)
(* typing.List[T] ~ list[T'] *)
| sp_typing_pep585 tn o args args' :
    typing_origin tn = Some o -> sp_eqs args args' -> no_none args = true ->
    sp_eq (TTyping tn args) (TPep585 o args')
| sp_pep585_cong o args args' :
    sp_eqs args args' -> sp_eq (TPep585 o args) (TPep585 o args')
(* list[T] ~ Array[T'], dict[K, V] ~ Map[K', V'], tuple[A, B] ~ Tuple[A', B'] *)
| sp_pep585_sub o c args args' :
    convert_basic o = Some c -> sp_eqs args args' -> forallb good args = true -> args <> [] ->
    is_anyof_cls c = false -> sub_like c = true ->
    is_ok (pyeval (TSub c args')) = true -> sp_eq (TPep585 o args) (TSub c args')
| sp_sub_cong c args args' : sp_eqs args args' -> sp_eq (TSub c args) (TSub c args')
(* Array[T] ~ Array(items=T'), Tuple[T] ~ Tuple(items=T') *)
| sp_sub_ctor1 c a a' :
    sp_eq a a' -> ctor_items_ok c [a'] = true -> is_one_item_cls c = true ->
    sp_eq (TSub c [a]) (TCtor1 c a' no_sizec false)
(* Array[A, B] ~ Array(items=[A', B']), Map[K, V] ~ Map(items=[K', V']), AnyOf[A, B] ~ AnyOf(fields=[A', B']) *)
| sp_sub_ctorN c l l' :
    sp_eqs l l' -> ctor_items_ok c l' = true -> many_ok c (length l) = true ->
    sp_eq (TSub c l) (TCtorN c l' no_sizec false None)
| sp_ctor1_cong c a a' sz u :
    sp_eq a a' -> ctor_items_ok c [a] = true -> ctor_items_ok c [a'] = true ->
    sp_eq (TCtor1 c a sz u) (TCtor1 c a' sz u)
| sp_ctorN_cong c l l' sz u ad :
    sp_eqs l l' -> ctor_items_ok c l = true -> ctor_items_ok c l' = true ->
    sp_eq (TCtorN c l sz u ad) (TCtorN c l' sz u ad)
(* Optional[T] ~ Union[T, None] *)
| sp_optional a : sp_eq (TOptional a) (TUnion [a; TNone])
| sp_union_cong l l' :
    sp_eqs l l' -> forallb member_ok l = true -> forallb member_ok l' = true ->
    union_written l = true -> union_written l' = true -> sp_eq (TUnion l) (TUnion l')
(* Union[A, B] ~ AnyOf[A', B'];  Union[T, None] ~ AnyOf[T', None] *)
| sp_union_sub l l' :
    sp_eqs l l' -> forallb member_ok l = true -> forallb member_ok l' = true -> union_written l = true ->
    is_ok (pyeval (TSub (s2p "AnyOf") l')) = true -> sp_eq (TUnion l) (TSub (s2p "AnyOf") l')
(* A | B ~ AnyOf[A', B'] *)
| sp_or_sub a a' b b' :
    sp_eq a a' -> sp_eq b b' -> or_left a = true -> or_right_ok b = true ->
    sp_eq (TOr a b) (TSub (s2p "AnyOf") [a'; b'])
(* typing flattens nested Unions: Union[A, Union[B, C]] ~ Union[A, B, C]; Optional[Union[A, B]] ~ Union[A, B, None] *)
| sp_union_flat l0 l1 l2 :
    union_written l1 = true -> sp_eq (TUnion (l0 ++ TUnion l1 :: l2)) (TUnion (l0 ++ l1 ++ l2))
(* Union[A, Optional[B]] ~ Union[A, Union[B, None]] *)
| sp_union_opt_member l0 a l2 :
    sp_eq (TUnion (l0 ++ TOptional a :: l2)) (TUnion (l0 ++ TUnion [a; TNone] :: l2))
with sp_eqs : list tyexpr -> list tyexpr -> Prop :=
| sps_nil : sp_eqs [] []
| sps_cons a a' l l' : sp_eq a a' -> sp_eqs l l' -> sp_eqs (a :: l) (a' :: l').

Scheme sp_eq_mind := Minimality for sp_eq Sort Prop
  with sp_eqs_mind := Minimality for sp_eqs Sort Prop.
Combined Scheme sp_mutind from sp_eq_mind, sp_eqs_mind.

Theorem sp_sound :
  (forall s s', sp_eq s s' -> req (pyeval s) (pyeval s')) /\
  (forall l l', sp_eqs l l' -> lreq (mapM pyeval l) (mapM pyeval l')).
Proof.
  apply sp_mutind; intros.
  - apply req_refl.
  - apply req_sym. assumption.
  - eapply req_trans; eassumption.
  - cbn [pyeval req]. eapply case_name_cls; eassumption.
  - cbn [pyeval req]. eapply case_cls_inst; eassumption.
  - cbn [pyeval]. rewrite H. cbn [req]. eapply case_bare; eassumption.
  - apply case_typing_pep585; assumption.
  - apply case_pep585_cong; assumption.
  - apply case_pep585_sub; assumption.
  - apply case_sub_cong; assumption.
  - apply case_sub_ctor1; assumption.
  - apply case_sub_ctorN; assumption.
  - apply case_ctor1_cong; assumption.
  - apply case_ctorN_cong; assumption.
  - apply case_optional.
  - apply case_union_cong; assumption.
  - apply case_union_sub; assumption.
  - apply case_or_sub; assumption.
  - rewrite pyeval_union_nested by assumption. apply req_refl.
  - rewrite pyeval_union_opt_member. apply req_refl.
  - cbn. constructor.
  - apply lreq_cons; assumption.
Qed.

(* ------------------------------------------------------------------ consequences for each context *)
Lemma tli_f_of_rel o o' : tli_rel (tli o) (tli o') -> tli_f o = tli_f o'.
Proof.
  unfold tli_f, tli_rel. destruct (tli o) as [[v|]|x], (tli o') as [[v'|]|y]; cbn; try tauto.
  - unfold fv_rel. intros H. rewrite H. reflexivity.
  - congruence.
Qed.

Theorem convert_opt_equiv s s' : sp_eq s s' -> convert_opt s = convert_opt s'.
Proof.
  intros H. pose proof (proj1 sp_sound _ _ H) as HR. unfold convert_opt.
  destruct (pyeval s) as [o|x], (pyeval s') as [o'|y]; cbn in HR |- *; try tauto.
  - apply tli_f_of_rel. exact (proj1 HR).
  - congruence.
Qed.

Theorem convert_equiv s s' : sp_eq s s' -> convert s = convert s'.
Proof. intros H. unfold convert. rewrite (convert_opt_equiv _ _ H). reflexivity. Qed.

Theorem convert_sub_equiv s s' : sp_eq s s' -> convert_sub s = convert_sub s'.
Proof.
  intros H. pose proof (proj1 sp_sound _ _ H) as HR. unfold convert_sub.
  destruct (pyeval s) as [o|x], (pyeval s') as [o'|y]; cbn in HR |- *; try tauto.
  - exact (proj2 HR).
  - congruence.
Qed.

Lemma assign_fieldy o : fieldy_obj o = true -> assign_obj o = (f <- getitem_conv o ;; Ok (Some f)).
Proof. destruct o; cbn; try discriminate; reflexivity. Qed.

Lemma tli_f_fieldy o : fieldy_obj o = true -> tli_f o = assign_obj o.
Proof.
  destruct o; cbn; try discriminate; intros _; try reflexivity.
  unfold tli_f. cbn [tli]. destruct (inst0 c); reflexivity.
Qed.

Theorem convert_assign_equiv s s' :
  sp_eq s s' -> fieldy s = true -> fieldy s' = true -> convert_assign s = convert_assign s'.
Proof.
  unfold fieldy. intros H Hf Hf'. pose proof (proj1 sp_sound _ _ H) as HR. unfold convert_assign.
  destruct (pyeval s) as [o|x]; [|discriminate]. destruct (pyeval s') as [o'|y]; [|discriminate].
  cbn in HR |- *. rewrite !assign_fieldy by assumption. rewrite (proj2 HR). reflexivity.
Qed.

Lemma convert_assign_annot s : fieldy s = true -> convert_assign s = convert_opt s.
Proof.
  unfold fieldy, convert_assign, convert_opt. destruct (pyeval s) as [o|x]; [|discriminate]. cbn [bind].
  intros H. symmetry. apply tli_f_fieldy. exact H.
Qed.

Lemma marks_optional_fieldy s : fieldy s = true -> marks_optional s = false.
Proof.
  unfold fieldy, marks_optional. destruct (pyeval s) as [o|x]; [|discriminate]. intros H. rewrite H. reflexivity.
Qed.

(* same Field term => same behaviour of everything that is a function of the Field object *)
Definition res_rel {A} (R : A -> A -> Prop) (r r' : res A) : Prop :=
  match r, r' with Ok a, Ok b => R a b | Raise x, Raise y => x = y | _, _ => False end.

Theorem behaviour_equiv s s' :
  sp_eq s s' ->
  forall re e, res_rel (fun f f' => forall v, vset re e f v = vset re e f' v) (convert s) (convert s').
Proof.
  intros H re e. rewrite (convert_equiv _ _ H). destruct (convert s'); cbn; auto.
Qed.

Theorem observer_equiv {X} (obs : field -> X) s s' :
  sp_eq s s' -> res_rel (fun f f' => obs f = obs f') (convert s) (convert s').
Proof. intros H. rewrite (convert_equiv _ _ H). destruct (convert s'); cbn; auto. Qed.

(* ------------------------------------------------------------------ declarations *)
Section DeclProofs.
  Variable re_match : N -> pystr -> bool.
  Variable e : env.
  Notation decl_result := (decl_result re_match e).
  Notation class_result := (class_result re_match e).
  Notation eq_default := (eq_default re_match e).

  Definition mk_fres (d : decl) (f : field) (dv : option pyval) (o : bool) : fres :=
    {| fr_name := d_name d; fr_field := f; fr_default := dv; fr_optional := o |}.

  (* a truthy default is validated by Field.__init__ under either recognised guard *)
  Lemma init_validates_truthy dv : py_truthy dv = true -> init_validates dv = true.
  Proof. unfold init_validates. intros H. destruct init_default_rule; try exact H. destruct dv; try reflexivity; discriminate. Qed.

  (* what a default given with `=` amounts to when it is not a list / dict / set: validated, then stored —
     on every path (class instantiated with default=, typing instance, Field instance) *)
  Definition eq_simple (f : field) (eq : option pyval) : res (option pyval) :=
    match eq with None => Ok None | Some d => _ <- try_default re_match e f d ;; Ok (Some d) end.
  Definition eq_immutable (eq : option pyval) : bool :=
    match eq with Some d => negb (is_mutable_default d) | None => true end.

  Lemma eq_default_immutable path f eq :
    path <> PathFunc -> eq_immutable eq = true -> eq_default path f None eq = eq_simple f eq.
  Proof.
    intros Hp. destruct eq as [d|]; [|reflexivity]. cbn [eq_immutable]. intros Hm. apply negb_true_iff in Hm.
    unfold Spelling.eq_default, eq_simple, apply_default. rewrite Hm.
    destruct path.
    - destruct (init_validates d) eqn:Hv.
      + destruct (try_default re_match e f d) as [[]|x]; cbn [bind]; [|reflexivity].
        destruct (py_truthy d); [reflexivity|]. destruct (try_default re_match e f d) as [[]|x]; reflexivity.
      + cbn [bind]. destruct (py_truthy d) eqn:Ht; [|reflexivity].
        rewrite (init_validates_truthy d Ht) in Hv. discriminate.
    - destruct (try_default re_match e f d) as [[]|x]; reflexivity.
    - reflexivity.
    - congruence.
  Qed.

  Lemma decl_path_nofunc o : is_func_obj o = false -> decl_path_of o <> PathFunc.
  Proof.
    destruct o; cbn [is_func_obj decl_path_of]; try discriminate; intros _;
      match goal with |- context [tli ?x] => destruct (tli x) as [[[c|g]|]|y] end; discriminate.
  Qed.

  Lemma annot_obj_nofunc o : is_func_obj o = false -> annot_obj o = tli_f o.
  Proof. destruct o; try reflexivity. discriminate. Qed.

  Lemma fieldy_nofunc s : fieldy s = true -> is_func s = false.
  Proof. unfold fieldy, is_func. destruct (pyeval s) as [o|x]; [|reflexivity]. destruct o; cbn; congruence. Qed.

  Lemma decl_annot_form d :
    d_annot d = true -> d_kw d = None -> eq_immutable (d_eq d) = true -> is_func (d_ty d) = false ->
    decl_result d =
    (r <- convert_opt (d_ty d) ;;
     match r with
     | None => Ok None
     | Some f => dv <- eq_simple f (d_eq d) ;;
                 Ok (Some (mk_fres d f dv (d_opt d || marks_optional (d_ty d))))
     end).
  Proof.
    intros Ha Hk Hm Hnf. unfold Spelling.decl_result, convert_opt, is_func in *. rewrite Ha, Hk.
    destruct (pyeval (d_ty d)) as [o|x]; [|reflexivity]. cbn [bind].
    assert (HI : match o with OFieldInst f => init_default re_match e f None | _ => Ok tt end = Ok tt)
      by (destruct o; reflexivity).
    rewrite HI, (annot_obj_nofunc o Hnf). cbn [bind]. destruct (tli_f o) as [[f|]|y]; cbn [bind]; try reflexivity.
    assert (HK : match o with OFieldInst _ => @None pyval | _ => None end = None) by (destruct o; reflexivity).
    rewrite HK, (eq_default_immutable _ f _ (decl_path_nofunc o Hnf) Hm). cbn [andb]. reflexivity.
  Qed.

  Lemma decl_assign_form d :
    d_annot d = false -> d_kw d = None ->
    decl_result d =
    (r <- convert_assign (d_ty d) ;;
     match r with None => Ok None | Some f => Ok (Some (mk_fres d f None (d_opt d || false))) end).
  Proof.
    intros Ha Hk. unfold Spelling.decl_result, convert_assign. rewrite Ha, Hk.
    destruct (pyeval (d_ty d)) as [o|x]; [|reflexivity]. cbn [bind].
    destruct o; cbn [init_default bind andb];
      match goal with |- context [assign_obj ?o] => destruct (assign_obj o) as [[g|]|y] end; reflexivity.
  Qed.

  Definition evals_inst (s : tyexpr) : bool :=
    match pyeval s with Ok (OFieldInst _) => true | _ => false end.

  (* default=dv in the constructor call, dv truthy *)
  Lemma decl_kw_form d dv f :
    d_kw d = Some dv -> d_eq d = None -> py_truthy dv = true -> pyeval (d_ty d) = Ok (OFieldInst f) ->
    decl_result d =
    (_ <- try_default re_match e f dv ;; Ok (Some (mk_fres d f (Some dv) (d_opt d || false)))).
  Proof.
    intros Hk He Ht Hp. unfold Spelling.decl_result. rewrite Hp, Hk, He. cbn [bind init_default].
    rewrite (init_validates_truthy dv Ht).
    assert (HM : marks_optional (d_ty d) = false) by (unfold marks_optional; rewrite Hp; reflexivity).
    destruct (try_default re_match e f dv) as [[]|x]; [|reflexivity]. cbn [bind].
    destruct (d_annot d); cbn [tli_f tli bind opt_inst inst assign_obj andb];
      destruct dv; try discriminate Ht; cbn [Spelling.eq_default bind]; rewrite ?HM; reflexivity.
  Qed.

  Inductive decl_eq : decl -> decl -> Prop :=
  | de_refl d : decl_eq d d
  | de_sym d d' : decl_eq d d' -> decl_eq d' d
  | de_trans d d' d'' : decl_eq d d' -> decl_eq d' d'' -> decl_eq d d''
  (* a: s  ~  a: s' *)
  | de_annot d d' :
      d_name d = d_name d' -> d_annot d = true -> d_annot d' = true -> d_kw d = None -> d_kw d' = None ->
      d_eq d = d_eq d' -> eq_immutable (d_eq d) = true -> sp_eq (d_ty d) (d_ty d') ->
      is_func (d_ty d) = false -> is_func (d_ty d') = false ->
      d_opt d || marks_optional (d_ty d) = d_opt d' || marks_optional (d_ty d') -> decl_eq d d'
  (* a = s  ~  a = s' *)
  | de_assign d d' :
      d_name d = d_name d' -> d_annot d = false -> d_annot d' = false -> d_kw d = None -> d_kw d' = None ->
      sp_eq (d_ty d) (d_ty d') -> fieldy (d_ty d) = true -> fieldy (d_ty d') = true -> d_opt d = d_opt d' ->
      decl_eq d d'
  (* a: s  ~  a = s' *)
  | de_annot_assign d d' :
      d_name d = d_name d' -> d_annot d = true -> d_annot d' = false -> d_kw d = None -> d_kw d' = None ->
      d_eq d = None -> sp_eq (d_ty d) (d_ty d') -> fieldy (d_ty d) = true -> fieldy (d_ty d') = true ->
      d_opt d = d_opt d' -> decl_eq d d'
  (* a: s = dv  ~  a: C(..., default=dv) / a = C(..., default=dv)   for a truthy dv *)
  | de_default d d' dv :
      d_name d = d_name d' -> d_annot d = true -> d_kw d = None -> d_eq d = Some dv ->
      d_kw d' = Some dv -> d_eq d' = None -> sp_eq (d_ty d) (d_ty d') -> evals_inst (d_ty d') = true ->
      py_truthy dv = true -> is_mutable_default dv = false -> is_func (d_ty d) = false ->
      d_opt d || marks_optional (d_ty d) = d_opt d' -> decl_eq d d'
  (* a: F / a = F  ~  a: F() / a = F()   for a recognised parameterless function F declared `-> Field`, no default *)
  | de_func d d' f s :
      d_name d = d_name d' -> d_ty d = TFunc f s -> func_recognised s = true -> d_ty d' = TInst f ->
      d_kw d = None -> d_kw d' = None -> d_eq d = None -> d_eq d' = None -> d_opt d = d_opt d' -> decl_eq d d'.

  Theorem decl_sound d d' : decl_eq d d' -> decl_result d = decl_result d'.
  Proof.
    induction 1 as [d|d d' _ IH|d d' d'' _ IH1 _ IH2|d d' Hn Ha Ha' Hk Hk' He Hi Hs Hnf Hnf' Ho
                    |d d' Hn Ha Ha' Hk Hk' Hs Hf Hf' Ho|d d' Hn Ha Ha' Hk Hk' He Hs Hf Hf' Ho
                    |d d' dv Hn Ha Hk He Hk' He' Hs Hi Ht Hm Hnf Ho
                    |d d' f s Hn Hty Hr Hty' Hk Hk' He He' Ho].
    - reflexivity.
    - symmetry. exact IH.
    - congruence.
    - assert (Hi' : eq_immutable (d_eq d') = true) by (rewrite <- He; exact Hi).
      rewrite (decl_annot_form d Ha Hk Hi Hnf), (decl_annot_form d' Ha' Hk' Hi' Hnf'), (convert_opt_equiv _ _ Hs), He.
      unfold mk_fres. rewrite Hn, Ho. reflexivity.
    - rewrite (decl_assign_form d Ha Hk), (decl_assign_form d' Ha' Hk'), (convert_assign_equiv _ _ Hs Hf Hf').
      unfold mk_fres. rewrite Hn, Ho. reflexivity.
    - assert (Hi : eq_immutable (d_eq d) = true) by (rewrite He; reflexivity).
      rewrite (decl_annot_form d Ha Hk Hi (fieldy_nofunc _ Hf)), (decl_assign_form d' Ha' Hk'), He.
      rewrite <- (convert_assign_annot _ Hf), (convert_assign_equiv _ _ Hs Hf Hf').
      rewrite (marks_optional_fieldy _ Hf). unfold mk_fres. rewrite Hn, Ho.
      destruct (convert_assign (d_ty d')) as [[f|]|x]; reflexivity.
    - unfold evals_inst in Hi. destruct (pyeval (d_ty d')) as [[]|x] eqn:Hp; try discriminate.
      assert (Hi2 : eq_immutable (d_eq d) = true) by (rewrite He; cbn [eq_immutable]; rewrite Hm; reflexivity).
      rewrite (decl_kw_form d' dv f Hk' He' Ht Hp), (decl_annot_form d Ha Hk Hi2 Hnf), (convert_opt_equiv _ _ Hs), He.
      unfold convert_opt. rewrite Hp. cbn [bind tli_f tli opt_inst inst]. cbn [eq_simple].
      unfold mk_fres. rewrite Hn, Ho, orb_false_r.
      destruct (try_default re_match e f dv) as [[]|x]; reflexivity.
    - unfold Spelling.decl_result. rewrite Hty, Hty', Hk, Hk', He, He'. cbn [pyeval bind init_default].
      destruct (d_annot d), (d_annot d'); cbn [annot_obj assign_obj tli_f tli opt_inst inst bind];
        rewrite Hr; cbn [bind Spelling.eq_default andb marks_optional pyeval fieldy_obj negb];
        rewrite Hn, Ho; unfold marks_optional; cbn [pyeval fieldy_obj negb andb tli_f tli bind opt_inst];
        rewrite ?orb_false_r; reflexivity.
  Qed.

  Theorem class_sound ds ds' : Forall2 decl_eq ds ds' -> class_result ds = class_result ds'.
  Proof.
    intros H. unfold Spelling.class_result.
    assert (HM : mapM decl_result ds = mapM decl_result ds').
    { induction H as [|d d' l l' Hd _ IH]; [reflexivity|]. cbn [mapM]. rewrite (decl_sound _ _ Hd), IH. reflexivity. }
    rewrite HM. reflexivity.
  Qed.

  (* ---------------------------------------------------------------- from __future__ import annotations *)
  Notation decl_result_future := (decl_result_future re_match e).
  Notation class_result_future := (class_result_future re_match e).

  Lemma decl_future_evaluated len d :
    (d_annot d = true -> future_evaluated len = true) -> decl_result_future len d = decl_result d.
  Proof.
    intros H. unfold Spelling.decl_result_future. destruct (d_annot d); [|reflexivity].
    rewrite (H eq_refl). reflexivity.
  Qed.

  (* a class whose annotations are all evaluated is the class defined without the __future__ import *)
  Theorem future_transparent ds :
    Forall (fun p => d_annot (snd p) = true -> future_evaluated (fst p) = true) ds ->
    class_result_future ds = class_result (map snd ds).
  Proof.
    intros H. unfold Spelling.class_result_future, Spelling.class_result.
    assert (HM : mapM (fun p => decl_result_future (fst p) (snd p)) ds = mapM decl_result (map snd ds)).
    { induction H as [|p t Hp _ IH]; [reflexivity|]. cbn [mapM map]. rewrite (decl_future_evaluated _ _ Hp), IH.
      reflexivity. }
    rewrite HM. reflexivity.
  Qed.

  (* an annotation that is not evaluated is ignored: no field, whatever it says *)
  Lemma decl_future_ignored len d :
    d_annot d = true -> future_evaluated len = false -> decl_result_future len d = Ok None.
  Proof. intros Ha Hf. unfold Spelling.decl_result_future. rewrite Ha, Hf. reflexivity. Qed.
End DeclProofs.

(* the guards read from the source text on this run are the ones the model transcribes / the proofs are about *)
Lemma src_rules_today :
  typing_optional_rule = OptIfAnyOfIsOptional /\ anyof_optional_rule = IsOptIfSomeNoneField /\
  apply_default_rule = ApplyIfNoTruthyDefault /\ required_rule = ReqUnlessDefaultOrOptional /\
  (init_default_rule = InitDefaultIfTruthy \/ init_default_rule = InitDefaultIfNotNone) /\
  future_rule <> FutureUnrecognised /\ func_return_rule = FuncHintsResolved /\
  (forall l, is_mutable_default (PList l) = true) /\ (forall l, is_mutable_default (PDict l) = true) /\
  (forall l, is_mutable_default (PSet false l) = true).
Proof.
  repeat split; try reflexivity; try discriminate. left; reflexivity.
Qed.

(* with today's guard the __future__ import is NOT transparent: a 60-character annotation loses its field *)
Definition future_full : Prop :=
  forall re_match e ds, class_result_future re_match e ds = class_result re_match e (map snd ds).

Lemma future_refuted : ~ future_full.
Proof.
  intros H.
  specialize (H (fun _ _ => false) []
                [(60%Z, {| d_name := s2p "a"; d_annot := true; d_ty := TName (s2p "int"); d_eq := None; d_kw := None;
                           d_opt := false |})]).
  vm_compute in H. discriminate H.
Qed.

(* ------------------------------------------------------------------ the function-returning-a-Field spelling *)
(* with the recogniser read from the source today (get_type_hints), a string return annotation is resolved:
   EVERY parameterless function declared `-> Field` / `-> "Field"` is recognised *)
Lemma func_recognised_today s : func_recognised s = true.
Proof. destruct s; reflexivity. Qed.

Lemma func_annot f s : func_recognised s = true -> convert_annot (TFunc f s) = convert_annot (TInst f).
Proof. intros H. unfold convert_annot. cbn [pyeval bind annot_obj]. rewrite H. reflexivity. Qed.

Lemma func_assign f s : func_recognised s = true -> convert_assign (TFunc f s) = convert_assign (TInst f).
Proof. intros H. unfold convert_assign. cbn [pyeval bind assign_obj]. rewrite H. reflexivity. Qed.

Lemma func_sub f s : func_recognised s = true -> convert_sub (TFunc f s) = convert_sub (TInst f).
Proof. intros H. unfold convert_sub. cbn [pyeval bind getitem_conv]. rewrite H. reflexivity. Qed.

(* a function that is NOT recognised (a string return annotation read raw) is not a field anywhere: the annotation is
   ignored, the attribute stays a method, Cls[F] raises TypeError *)
Lemma func_unrecognised f s :
  func_recognised s = false ->
  convert_annot (TFunc f s) = Ok None /\ convert_assign (TFunc f s) = Ok None /\ convert_sub (TFunc f s) = Raise TypeError.
Proof.
  intros H. unfold convert_annot, convert_assign, convert_sub. cbn [pyeval bind annot_obj assign_obj getitem_conv].
  rewrite H. auto.
Qed.

(* arguments of Cls[...] are converted one by one by FieldMeta.__getitem__ *)
Definition sub_arg_rel (a b : tyexpr) : Prop :=
  match pyeval a, pyeval b with
  | Ok o, Ok o' => getitem_conv o = getitem_conv o'
  | Raise x, Raise y => x = y
  | _, _ => False
  end.

Lemma sub_pointwise c l l' : Forall2 sub_arg_rel l l' -> pyeval (TSub c l) = pyeval (TSub c l').
Proof.
  intros H. rewrite !pyeval_sub.
  assert (HM : match mapM pyeval l, mapM pyeval l' with
               | Ok os, Ok os' => mapM getitem_conv os = mapM getitem_conv os'
               | Raise x, Raise y => x = y
               | _, _ => False
               end).
  { induction H as [|a b t t' Hab _ IH]; [reflexivity|]. cbn [mapM]. unfold sub_arg_rel in Hab.
    destruct (pyeval a) as [o|x], (pyeval b) as [o'|y]; try tauto; cbn [bind]; try exact Hab.
    destruct (mapM pyeval t) as [os|x], (mapM pyeval t') as [os'|y]; try tauto; cbn [bind mapM]; try exact IH.
    rewrite Hab, IH. reflexivity. }
  destruct (mapM pyeval l) as [os|x], (mapM pyeval l') as [os'|y]; try tauto; cbn [bind]; try congruence.
  unfold subscript. destruct (classify c); try reflexivity; rewrite HM; reflexivity.
Qed.

Lemma sub_arg_refl a : sub_arg_rel a a.
Proof. unfold sub_arg_rel. destruct (pyeval a); reflexivity. Qed.

(* Cls[.., F, ..] = Cls[.., F(), ..] at any argument position, for every class that takes [...] *)
Lemma func_in_sub c l0 f s l2 :
  func_recognised s = true -> pyeval (TSub c (l0 ++ TFunc f s :: l2)) = pyeval (TSub c (l0 ++ TInst f :: l2)).
Proof.
  intros H. apply sub_pointwise. induction l0 as [|x t IH]; cbn [app].
  - constructor.
    + unfold sub_arg_rel. cbn [pyeval getitem_conv]. rewrite H. reflexivity.
    + clear. induction l2; constructor; auto using sub_arg_refl.
  - constructor; [apply sub_arg_refl|exact IH].
Qed.
