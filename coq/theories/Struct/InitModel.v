(* How the hand-written models are seen by the GENERATED constructor (Gen/InitSrc.v):
     - a class description [classdef] as the heap of objects Structure.__init__ reads (self, its class, the
       Field objects, Structure, TypedPyDefaults),
     - keyword arguments as the Python-level `kwargs` dict,
     - the [world] (Base/PyOpsInit.v) whose setattr is Struct/Instance.v [setattr], whose Signature.bind is
       [bind_ok] + the split into declared / extra keywords, whose __validate__ is [hook_ok],
     - the instance __dict__ reached at the end as the model's [PStruct cls attrs],
   and the second, message-level world of Errors/Collect.v (a per-argument oracle for what setattr raises).
   Executable; no proofs here. *)
From Coq Require Import ZArith QArith NArith String Ascii Bool Lia List.
Import ListNotations.
From TP Require Import Base.PyVal Base.PyOps Base.PyOps2 Base.PyObj Base.PyOpsInit
     Fields.FieldAst Fields.SetChain Struct.Shapes Struct.Instance.
Local Open Scope Z_scope.

(* ------------------------------------------------------------------ the instance __dict__ *)
Definition n_instantiated : pystr := s2p "_instantiated".
Definition n_none_fields : pystr := s2p "_none_fields".
Definition n_kwargs : pystr := s2p "kwargs".

(* typedpy's own bookkeeping entries of an instance __dict__ *)
Definition internal (n : pystr) : bool := pystr_eqb n n_instantiated || pystr_eqb n n_none_fields.

Definition public (s : istate) : attrs := filter (fun p => negb (internal (fst p))) s.

Definition instantiated (s : istate) : bool :=
  match alist_get s n_instantiated with Some v => py_truthy v | None => false end.

(* an attribute name that is neither _sunder nor __dunder__ (Base/PyObj.v), as in Struct/StructGuardProofs.v *)
Definition ordinary (n : pystr) : bool := negb (str_is_sunder n) && negb (str_is_dunder n).

(* ------------------------------------------------------------------ the class description as a heap *)
Definition fobj (n : pystr) : pystr := s2p "field:" ++ n.
Definition un_fobj (o : pystr) : option pystr :=
  match o with
  | 102%N :: 105%N :: 101%N :: 108%N :: 100%N :: 58%N :: n => Some n
  | _ => None
  end.

(* get_all_fields_by_name(): name -> the Field object *)
Definition fields_map (c : classdef) : pyval :=
  PDict (map (fun fd => (PStr (fd_name fd), ref (fobj (fd_name fd)))) (c_fields c)).

Definition kw_dict (kw : kwargs) : pyval := PDict (map (fun p => (PStr (fst p), snd p)) kw).

(* [ff]: Structure._fail_fast.  TypedPyDefaults as shipped (uniqueness features and safe trusted instantiation off).
   The class has no Constant fields (the model has none): no `_constants`. *)
Definition init_heap (c : classdef) (ff : bool) : heap :=
  fun o a =>
    if pystr_eqb o (s2p "self") then
      if pystr_eqb a (s2p "__class__") then Some (ref (s2p "cls"))
      else if pystr_eqb a (s2p "__signature__") then Some (ref (s2p "sig"))
      else if pystr_eqb a (s2p "get_all_fields_by_name()") then Some (fields_map c)
      else None
    else if pystr_eqb o (s2p "cls") then
      if pystr_eqb a (s2p "__name__") then Some (PStr (c_name c))
      else if pystr_eqb a (s2p "get_all_fields_by_name()") then Some (fields_map c)
      else None
    else if pystr_eqb o (s2p "Structure") then
      if pystr_eqb a (s2p "_fail_fast") then Some (PBool ff) else None
    else if pystr_eqb o (s2p "TypedPyDefaults") then
      if pystr_eqb a (s2p "uniqueness_features_enabled") then Some (PBool false)
      else if pystr_eqb a (s2p "safe_trusted_instantiation") then Some (PBool false)
      else None
    else match un_fobj o with
         | Some n => if pystr_eqb a (s2p "_default")
                     then match find_field (c_fields c) n with
                          | Some fd => fd_default fd
                          | None => None
                          end
                     else None
         | None => None
         end.

(* ------------------------------------------------------------------ Signature.bind, keyword construction *)
Definition is_field (c : classdef) (p : pystr * pyval) : bool := str_in (fst p) (field_names c).
Definition bound_of (c : classdef) (kw : kwargs) : kwargs := filter (is_field c) kw.
Definition extras_of (c : classdef) (kw : kwargs) : kwargs := filter (fun p => negb (is_field c p)) kw.

Fixpoint kwargs_of (kv : list (pyval * pyval)) : option kwargs :=
  match kv with
  | [] => Some []
  | (PStr n, v) :: t => match kwargs_of t with Some r => Some ((n, v) :: r) | None => None end
  | _ => None
  end.

Section Worlds.
  Variable re_match : N -> pystr -> bool.
  Variable e : env.
  (* oracles for texts the models do not predict *)
  Variable msg_of : pystr -> pyval -> exn -> pystr.     (* str() of what setattr(self, n, v) raises *)
  Variable bind_msg : pystr.                            (* str() of the TypeError of Signature.bind *)
  Variable hook_msg : pystr.                            (* str() of what __validate__ raises *)
  Variable repr_str : pystr -> pystr.
  Variable dumps : list pystr -> pystr.
  (* the order in which the signature lists the declared keywords that were supplied *)
  Variable sig_order : kwargs -> kwargs.

  Definition model_bind (c : classdef) (args kwargs : pyval) : M pyval :=
    match args, kwargs with
    | PTuple [], PDict kv =>
        match kwargs_of kv with
        | Some kw =>
            if has_dup (map fst kw) then raiseM (mk_exc Unmodelled [])
            else if negb (bind_ok c kw) then raiseM (mk_exc TypeError bind_msg)
            else
              let b := map (fun p => (PStr (fst p), snd p)) (sig_order (bound_of c kw)) in
              match extras_of c kw with
              | [] => ret (PDict b)
              | ex => ret (PDict (b ++ [(PStr n_kwargs, kw_dict ex)]))
              end
        | None => raiseM (mk_exc Unmodelled [])
        end
    | _, _ => raiseM (mk_exc Unmodelled [])        (* positional construction: outside the model *)
    end.

  (* setattr(self, k, v): the two bookkeeping entries are plain stores (Structure.__setattr__ lets a _sunder name
     through to object.__setattr__; immutability only bites once `_instantiated`); every other name is
     Struct/Instance.v [setattr] on the current __dict__ *)
  Definition model_setattr (c : classdef) (k v : pyval) : M unit :=
    fun s =>
      match k with
      | PStr n =>
          if internal n then
            if c_immutable c && instantiated s then (s, inr (mk_exc ValueError (msg_of n v ValueError)))
            else (alist_set s n v, inl tt)
          else
            match setattr re_match e c (instantiated s) s n v with
            | (s', Done) => (s', inl tt)
            | (s', Raised x) => (s', inr (mk_exc x (msg_of n v x)))
            end
      | _ => (s, inr (mk_exc Unmodelled []))
      end.

  Definition model_call (c : classdef) (m : pystr) (args : list pyval) : M pyval :=
    fun s =>
      if pystr_eqb m (s2p "__validate__") then
        match args with
        | [] => if hook_ok (c_hook c) (public s) then (s, inl PNone) else (s, inr (mk_exc ValueError hook_msg))
        | _ => (s, inr (mk_exc Unmodelled []))
        end
      else (s, inr (mk_exc Unmodelled [])).

  (* super().__init__() reaches UniqueMixin / object: no effect on the instance *)
  Definition model_super (m : pystr) (args : list pyval) : M pyval :=
    if pystr_eqb m (s2p "__init__") then match args with [] => ret PNone | _ => raiseM (mk_exc Unmodelled []) end
    else raiseM (mk_exc Unmodelled []).

  Definition model_world (c : classdef) : world :=
    {| w_bind := fun _ => model_bind c;
       w_setattr := model_setattr c;
       w_call := model_call c;
       w_super := model_super;
       w_invoke := fun _ _ _ => raiseM (mk_exc Unmodelled []);
       w_apply := fun _ _ => raiseM (mk_exc Unmodelled []);       (* default factories: [with_default] of Struct/Defaults.v *)
       w_callable := fun _ => false;
       w_repr_str := repr_str;
       w_json_dumps := dumps;
       w_new := fun _ _ _ => raiseM (mk_exc Unmodelled []) |}.

  (* the outcome of the constructor as the model states it: the instance, or the class of the exception *)
  Definition view (c : classdef) (r : istate * (unit + pyexc)) : res pyval :=
    match r with
    | (s, inl _) => Ok (PStruct (c_name c) (public s))
    | (_, inr x) => Raise (x_cls x)
    end.

  (* ---------------------------------------------------------------- the message-level world of Errors/Collect.v:
     what setattr does with a bound argument is a function of the argument alone *)
  Variable oracle : pystr -> pyval -> option pyexc.

  Definition oracle_setattr (k v : pyval) : M unit :=
    fun s =>
      match k with
      | PStr n =>
          if internal n then (alist_set s n v, inl tt)
          else match oracle n v with
               | None => (alist_set s n v, inl tt)
               | Some x => (s, inr x)
               end
      | _ => (s, inr (mk_exc Unmodelled []))
      end.

  Definition oracle_world (bound : kwargs) : world :=
    {| w_bind := fun _ _ _ => ret (kw_dict bound);
       w_setattr := oracle_setattr;
       w_call := fun _ _ => ret PNone;
       w_super := fun _ _ => ret PNone;
       w_invoke := fun _ _ _ => raiseM (mk_exc Unmodelled []);
       w_apply := fun _ _ => raiseM (mk_exc Unmodelled []);
       w_callable := fun _ => false;
       w_repr_str := repr_str;
       w_json_dumps := dumps;
       w_new := fun _ _ _ => raiseM (mk_exc Unmodelled []) |}.
End Worlds.

(* a class without fields, named cls: the heap of the message-level statements *)
Definition bare_class (cls : pystr) : classdef :=
  {| c_name := cls; c_ancestors := []; c_fields := []; c_required := []; c_additional := true;
     c_ignore_none := false; c_immutable := false; c_hook := HookNone |}.

(* ------------------------------------------------------------------ the domain of the bridging theorems *)
Definition undefined_ref (v : pyval) : bool := is_global v (s2p "Undefined").

(* a keyword / field name the model speaks about: neither _sunder nor __dunder__, and not the name of the method
   __init__ calls on the instance it is filling (an instance attribute of that name would shadow the method) *)
Definition n_gafbn : pystr := s2p "get_all_fields_by_name".
Definition plain (n : pystr) : bool := ordinary n && negb (pystr_eqb n n_gafbn).

Definition init_dom (c : classdef) (kw : kwargs) : bool :=
  forallb (fun p => plain (fst p) && negb (undefined_ref (snd p))) kw &&
  forallb (fun fd => plain (fd_name fd) && negb (pystr_eqb (fd_name fd) n_kwargs) &&
                     match fd_default fd with Some PNone => false | _ => true end) (c_fields c) &&
  negb (has_dup (field_names c)).

(* [construct] of Struct/Instance.v with the declared keywords assigned in the order [sig_order] lists them (the
   order of the signature's parameters) instead of the caller's order *)
Definition construct_sig (re_match : N -> pystr -> bool) (e : env) (sig_order : kwargs -> kwargs)
           (c : classdef) (kw : kwargs) : res pyval :=
  if has_dup (map fst kw) then Raise Unmodelled
  else if negb (bind_ok c kw) then Raise TypeError
  else
    a0 <- set_all re_match e c [] (extras_of c kw) ;;
    a1 <- set_all re_match e c a0 (defaults_of c kw) ;;
    a2 <- set_all re_match e c a1 (sig_order (bound_of c kw)) ;;
    if hook_ok (c_hook c) a2 then Ok (PStruct (c_name c) a2) else Raise ValueError.
