(* How an instance decides whether a None given for a non-required field is silently dropped
   (Structure.__setattr__):
       getattr(self, '_ignore_none', TypedPyDefaults.allow_none_for_optionals)
   -- the class's `_ignore_none` as the class SEES it (own or inherited, True or False), and only when no class of
   the MRO sets the attribute at all the process-wide default, read at the time of the assignment.
   Executable; no proofs here. *)
From Coq Require Import ZArith NArith String Bool List.
Import ListNotations.
From TP Require Import Base.PyVal Struct.Define Struct.Derive.

Definition none_decision (g : genv) (allow_none_default : bool) (mro : list pystr) : bool :=
  match inherited_ignore_none g mro with
  | Some b => b
  | None => allow_none_default
  end.

(* the three values the attribute can have for a class: absent / False / True *)
Definition seen_ignore_none (g : genv) (k : klass) : option bool := inherited_ignore_none g (k_mro k).
