(* Proofs about the handle model of Struct/Handles.v (property C04). *)
From Coq Require Import List ZArith Bool NArith String Lia. Import ListNotations.
From TP Require Import Base.PyVal Struct.Shapes Struct.Handles.

(* ------------------------------------------------------------------ small facts *)
Lemma alist_get_In {A} (l : list (pystr * A)) k v : alist_get l k = Some v -> In (k, v) l.
Proof.
  induction l as [|[k' v'] t IH]; cbn [alist_get]; [discriminate|].
  destruct (pystr_eqb k' k) eqn:E.
  - intros H; inversion H; subst. apply pystr_eqb_spec in E. subst. left; reflexivity.
  - intros H. right. auto.
Qed.

Lemma alist_get_In_fst {A} (l : list (pystr * A)) k v : alist_get l k = Some v -> In k (map fst l).
Proof. intros H. apply alist_get_In in H. apply (in_map fst) in H. exact H. Qed.

Lemma alist_has_In_fst {A} (l : list (pystr * A)) k : alist_has l k = true -> In k (map fst l).
Proof.
  unfold alist_has. destruct (alist_get l k) eqn:E; [|discriminate]. intros _.
  eapply alist_get_In_fst; eauto.
Qed.

Lemma get_at_app root p i k w es ch :
  get_at root p = Some (Box k w es) -> nth_error es i = Some ch -> get_at root (p ++ [i]) = Some ch.
Proof.
  revert root. induction p as [|j p IH]; intros root H Hn.
  - cbn in H. inversion H; subst. cbn. rewrite Hn. reflexivity.
  - cbn in H. cbn. destruct root as [z|k0 w0 es0]; [discriminate|].
    destruct (nth_error es0 j) eqn:Ej; [|discriminate]. eauto.
Qed.

(* ------------------------------------------------------------------ unfolding [protecting] *)
Definition shell_ok (c : cfg) (k : okind) (w : wrapinfo) : bool :=
  match k, w with
  | (KList | KDeque | KDict), Wrap true _ => true
  | (KFrozen | KTuple), NoWrap => true
  | KImmStruct, NoWrap => c_delitem_guarded c
  | _, _ => false
  end.

Definition child_ok (c : cfg) (k : okind) (w : wrapinfo) (ch : obj) : bool :=
  if existsb (fun a => match acc_policy c k w a ch with Some true => true | _ => false end) (acc_names c k w)
  then protecting c ch else true.

Lemma protecting_unfold c k w es :
  protecting c (Box k w es) = shell_ok c k w && forallb (child_ok c k w) es.
Proof.
  cbn [protecting]. unfold shell_ok. f_equal.
Qed.

Lemma acc_policy0_names c k w a ch b : acc_policy0 c k w a ch = Some b -> In a (acc_names c k w).
Proof.
  unfold acc_policy0, acc_names. destruct w as [|g bd].
  - destruct k;
      try (destruct (alist_has (c_base_accs c _) a) eqn:E; [intros _; apply alist_has_In_fst; exact E|discriminate]);
      (destruct (pystr_eqb a getattr_name) eqn:E; [|discriminate]; intros _;
       apply pystr_eqb_spec in E; subst; left; reflexivity).
  - destruct (alist_get (c_accs c k) a) eqn:E; [|discriminate]. intros _.
    eapply alist_get_In_fst; eauto.
Qed.

Lemma acc_policy_names c k w a ch b : acc_policy c k w a ch = Some b -> In a (acc_names c k w).
Proof.
  unfold acc_policy. destruct (acc_policy0 c k w a ch) as [[|]|] eqn:E; try discriminate;
    intros _; eapply acc_policy0_names; eauto.
Qed.

Lemma protecting_child c k w es i ch a :
  protecting c (Box k w es) = true -> nth_error es i = Some ch ->
  acc_policy c k w a ch = Some true -> protecting c ch = true.
Proof.
  rewrite protecting_unfold. intros H Hn Hp.
  apply andb_true_iff in H. destruct H as [_ H].
  rewrite forallb_forall in H. specialize (H ch (nth_error_In _ _ Hn)).
  unfold child_ok in H.
  assert (E : existsb (fun a => match acc_policy c k w a ch with Some true => true | _ => false end)
                      (acc_names c k w) = true).
  { apply existsb_exists. exists a. split; [eapply acc_policy_names; eauto|]. rewrite Hp. reflexivity. }
  rewrite E in H. exact H.
Qed.

Lemma protecting_shell c k w es : protecting c (Box k w es) = true -> shell_ok c k w = true.
Proof. rewrite protecting_unfold. intros H. apply andb_true_iff in H. tauto. Qed.

Lemma mk_ref_safe c root o q :
  protecting c o = true -> get_at root q = Some o -> handle_safe c root (mk_ref o q) = true.
Proof.
  intros Hp Hg. unfold mk_ref. destruct (inert o); [reflexivity|].
  destruct o as [z|k w es]; [reflexivity|].
  pose proof (protecting_shell _ _ _ _ Hp) as Hs.
  unfold shell_ok in Hs.
  destruct k, w as [|[|] b]; try discriminate; cbn [handle_safe]; rewrite Hg; exact Hp.
Qed.

Lemma mutator_ok_strict c m k s :
  mutator_ok c m = true -> wrapper_kind k = true -> alist_get (c_muts c k) m = Some s ->
  shape_guarded_strict s = true.
Proof.
  unfold mutator_ok, wrapper_kinds. cbn [forallb]. intros H Hk Hs.
  repeat (apply andb_true_iff in H; destruct H as [? H]).
  destruct k; try discriminate; rewrite Hs in *; assumption.
Qed.

Lemma protecting_mut_effect c w o m :
  protecting c o = true -> mutator_ok c m = true -> mut_effect c w o m = MRaise.
Proof.
  intros Hp Hm. destruct o as [z|k wi es]; [reflexivity|].
  pose proof (protecting_shell _ _ _ _ Hp) as Hs. unfold shell_ok in Hs.
  destruct wi as [|g b].
  - destruct k; try discriminate; cbn [mut_effect]; try reflexivity.
    rewrite Hs. destruct (pystr_eqb m delitem_name); reflexivity.
  - assert (Hk : wrapper_kind k = true) by (destruct k, g; try discriminate; reflexivity).
    assert (Hg : g = true) by (destruct k, g; try discriminate; reflexivity).
    subst g. cbn [mut_effect].
    destruct (alist_get (c_muts c k) m) as [s|] eqn:E; [|reflexivity].
    pose proof (mutator_ok_strict _ _ _ _ Hm Hk E) as Hst.
    destruct s as [[|]| | |]; try discriminate; reflexivity.
Qed.

(* ------------------------------------------------------------------ the invariant *)
Definition inv (c : cfg) (root : obj) (w : world) : Prop :=
  w_field w = Some root /\ w_inst w = true /\ w_alias w = [] /\
  forallb (handle_safe c root) (w_handles w) = true.

Lemma inv_push c root w h : inv c root w -> handle_safe c root h = true -> inv c root (push w h).
Proof.
  intros (Hf & Hi & Ha & Hh) Hs. unfold inv, push; cbn.
  repeat split; try assumption.
  rewrite forallb_app, Hh. cbn. rewrite Hs. reflexivity.
Qed.

Lemma step_inv c root w o :
  (c_struct_imm c || c_field_imm c = true) ->
  (negb (read_raw c root) || protecting c root = true) ->
  inv c root w -> op_ok c o = true -> inv c root (fst (step c w o)).
Proof.
  intros Himm Hrd Hinv Hok. pose proof Hinv as (Hf & Hi & Ha & Hh).
  destruct o as [v| | | |h a i|h m new|p new|]; cbn [step].
  - (* OSetAttr *)
    assert (Hr : setattr_raises c w = true).
    { unfold setattr_raises. rewrite Hi, Hf. cbn [is_some]. rewrite !andb_true_r. exact Himm. }
    rewrite Hr. exact Hinv.
  - exact Hinv.
  - (* ODelItem *)
    cbn [op_ok] in Hok. rewrite Hok, Himm. exact Hinv.
  - (* ORead *)
    rewrite Hf. cbn [fst]. apply inv_push; [exact Hinv|].
    unfold read_handle. destruct (read_raw c root) eqn:Er; [|reflexivity].
    cbn [negb orb] in Hrd. apply mk_ref_safe; [exact Hrd|reflexivity].
  - (* OAcc *)
    destruct (nth_error (w_handles w) h) as [hd|] eqn:En; [|exact Hinv].
    assert (Hsafe : handle_safe c root hd = true).
    { rewrite forallb_forall in Hh. apply Hh. eapply nth_error_In; eauto. }
    destruct hd as [|p|p]; cbn [handle_path].
    + cbn [fst]. apply inv_push; [exact Hinv|reflexivity].
    + rewrite Hf. cbn [handle_safe] in Hsafe.
      destruct (get_at root p) as [o|] eqn:Eg; [|discriminate].
      destruct o as [z|k wi es]; [exact Hinv|].
      destruct (nth_error es i) as [ch|] eqn:Ei; [|exact Hinv].
      unfold acc_child. destruct (acc_policy c k wi a ch) as [[|]|] eqn:Ep; cbn [fst].
      * apply inv_push; [exact Hinv|]. apply mk_ref_safe.
        -- eapply protecting_child; eauto.
        -- eapply get_at_app; eauto.
      * apply inv_push; [exact Hinv|reflexivity].
      * exact Hinv.
    + cbn [handle_safe] in Hsafe. discriminate.
  - (* OMut *)
    cbn [op_ok] in Hok.
    destruct (nth_error (w_handles w) h) as [hd|] eqn:En; [|exact Hinv].
    assert (Hsafe : handle_safe c root hd = true).
    { rewrite forallb_forall in Hh. apply Hh. eapply nth_error_In; eauto. }
    destruct hd as [|p|p]; cbn [handle_path].
    + exact Hinv.
    + rewrite Hf. cbn [handle_safe] in Hsafe.
      destruct (get_at root p) as [o|] eqn:Eg; [|discriminate].
      rewrite (protecting_mut_effect c w o m Hsafe Hok). exact Hinv.
    + cbn [handle_safe] in Hsafe. discriminate.
  - (* OCtorArg *)
    rewrite Ha. cbn [existsb]. exact Hinv.
  - (* OUnpickle *)
    cbn [op_ok] in Hok. unfold inv; cbn. rewrite Hi, Hok. repeat split; try assumption.
    clear. induction (w_handles w); cbn; auto.
Qed.

Lemma run_inv c root ops : forall w,
  (c_struct_imm c || c_field_imm c = true) ->
  (negb (read_raw c root) || protecting c root = true) ->
  inv c root w -> forallb (op_ok c) ops = true -> inv c root (run c ops w).
Proof.
  induction ops as [|o t IH]; intros w Himm Hrd Hinv Hok; [exact Hinv|].
  cbn [forallb] in Hok. apply andb_true_iff in Hok. destruct Hok as [Ho Ht].
  unfold run. cbn [fold_left]. apply IH; auto. apply step_inv; auto.
Qed.

Lemma world_safe_inv c w :
  world_safe c w = true ->
  exists root, (c_struct_imm c || c_field_imm c = true) /\
               (negb (read_raw c root) || protecting c root = true) /\ inv c root w.
Proof.
  unfold world_safe. intros H.
  repeat (apply andb_true_iff in H; destruct H as [H ?]).
  destruct (w_field w) as [root|] eqn:Ef; [|discriminate].
  destruct (w_alias w) eqn:Ea; [|discriminate].
  match goal with X : _ && forallb _ _ = true |- _ => apply andb_true_iff in X; destruct X as [Hrd Hh] end.
  exists root. unfold inv. repeat split; auto.
Qed.

Lemma inv_world_safe c root w :
  (c_struct_imm c || c_field_imm c = true) ->
  (negb (read_raw c root) || protecting c root = true) ->
  inv c root w -> world_safe c w = true.
Proof.
  intros Himm Hrd (Hf & Hi & Ha & Hh). unfold world_safe.
  rewrite Himm, Hi, Ha, Hf, Hrd, Hh. reflexivity.
Qed.

Lemma inv_no_live c root w : inv c root w -> has_live w = false.
Proof.
  intros (_ & _ & _ & Hh). unfold has_live.
  induction (w_handles w) as [|h t IH]; [reflexivity|].
  cbn [forallb] in Hh. apply andb_true_iff in Hh. destruct Hh as [H1 H2].
  cbn [existsb]. rewrite (IH H2). destruct h; try reflexivity. discriminate.
Qed.

(* C04, main statement: from a safe world, any finite sequence of operations whose entry points are
   guard-shaped leaves the abstract state unchanged, never yields a Live handle, and stays safe. *)
Theorem invariant c w0 ops :
  world_safe c w0 = true -> forallb (op_ok c) ops = true ->
  abs (run c ops w0) = abs w0 /\ has_live (run c ops w0) = false /\ world_safe c (run c ops w0) = true.
Proof.
  intros Hs Hok. destruct (world_safe_inv _ _ Hs) as (root & Himm & Hrd & Hinv).
  pose proof (run_inv c root ops w0 Himm Hrd Hinv Hok) as Hr.
  split; [|split].
  - unfold abs. destruct Hr as (Hf & _). destruct Hinv as (Hf0 & _). congruence.
  - eapply inv_no_live; eauto.
  - eapply inv_world_safe; eauto.
Qed.

Lemma tables_guarded_op_ok c o : tables_guarded c = true -> op_ok c o = true.
Proof.
  unfold tables_guarded. intros H.
  apply andb_true_iff in H. destruct H as [H Hu]. apply andb_true_iff in H. destruct H as [Ht Hd].
  destruct o; cbn [op_ok]; auto.
  unfold mutator_ok. rewrite forallb_forall in *. intros k Hk. specialize (Ht k Hk).
  destruct (alist_get (c_muts c k) m) as [s|] eqn:E; [|reflexivity].
  rewrite forallb_forall in Ht. apply alist_get_In in E. apply (Ht _ E).
Qed.

(* the form of DESIGN §6: if every entry point of the generated tables is guard-shaped, EVERY finite
   operation sequence leaves the state unchanged *)
Theorem invariant_tables c w0 ops :
  world_safe c w0 = true -> tables_guarded c = true ->
  abs (run c ops w0) = abs w0 /\ has_live (run c ops w0) = false.
Proof.
  intros Hs Ht.
  assert (Hok : forallb (op_ok c) ops = true).
  { rewrite forallb_forall. intros o _. apply tables_guarded_op_ok; exact Ht. }
  destruct (invariant c w0 ops Hs Hok) as (H1 & H2 & _). auto.
Qed.

(* ------------------------------------------------------------------ witnesses: what an unsafe entry allows *)
Definition top_world (root : obj) : world :=
  {| w_field := Some root; w_inst := true; w_handles := []; w_alias := [] |}.

Lemma box_elems_neq k w a b : a <> b -> Some (Box k w a) <> Some (Box k w b).
Proof. intros H E. inversion E. contradiction. Qed.

(* an un-overridden (or unrecognised) mutator of a wrapper class changes the instance in place *)
Theorem witness_mutator c k m s new :
  wrapper_kind k = true ->
  alist_get (c_muts c k) m = Some s -> shape_guarded s = false ->
  let root := Box k (Wrap true BReal) [Atom 1] in
  read_raw c root = true -> new <> [Atom 1] ->
  abs (run c [ORead; OMut 0 m new] (top_world root)) <> abs (top_world root).
Proof.
  intros Hk Hs Hg root Hr Hn. unfold root in *. clear root.
  unfold run, top_world. cbn [fold_left step w_field fst]. unfold read_handle. rewrite Hr.
  destruct k; try discriminate;
    cbn [mk_ref inert push w_handles app nth_error handle_path w_field fst get_at mut_effect];
    rewrite Hs;
    (destruct s as [g| | |]; try discriminate; cbn [fst inplace_at set_field abs w_field set_elems_at];
     apply box_elems_neq; exact Hn).
Qed.

(* an accessor that hands out the stored elements themselves gives a Live handle to a plain container *)
Theorem witness_accessor c k a sh rk m new :
  wrapper_kind k = true ->
  alist_get (c_accs c k) a = Some (sh, rk) -> (sh = ANotOverridden \/ sh = AUnrecognised) ->
  str_in m (c_base_muts c KList) = true ->
  let root := Box k (Wrap true BReal) [Box KList NoWrap [Atom 1]] in
  read_raw c root = true -> new <> [Atom 1] ->
  has_live (run c [ORead; OAcc 0 a 0] (top_world root)) = true /\
  abs (run c [ORead; OAcc 0 a 0; OMut 1 m new] (top_world root)) <> abs (top_world root).
Proof.
  intros Hk Ha Hsh Hm root Hr Hn. unfold root in *. clear root.
  assert (Hp : acc_policy c k (Wrap true BReal) a (Box KList NoWrap [Atom 1]) = Some true).
  { unfold acc_policy, acc_policy0. rewrite Ha. destruct Hsh; subst; reflexivity. }
  unfold run, top_world. cbn [fold_left step w_field fst]. unfold read_handle. rewrite Hr.
  destruct k; try discriminate;
    cbn [mk_ref inert push w_handles app nth_error handle_path w_field fst get_at];
    unfold acc_child; rewrite Hp;
    cbn [mk_ref inert push w_handles app nth_error handle_path w_field fst get_at has_live existsb];
    (split; [reflexivity|]);
    cbn [mut_effect]; rewrite Hm;
    cbn [fst inplace_at set_field abs w_field set_elems_at upd_nth];
    intros E; inversion E; contradiction.
Qed.

(* Field.__get__ handing out a plain mutable value itself (no defensive copy) *)
Theorem witness_read c k es m new :
  (match k with KList | KDeque | KDict | KSet => true | _ => false end) = true ->
  read_raw c (Box k NoWrap es) = true ->
  str_in m (c_base_muts c k) = true -> new <> es ->
  abs (run c [ORead; OMut 0 m new] (top_world (Box k NoWrap es))) <> abs (top_world (Box k NoWrap es)).
Proof.
  intros Hk Hr Hm Hn.
  unfold run, top_world. cbn [fold_left step w_field fst]. unfold read_handle. rewrite Hr.
  destruct k; try discriminate;
    cbn [mk_ref inert push w_handles app nth_error handle_path w_field fst get_at mut_effect];
    rewrite Hm; cbn [fst inplace_at set_field abs w_field set_elems_at];
    apply box_elems_neq; exact Hn.
Qed.

(* del x['f'] on an immutable when Structure.__delitem__ has no guard (F6) *)
Theorem witness_delitem c root :
  c_delitem_guarded c = false ->
  abs (run c [ODelItem] (top_world root)) <> abs (top_world root).
Proof.
  intros H. unfold run, top_world. cbn [fold_left step]. rewrite H. cbn. discriminate.
Qed.

(* an unpickled ImmutableStructure without _instantiated accepts assignment (F7) *)
Theorem witness_unpickle c root v :
  c_field_imm c = false -> c_unpickle_keeps c = false -> v <> root ->
  abs (run c [OUnpickle; OSetAttr v] (top_world root)) <> abs (top_world root).
Proof.
  intros Hf Hu Hv. unfold run, top_world. cbn [fold_left step fst w_inst].
  unfold setattr_raises. cbn [w_inst w_field]. rewrite Hf, Hu. cbn.
  rewrite andb_false_r. cbn. intros E. inversion E. contradiction.
Qed.

(* ------------------------------------------------------------------ constructor arguments *)
Theorem ctor_arg_detached c w p new :
  existsb (path_eqb p) (w_alias w) = false -> step c w (OCtorArg p new) = (w, Done).
Proof. intros H. cbn [step]. rewrite H. reflexivity. Qed.

Theorem ctor_alias_immutable_structure c d :
  c_struct_imm c = true -> c_copies_setattr c = true -> incoming_passes c d = false ->
  ctor_alias c d = [].
Proof. intros H1 H2 H3. unfold ctor_alias. rewrite H1, H2, H3. reflexivity. Qed.

Theorem ctor_args_unchanged c d muts :
  c_struct_imm c = true -> c_copies_setattr c = true -> incoming_passes c d = false ->
  abs (run c (map (fun pn => OCtorArg (fst pn) (snd pn)) muts) (world_of c d)) = abs (world_of c d).
Proof.
  intros H1 H2 H3.
  assert (Ha : w_alias (world_of c d) = []) by (cbn; apply ctor_alias_immutable_structure; auto).
  generalize dependent (world_of c d). induction muts as [|[p n] t IH]; intros w Ha; [reflexivity|].
  unfold run. cbn [map fold_left fst snd]. rewrite ctor_arg_detached by (rewrite Ha; reflexivity).
  cbn [fst]. apply IH. exact Ha.
Qed.

(* ------------------------------------------------------------------ no-subclass clause *)
Section cls_induction.
  Variable P : cls -> Prop.
  Hypothesis HR : forall r, P (Root r).
  Hypothesis HU : forall bs, Forall P bs -> P (User bs).
  Fixpoint cls_ind' (c : cls) : P c :=
    match c with
    | Root r => HR r
    | User bs =>
        HU bs ((fix go (l : list cls) : Forall P l :=
                  match l with
                  | [] => Forall_nil P
                  | b :: t => Forall_cons b (cls_ind' b) (go t)
                  end) bs)
    end.
End cls_induction.

Lemma below_user target bs : below target (User bs) = existsb (below target) bs.
Proof. cbn [below]. induction bs as [|b t IH]; [reflexivity|]. cbn [existsb]. rewrite <- IH. reflexivity. Qed.

Lemma below_sealed_user f bs : below_sealed f (User bs) = existsb (below_sealed f) bs.
Proof. cbn [below_sealed]. induction bs as [|b t IH]; [reflexivity|]. cbn [existsb]. rewrite <- IH. reflexivity. Qed.

Lemma below_mono (t1 t2 : root -> bool) c :
  (forall r, t1 r = true -> t2 r = true) -> below t1 c = true -> below t2 c = true.
Proof.
  intros Hm. induction c as [r|bs IH] using cls_ind'; [cbn; auto|].
  rewrite !below_user. rewrite !existsb_exists. intros (b & Hin & Hb).
  exists b. split; [exact Hin|]. rewrite Forall_forall in IH. auto.
Qed.

Lemma below_split c :
  below sealed_root c = true -> below is_struct_root c = true \/ below is_field_root c = true.
Proof.
  induction c as [r|bs IH] using cls_ind'.
  - destruct r; cbn; auto; discriminate.
  - rewrite !below_user. rewrite existsb_exists. intros (b & Hin & Hb).
    rewrite Forall_forall in IH. destruct (IH b Hin Hb); [left|right]; apply existsb_exists; eauto.
Qed.

Lemma below_sealed_of f c :
  final_cfg_ok f = true -> below sealed_root c = true -> below_sealed f c = true.
Proof.
  unfold final_cfg_ok. intros H.
  repeat (apply andb_true_iff in H; destruct H as [H ?]).
  induction c as [r|bs IH] using cls_ind'.
  - destruct r; cbn [below sealed_root below_sealed root_name]; try discriminate; auto.
  - rewrite below_user, below_sealed_user. rewrite !existsb_exists. intros (b & Hin & Hb).
    rewrite Forall_forall in IH. eauto.
Qed.

Lemma in_proper_ancestors b bases : In b bases -> In b (proper_ancestors bases).
Proof.
  intros H. unfold proper_ancestors. apply in_flat_map. exists b. split; [exact H|].
  destruct b; cbn; left; reflexivity.
Qed.

(* No class statement can have, among its bases, a user class that extends ImmutableStructure,
   FinalStructure or an ImmutableField class: defining it raises. *)
Theorem no_subclass f bases b :
  final_cfg_ok f = true -> In b bases -> user_sealed b = true -> define_raises f bases = true.
Proof.
  intros Hf Hin Hu. unfold user_sealed in Hu. apply andb_true_iff in Hu. destruct Hu as [Hnr Hb].
  pose proof (below_sealed_of f b Hf Hb) as Hbs.
  pose proof Hf as Hf'. unfold final_cfg_ok in Hf'.
  repeat (apply andb_true_iff in Hf'; destruct Hf' as [Hf' ?]).
  unfold define_raises.
  apply andb_true_iff. split; [apply andb_true_iff; split|]; [|assumption|].
  - destruct (below_split b Hb) as [Hs|Hs].
    + assert (E : existsb (below is_struct_root) bases = true) by (apply existsb_exists; eauto).
      rewrite E. cbn [app existsb]. match goal with X : str_in (s2p "StructMeta") _ = true |- _ => rewrite X end.
      reflexivity.
    + assert (E : existsb (below is_field_root) bases = true) by (apply existsb_exists; eauto).
      rewrite E. rewrite existsb_app. cbn [existsb].
      match goal with X : str_in (s2p "FieldMeta") _ = true |- _ => rewrite X end.
      rewrite orb_true_r. reflexivity.
  - apply existsb_exists. exists b. split; [apply in_proper_ancestors; exact Hin|].
    unfold strictly_sealed. rewrite Hbs, Hnr. rewrite orb_true_r. reflexivity.
Qed.

(* hence no definable class lies two or more levels below a sealed root *)
Fixpoint definable (f : final_cfg) (c : cls) : bool :=
  match c with
  | Root _ => true
  | User bs =>
      negb (define_raises f bs)
      && (fix all (l : list cls) : bool := match l with [] => true | b :: t => definable f b && all t end) bs
  end.

Theorem definable_bases_not_sealed f bs b :
  final_cfg_ok f = true -> definable f (User bs) = true -> In b bs -> user_sealed b = false.
Proof.
  intros Hf Hd Hin. destruct (user_sealed b) eqn:E; [|reflexivity].
  cbn [definable] in Hd. apply andb_true_iff in Hd. destruct Hd as [Hd _].
  rewrite (no_subclass f bs b Hf Hin E) in Hd. discriminate.
Qed.
