(* Default FACTORIES: a field declared `default=<callable>` gets, at every construction that omits it, the
   value the callable returns THEN.  [with_default c n d] is class c at a moment when the factory of field n
   returns d; validity of an instance never depends on defaults.  Executable; no proofs here. *)
From Coq Require Import ZArith NArith String List Bool.
Import ListNotations.
From TP Require Import Base.PyVal Fields.FieldAst.

Definition fd_with_default (n : pystr) (d : pyval) (fd : fdecl) : fdecl :=
  if pystr_eqb (fd_name fd) n
  then {| fd_name := fd_name fd; fd_field := fd_field fd; fd_immutable := fd_immutable fd; fd_default := Some d |}
  else fd.

Definition with_default (c : classdef) (n : pystr) (d : pyval) : classdef :=
  {| c_name := c_name c; c_ancestors := c_ancestors c;
     c_fields := map (fd_with_default n d) (c_fields c);
     c_required := c_required c; c_additional := c_additional c; c_ignore_none := c_ignore_none c;
     c_immutable := c_immutable c; c_hook := c_hook c |}.
