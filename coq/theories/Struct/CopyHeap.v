(* Object-graph model of copy.deepcopy / copy.copy / the pickle round trip on typedpy instances:
   objects WITH IDENTITY (heap locations), so that "the copy is fully independent of the original"
   can be stated and proved.  Executable; no proofs here (Struct/CopyHeapProofs.v).

   What is modelled
   * a heap is a list of objects, a location is an index; an object has a kind (list, deque, set, dict,
     tuple, frozenset, Structure instance, typedpy wrapper _ListStruct/_DequeStruct/_DictStruct) and
     labelled children; a child is an immutable atom (a pure value: None/bool/number/str/enum member, an
     empty tuple/frozenset, a nested ImmutableStructure read as a value) or a reference to a location;
   * CPython's deepcopy on the built-in containers (new object, children copied; a tuple whose copied
     children are all identical to the old ones is returned itself);
   * Structure.__deepcopy__ and the wrappers' __deepcopy__ PARAMETRISED by a [copy_policy] that is
     re-generated from the source on every run (Gen/CopySites.v, harness/genmods/copy_sites.py): which
     attribute values / items are passed to deepcopy, which are re-used as they are;
   * the re-wrapping done by Array/Deque/Map.__set__ when the copied value is stored with setattr;
   * client mutations as arbitrary histories of allocations and in-place updates of mutable objects.
   What is not: memo-preserved sharing INSIDE one instance (the copy is a tree copy), the owner
   back-reference of a wrapper (a wrapper is bound to the instance whose attribute it is; that the
   implementation binds it so is checked on the implementation by the lock-step histories). *)
From Coq Require Import ZArith NArith Bool List Arith Lia.
Import ListNotations.
From TP Require Import Base.PyVal Base.PyEq.

Definition loc := nat.

Inductive okind :=
| KList | KDeque | KSet | KDict          (* plain mutable built-in containers *)
| KTuple | KFrozen                       (* immutable built-in containers (their children may be mutable) *)
| KInst (cls : pystr) (imm : bool)       (* Structure instance; imm: an ImmutableStructure *)
| KWList | KWDeque | KWDict.             (* _ListStruct / _DequeStruct / _DictStruct *)

Inductive child :=
| CAtom (v : pyval)
| CRef (l : loc).

(* children: attribute names label the children of an instance; the entries of a dict are stored as
   consecutive key, value children; other labels are empty *)
Record obj := { o_kind : okind; o_kids : list (pystr * child) }.

Definition heap := list obj.
Definition get (h : heap) (l : loc) : option obj := nth_error h l.

Definition mutable_kind (k : okind) : bool :=
  match k with
  | KList | KDeque | KSet | KDict | KWList | KWDeque | KWDict => true
  | KTuple | KFrozen => false
  | KInst _ imm => negb imm
  end.

Definition mutable_at (h : heap) (l : loc) : bool :=
  match get h l with Some o => mutable_kind (o_kind o) | None => false end.

Definition is_wrapper (k : okind) : bool :=
  match k with KWList | KWDeque | KWDict => true | _ => false end.

(* ------------------------------------------------------------------ well-formedness (boolean) *)

Definition child_okb (n : nat) (c : child) : bool :=
  match c with CAtom _ => true | CRef l => Nat.ltb l n end.

Definition obj_okb (n : nat) (o : obj) : bool := forallb (fun p => child_okb n (snd p)) (o_kids o).

(* every reference points into the heap *)
Definition closedb (h : heap) : bool := forallb (obj_okb (length h)) h.

Definition is_atom (c : child) : bool := match c with CAtom _ => true | CRef _ => false end.

(* an ImmutableStructure is a value: its state is not reachable as objects (C04 is the property that
   says nothing behind it can be changed); the reifier inlines such instances as atoms, an object of
   kind [KInst _ true] has only atoms below it *)
Definition imm_opaqueb (h : heap) : bool :=
  forallb (fun o => match o_kind o with
                    | KInst _ true => forallb (fun p => is_atom (snd p)) (o_kids o)
                    | _ => true end) h.

(* ------------------------------------------------------------------ reading a value back *)

Fixpoint pairs (l : list pyval) : list (pyval * pyval) :=
  match l with k :: v :: t => (k, v) :: pairs t | _ => [] end.

Definition build (k : okind) (kids : list (pystr * pyval)) : pyval :=
  let vs := map snd kids in
  match k with
  | KList | KWList => PList vs
  | KDeque | KWDeque => PDeque vs
  | KSet => PSet false vs
  | KFrozen => PSet true vs
  | KDict | KWDict => PDict (pairs vs)
  | KTuple => PTuple vs
  | KInst c _ => PStruct c kids
  end.

(* the value (tree) a child denotes in a heap; fuel bounds the depth *)
Fixpoint abs (fuel : nat) (h : heap) (c : child) : pyval :=
  match c with
  | CAtom v => v
  | CRef l =>
      match fuel with
      | 0 => PNone
      | S f =>
          match get h l with
          | Some o => build (o_kind o) (map (fun p => (fst p, abs f h (snd p))) (o_kids o))
          | None => PNone
          end
      end
  end.

(* ------------------------------------------------------------------ the copy policy (generated) *)

(* Python types named in isinstance tests of the copy code *)
Inductive tyname :=
| TInt | TFloat | TStr | TBool | TNone | TDecimal | TBytes | TEnum
| TTuple | TFrozenset | TList | TDict | TSet | TDeque
| TStructure | TImmStructure | TImmMixin
| TOther.                                (* anything the generator does not know: never safe *)

Definition tyname_eqb (a b : tyname) : bool :=
  match a, b with
  | TInt, TInt | TFloat, TFloat | TStr, TStr | TBool, TBool | TNone, TNone | TDecimal, TDecimal
  | TBytes, TBytes | TEnum, TEnum | TTuple, TTuple | TFrozenset, TFrozenset | TList, TList
  | TDict, TDict | TSet, TSet | TDeque, TDeque | TStructure, TStructure
  | TImmStructure, TImmStructure | TImmMixin, TImmMixin | TOther, TOther => true
  | _, _ => false
  end.

(* isinstance(object of kind k, t) *)
Definition kind_isinstance (k : okind) (t : tyname) : bool :=
  match k, t with
  | KList, TList | KWList, TList | KWList, TImmMixin => true
  | KDeque, TDeque | KWDeque, TDeque | KWDeque, TImmMixin => true
  | KDict, TDict | KWDict, TDict | KWDict, TImmMixin => true
  | KSet, TSet => true
  | KFrozen, TFrozenset => true
  | KTuple, TTuple => true
  | KInst _ _, TStructure => true
  | KInst _ true, TImmStructure => true
  | _, _ => false
  end.

Definition atom_isinstance (v : pyval) (t : tyname) : bool :=
  match v, t with
  | PNone, TNone => true
  | PBool _, TBool | PBool _, TInt => true
  | PNum (NInt _), TInt => true
  | PNum (NFlt _ _), TFloat => true
  | PNum (NDec _ _), TDecimal => true
  | PStr _, TStr => true
  | PEnum _ _ _, TEnum => true
  | PTuple _, TTuple => true
  | PSet true _, TFrozenset => true
  | PStruct _ _, TStructure | PStruct _ _, TImmStructure => true
  | _, _ => false
  end.

(* how one contained value is treated by a copy routine *)
Inductive item_policy :=
| Deep                                   (* deepcopy(v[, memo]) *)
| DeepUnless (tys : list tyname)         (* v if isinstance(v, tys) else deepcopy(v) *)
| Shallow                                (* v *)
| UnknownPol.                            (* not recognised: the model refuses to evaluate *)

Record copy_policy := {
  cp_self_if_immutable : bool;           (* Structure.__deepcopy__ returns self for an immutable structure *)
  cp_attr : item_policy;                 (* ... how it treats each __dict__ value *)
  cp_attr_via_setattr : bool;            (* ... and stores it with setattr (Field.__set__ re-wraps) *)
  cp_wlist : item_policy;                (* _ListStruct.__deepcopy__: the items *)
  cp_wdeque : item_policy;               (* _DequeStruct.__deepcopy__: the items *)
  cp_wdict : item_policy                 (* _DictStruct.__deepcopy__: keys and values (the weaker of the two) *)
}.

(* types all of whose instances are deeply immutable: re-using such a value is harmless *)
Definition ty_safe (t : tyname) : bool :=
  match t with
  | TInt | TFloat | TStr | TBool | TNone | TDecimal | TBytes | TEnum | TImmStructure => true
  | _ => false
  end.

Definition item_safe (p : item_policy) : bool :=
  match p with
  | Deep => true
  | DeepUnless tys => forallb ty_safe tys
  | Shallow | UnknownPol => false
  end.

Definition policy_safe (p : copy_policy) : bool :=
  item_safe (cp_attr p) && item_safe (cp_wlist p) && item_safe (cp_wdeque p) && item_safe (cp_wdict p).

(* the type names a policy re-uses although their instances can hold (or be) mutable objects *)
Definition unsafe_types_of (p : item_policy) : list tyname :=
  match p with DeepUnless tys => filter (fun t => negb (ty_safe t)) tys | _ => [] end.

Definition all_deep : copy_policy :=
  {| cp_self_if_immutable := false; cp_attr := Deep; cp_attr_via_setattr := false;
     cp_wlist := Deep; cp_wdeque := Deep; cp_wdict := Deep |}.

(* ------------------------------------------------------------------ deepcopy *)

Definition alloc (h : heap) (o : obj) : heap * child := (h ++ [o], CRef (length h)).

Definition child_isinstance (h : heap) (c : child) (tys : list tyname) : bool :=
  match c with
  | CAtom v => existsb (atom_isinstance v) tys
  | CRef l => match get h l with
              | Some o => existsb (kind_isinstance (o_kind o)) tys
              | None => false
              end
  end.

Definition by_policy (rec : heap -> child -> option (heap * child)) (p : item_policy)
           (h : heap) (c : child) : option (heap * child) :=
  match p with
  | Deep => rec h c
  | DeepUnless tys => if child_isinstance h c tys then Some (h, c) else rec h c
  | Shallow => Some (h, c)
  | UnknownPol => None
  end.

(* the children one after the other, the heap threaded through *)
Fixpoint map_kids (f : heap -> child -> option (heap * child)) (h : heap) (kids : list (pystr * child))
  : option (heap * list (pystr * child)) :=
  match kids with
  | [] => Some (h, [])
  | (k, c) :: t =>
      match f h c with
      | None => None
      | Some (h1, c1) =>
          match map_kids f h1 t with
          | None => None
          | Some (h2, t2) => Some (h2, (k, c1) :: t2)
          end
      end
  end.

(* Array/Deque/Map.__set__ wrap the value they are given into a NEW wrapper object (same items) *)
Definition rewrap (h : heap) (c : child) : heap * child :=
  match c with
  | CRef w =>
      match get h w with
      | Some o => if is_wrapper (o_kind o) then alloc h o else (h, c)
      | None => (h, c)
      end
  | CAtom _ => (h, c)
  end.

(* `for k, j in zip(x, y): if k is not j` of copy._deepcopy_tuple: atoms are returned as they are *)
Fixpoint same_refs (a b : list (pystr * child)) : bool :=
  match a, b with
  | [], [] => true
  | (_, CAtom _) :: a', (_, CAtom _) :: b' => same_refs a' b'
  | (_, CRef l) :: a', (_, CRef m) :: b' => Nat.eqb l m && same_refs a' b'
  | _, _ => false
  end.

Section DeepCopy.
  Variable pol : copy_policy.

  Definition attr_step (rec : heap -> child -> option (heap * child)) (h : heap) (c : child)
    : option (heap * child) :=
    match by_policy rec (cp_attr pol) h c with
    | None => None
    | Some (h1, c1) => Some (if cp_attr_via_setattr pol then rewrap h1 c1 else (h1, c1))
    end.

  Definition fresh_obj (k : okind) (r : option (heap * list (pystr * child))) : option (heap * child) :=
    match r with
    | None => None
    | Some (h1, kids1) => Some (alloc h1 {| o_kind := k; o_kids := kids1 |})
    end.

  (* copy.deepcopy(c) in heap h: the extended heap and the copy.  None: out of fuel (a cyclic or too
     deep graph) or a policy the generator could not read. *)
  Fixpoint dc (fuel : nat) (h : heap) (c : child) {struct fuel} : option (heap * child) :=
    match c with
    | CAtom _ => Some (h, c)
    | CRef l =>
        match fuel with
        | 0 => None
        | S f =>
            match get h l with
            | None => None
            | Some o =>
                match o_kind o with
                | KList | KDeque | KSet | KDict | KFrozen =>
                    fresh_obj (o_kind o) (map_kids (dc f) h (o_kids o))
                | KTuple =>
                    match map_kids (dc f) h (o_kids o) with
                    | None => None
                    | Some (h1, kids1) =>
                        if same_refs (o_kids o) kids1 then Some (h1, c)
                        else Some (alloc h1 {| o_kind := KTuple; o_kids := kids1 |})
                    end
                | KInst cls imm =>
                    if imm && cp_self_if_immutable pol then Some (h, c)
                    else fresh_obj (o_kind o) (map_kids (attr_step (dc f)) h (o_kids o))
                | KWList => fresh_obj KWList (map_kids (by_policy (dc f) (cp_wlist pol)) h (o_kids o))
                | KWDeque => fresh_obj KWDeque (map_kids (by_policy (dc f) (cp_wdeque pol)) h (o_kids o))
                | KWDict => fresh_obj KWDict (map_kids (by_policy (dc f) (cp_wdict pol)) h (o_kids o))
                end
            end
        end
    end.
End DeepCopy.

(* the pickle round trip rebuilds every object *)
Definition pickle_heap := dc all_deep.

(* Structure.__copy__: a new instance with the same __dict__ entries *)
Definition copy_shallow (h : heap) (c : child) : option (heap * child) :=
  match c with
  | CRef l =>
      match get h l with
      | Some o => match o_kind o with KInst _ _ => Some (alloc h o) | _ => None end
      | None => None
      end
  | CAtom _ => None
  end.

(* ------------------------------------------------------------------ mutation histories *)

Fixpoint upd {A} (l : list A) (n : nat) (x : A) : list A :=
  match l, n with
  | [], _ => []
  | _ :: t, 0 => x :: t
  | y :: t, S n' => y :: upd t n' x
  end.

(* what a client can do: build a new object; change an existing mutable object in place (every
   list/dict/set/deque method, every setattr/delattr, every wrapper mutator is a sequence of these) *)
Inductive op :=
| OAlloc (o : obj)
| OSet (l : loc) (kids : list (pystr * child)).

Definition apply_op (h : heap) (p : op) : heap :=
  match p with
  | OAlloc o => h ++ [o]
  | OSet l kids =>
      match get h l with
      | Some o => upd h l {| o_kind := o_kind o; o_kids := kids |}
      | None => h
      end
  end.

Definition run (h : heap) (ops : list op) : heap := fold_left apply_op ops h.

(* ------------------------------------------------------------------ reachability, executable *)

(* locations reachable from a child (pre-order, with repetitions), depth bounded by fuel *)
Fixpoint reach_list (fuel : nat) (h : heap) (c : child) : list loc :=
  match c with
  | CAtom _ => []
  | CRef l =>
      l :: match fuel with
           | 0 => []
           | S f =>
               match get h l with
               | Some o => flat_map (fun p => reach_list f h (snd p)) (o_kids o)
               | None => []
               end
           end
  end.

Definition mem_loc (l : loc) (s : list loc) : bool := existsb (Nat.eqb l) s.

(* mutable objects reachable from both *)
Definition shared_mutable (fuel : nat) (h : heap) (a b : child) : list loc :=
  let rb := reach_list fuel h b in
  nodup Nat.eq_dec (filter (fun l => mutable_at h l && mem_loc l rb) (reach_list fuel h a)).

Definition separatedb (fuel : nat) (h : heap) (a b : child) : bool :=
  match shared_mutable fuel h a b with [] => true | _ => false end.
